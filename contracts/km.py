"""C19: the Kormann-Meixner reference (ffm_kormann_meixner.estimateFootprint, estimateZ0 and the
stability helpers) equals its published closed form.  Oracle written from Kormann & Meixner
(2001): m = u* phi_m/(k u), n (Eq. 36), kappa = k u* z/(phi_c z^n), U = u*(ln(z/z0)+psi_m)/(k z^m),
r = 2+m-n, mu = (1+m)/r, xi = U z^r/(r^2 kappa), f(x) = xi^mu e^(-xi/x)/(Gamma(mu) x^(1+mu)) (Eq. 21),
ubar(x) = Gamma(mu)/Gamma(1/r) (r^2 kappa/U)^(m/r) U x^(m/r) (Eq. 18), sigma = sigma_v x/ubar,
D = exp(-y^2/2 sigma^2)/(sqrt(2 pi) sigma), cell = f D res^2.
Power laws pow(b,e1) pow(b,e2) = pow(b,e1+e2), polar/addition formulas are the A8 instances built
into pyvc.valueview.  Not decided by contracts: convergence of the cell sum to the incomplete-gamma
mass, median-smoothed estimateZ0 (bounded stand-in)."""
from fractions import Fraction

import z3

from pyvc import sym, arrays, harness, loops, npshim, transc, values
from pyvc.sym import Num, SBool, num, ite
from pyvc.arrays import Arr, Axis
from contracts.most import NPX

P = {"C19"}
MOD = "bldfm.ffm_kormann_meixner"
K = Fraction(2, 5)
HEAVY = False   # the monolithic closed-form identity exceeds the normaliser's budget; see generate_factors


def namespace(ctx):
    ns = harness.namespace(MOD)
    ns["np"] = NPX()
    warned = []
    ns["warnings"] = values.Rec("warnings", warn=lambda msg, *a, **k: warned.append(msg))
    ns["spsp"] = values.Rec("spsp", gamma=transc.gamma)
    for f in ("_phiM", "_phiC", "_psiM", "_mParam", "_nParam", "estimateFootprint", "estimateZ0"):
        harness.define(ctx, ns, MOD, f)
    return ns, warned


def pw(b, e):
    return transc.power(b, e)


def spec_params(zm, z0, ws, ust, L, helpers=None):
    if helpers is not None:
        # modular: the stability helpers are under their own contracts (km.helpers); here their
        # results are opaque values
        phi_m, phi_c, psi_m, m, n = [helpers[k] for k in ("phi_m", "phi_c", "psi_m", "m", "n")]
        kappa = K * ust * zm / (phi_c * pw(zm, n))
        U = ust * (transc.log(zm / z0) + psi_m) / (K * pw(zm, m))
        r = 2 + m - n
        mu = (1 + m) / r
        xi = U * pw(zm, r) / (r ** 2 * kappa)
        return dict(m=m, n=n, kappa=kappa, U=U, r=r, mu=mu, xi=xi, phi_m=phi_m, phi_c=phi_c, psi_m=psi_m)
    x = zm / L
    stable = L >= 0
    phi_m = ite(L < 0, pw(1 - 16 * x, Fraction(-1, 4)), 1 + 5 * x)
    phi_c = ite(L < 0, pw(1 - 16 * x, Fraction(-1, 2)), 1 + 5 * x)
    xi4 = pw(1 - 16 * x, Fraction(1, 4))
    psi_m = ite(L < 0, -2 * transc.log((1 + xi4) / 2) - transc.log((1 + xi4 ** 2) / 2) + 2 * transc.arctan(xi4) - transc.PI() / 2, 5 * x)
    m = ust * phi_m / (K * ws)
    n = ite(L < 0, (1 - 24 * x) / (1 - 16 * x), 1 / (1 + 5 * x))
    kappa = K * ust * zm / (phi_c * pw(zm, n))
    U = ust * (transc.log(zm / z0) + psi_m) / (K * pw(zm, m))
    r = 2 + m - n
    mu = (1 + m) / r
    xi = U * pw(zm, r) / (r ** 2 * kappa)
    return dict(m=m, n=n, kappa=kappa, U=U, r=r, mu=mu, xi=xi, phi_m=phi_m, phi_c=phi_c, psi_m=psi_m)


def spec_cell(p, x, y, sigma_v, res):
    two_pi = 2 * transc.PI()
    # powers of the upwind distance are written with pow throughout (x is a composite expression of
    # the grid inputs; pow(x, -1) = 1/x is the A8 instance pow(b, k) = b^k for integer k)
    f = pw(p["xi"], p["mu"]) * transc.exp(-p["xi"] / x) * pw(x, -(1 + p["mu"])) / transc.gamma(p["mu"])
    ubar = transc.gamma(p["mu"]) / transc.gamma(1 / p["r"]) * pw(p["r"] ** 2 * p["kappa"] / p["U"], p["m"] / p["r"]) * p["U"] * pw(x, p["m"] / p["r"])
    inv_sigma = ubar * pw(x, Num(-1)) / sigma_v            # sigma = sigma_v x / ubar
    D = transc.exp(-(y ** 2) * inv_sigma ** 2 / 2) * inv_sigma / transc.sqrt(two_pi)
    return f * D * res ** 2


def generate(ctx):
    if not ctx.wants(P):
        return
    ns, warned = namespace(ctx)
    eF = ns["estimateFootprint"]

    for ztype in ("float", "int"):
        for wdcfg in ("none", "given"):
            def thunk(run, ztype=ztype, wdcfg=wdcfg):
                run.scope = "ffm_kormann_meixner.estimateFootprint[zm:%s|wd=%s]" % (ztype, wdcfg)
                zm = sym.fresh_real("zm") if ztype == "float" else sym.fresh_int("zm")
                z0, ws, ust, L, sv, res = [sym.fresh_real(n) for n in ("z0", "ws", "ustar", "mo_len", "sigma_v", "res")]
                run.assume((zm > 0) & (z0 > 0) & (ws > 0) & (ust > 0) & (L != 0) & (sv > 0) & (res > 0))
                xmin, xmax, ymin, ymax = [sym.fresh_real(n) for n in ("xmin", "xmax", "ymin", "ymax")]
                mx, my = sym.fresh_real("mx"), sym.fresh_real("my")
                wd = sym.fresh_real("wd") if wdcfg == "given" else None
                del warned[:]
                # contracts of the helpers at their call sites: results are opaque values; each helper
                # must be called on the one-element arrays [zm], [mo_len] (and [ws], [ustar])
                H = {k: sym.fresh_real("H_" + k) for k in ("phi_m", "phi_c", "psi_m", "m", "n")}
                calls = []

                def stub(key, nargs):
                    def f(*a):
                        calls.append((key, a))
                        return arrays.from_list([H[key]])
                    return f
                saved = {k: ns[k] for k in ("_phiM", "_phiC", "_psiM", "_mParam", "_nParam")}
                ns.update({"_phiM": stub("phi_m", 2), "_phiC": stub("phi_c", 2), "_psiM": stub("psi_m", 2),
                           "_mParam": stub("m", 4), "_nParam": stub("n", 2)})
                try:
                    out = harness.call(run, eF, zm, z0, ws, ust, L, sv, [xmin, xmax, ymin, ymax], res, [mx, my], wd=wd)
                finally:
                    ns.update(saved)
                gx, gy, ffm = out.value
                want_args = {"phi_m": (zm, L), "phi_c": (zm, L), "psi_m": (zm, L), "n": (zm, L), "m": (zm, ws, ust, L)}
                for key, a in calls:
                    ok = len(a) == len(want_args[key]) and all(isinstance(x, Arr) and x.ndim == 1 for x in a)
                    run.oblige("helper-call.%s.arity" % key, SBool(ok), kind="call-pre")
                    if ok:
                        for x, w in zip(a, want_args[key]):
                            run.oblige("helper-call.%s.argument" % key, loops.scalar_eq(x.at(0), w) & (x.axes[0].size == 1), kind="call-pre")
                # structural premise: the specification is stated over the results of the helpers it needs (phi_c, psi_m, m, n;
                # phi_m enters only through _mParam), so the path must obtain those from the helpers.  A dead call removed
                # (phi_m = _phiM(...) is never used by the footprint) or a result reused is not a violation.
                called = {k for k, _ in calls}
                run.oblige("helpers-the-specification-needs-are-called", SBool({"phi_c", "psi_m", "m", "n"} <= called and called <= set(want_args)),
                           kind="post", meta={"structural": True})
                p = spec_params(num(zm), z0, ws, ust, L, helpers=H)
                j, i = sym.fresh_int("j"), sym.fresh_int("i")
                rng = [(j >= 0) & (j < ffm.axes[0].size) & (i >= 0) & (i < ffm.axes[1].size)]
                # grid: cell centres from xmin + res/2 eastward, from ymax - res/2 southward
                run.oblige("grid.x-centres", loops.scalar_eq(gx.at(j, i), xmin + res / 2 + i * res), kind="post", view="value", assuming=rng)
                run.oblige("grid.y-centres", loops.scalar_eq(gy.at(j, i), ymax - res / 2 - j * res), kind="post", view="value", assuming=rng)
                X, Y = gx.at(j, i) - mx, gy.at(j, i) - my
                if wd is None:
                    xa, ya = X, Y
                else:
                    wr = wd * transc.PI() / 180
                    xa = X * transc.sin(wr) + Y * transc.cos(wr)       # along-wind (upwind positive)
                    ya = -X * transc.cos(wr) + Y * transc.sin(wr)      # cross-wind
                if warned:
                    # U < 0: physically impossible -> empty footprint with a warning
                    run.oblige("negative-U-returns-empty-footprint", loops.scalar_eq(ffm.at(j, i), 0), kind="post", view="value", assuming=rng)
                    run.oblige("warning-only-for-negative-U", num(p["U"]) < 0, kind="xpost", view="value")
                    return
                # rotated closed form: ~3 minutes of exact polynomial arithmetic -> thorough tier only;
                # the quick tier proves the unrotated closed form and the rotated upwind/downwind split
                if wd is None or ctx.tier == "thorough":
                    run.oblige("closed-form: cell = f(x) D(x,y) res^2 upwind", loops.scalar_eq(ffm.at(j, i), spec_cell(p, xa, ya, sv, res)), kind="post",
                               view="value", assuming=rng + [xa > 0])
                run.oblige("downwind-cells-are-zero", loops.scalar_eq(ffm.at(j, i), 0), kind="post", view="value", assuming=rng + [xa <= 0])
                if wd is None:
                    # "it is non-negative": under the helper postconditions (phi_c > 0, m > 0, 0 < n < 3/2: km.helpers) and U > 0 (the
                    # path without the warning has U >= 0) every upwind cell of the CODE's expression is strictly positive; exp, pow,
                    # sqrt, gamma uninterpreted with the ground positivity instances of the applications that occur (A8)
                    cell = num(ffm.at(j, i))
                    hp = [H["phi_c"] > 0, H["phi_m"] > 0, H["m"] > 0, H["n"] > 0, H["n"] < Fraction(3, 2), num(p["U"]) > 0]
                    hy = transc.order_instances([cell]) + transc.pi_facts()
                    run.oblige("non-negative: upwind cells are positive", cell > 0, kind="post", cls="premise", hyps=hy, assuming=rng + [xa > 0] + hp)
                run.cover("path")
            ctx.explore("km.estimateFootprint[%s|%s]" % (ztype, wdcfg), thunk, P)

    # symmetry about the wind axis and rotation by multiples of 90 degrees (lemmas over the closed form)
    def t_sym(run):
        run.scope = "lemma.km"
        zm, z0, ws, ust, L, sv, res, x, y = [sym.fresh_real(n) for n in ("zm", "z0", "ws", "ustar", "mo_len", "sigma_v", "res", "x", "y")]
        p = spec_params(zm, z0, ws, ust, L)
        run.oblige("symmetric-about-the-wind-axis", loops.scalar_eq(spec_cell(p, x, y, sv, res), spec_cell(p, x, -y, sv, res)), kind="lemma",
                   cls="lemma", view="value", assuming=[x > 0])
        X, Y = sym.fresh_real("X"), sym.fresh_real("Y")
        for deg, (s_, c_) in ((0, (0, 1)), (90, (1, 0)), (180, (0, -1)), (270, (-1, 0))):
            xa, ya = X * s_ + Y * c_, -X * c_ + Y * s_
            want = {0: (Y, -X), 90: (X, Y), 180: (-Y, X), 270: (-X, -Y)}[deg]
            run.oblige("rotation-%d-is-a-signed-permutation-of-the-grid-axes" % deg, loops.scalar_eq(xa, want[0]) & loops.scalar_eq(ya, want[1]),
                       kind="lemma", cls="lemma")
    ctx.explore("lemma.km", t_sym, P)

    # helpers: published expressions per stability branch; integer heights must not truncate
    def t_helpers(run):
        run.scope = "ffm_kormann_meixner.helpers"
        # "given as integers or floats alike": every numeric input of the helpers, not only the height
        for ztype, ltype, wtype in (("float", "float", "float"), ("int", "float", "float"), ("float", "int", "float"),
                                    ("int", "int", "int"), ("float", "float", "int")):
            tag = "zm:%s,L:%s,ws/u*:%s" % (ztype, ltype, wtype)
            n = sym.fresh_int("n_obs")
            run.assume(n >= 1)
            zm = arrays.fresh_array("zm_" + ztype, [n], ztype)
            L = arrays.fresh_array("mo_len_" + ltype + ztype, [n], ltype)
            ws, ust = [arrays.fresh_array(nm + wtype + ztype + ltype, [n], wtype) for nm in ("ws", "ustar")]
            k = sym.fresh_int("k")
            rng = [(k >= 0) & (k < n), num(zm.at(k)) > 0, num(L.at(k)) != 0, num(ws.at(k)) > 0]
            p = spec_params(num(zm.at(k)), Num(1), ws.at(k), ust.at(k), L.at(k))
            for name, fn, args, key in (("_phiM", ns["_phiM"], (zm, L), "phi_m"), ("_phiC", ns["_phiC"], (zm, L), "phi_c"),
                                        ("_psiM", ns["_psiM"], (zm, L), "psi_m"), ("_nParam", ns["_nParam"], (zm, L), "n"),
                                        ("_mParam", ns["_mParam"], (zm, ws, ust, L), "m")):
                r = fn(*args)
                run.oblige("%s[%s] == published expression" % (name, tag), loops.scalar_eq(r.at(k), p[key]), kind="post", view="value",
                           assuming=rng + [num(ust.at(k)) > 0])
                # sign / range of the helper results (used as callee postconditions by the non-negativity clause)
                v = num(r.at(k))
                hy = transc.order_instances([v])
                if key in ("phi_m", "phi_c"):
                    run.oblige("%s[%s] > 0" % (name, tag), v > 0, kind="post", cls="premise", hyps=hy, assuming=rng)
                elif key == "m":
                    run.oblige("%s[%s] > 0" % (name, tag), v > 0, kind="post", cls="premise", hyps=hy, assuming=rng + [num(ust.at(k)) > 0])
                elif key == "n":
                    run.oblige("%s[%s] in (0, 3/2)" % (name, tag), (v > 0) & (v < Fraction(3, 2)), kind="post", cls="premise", hyps=hy, assuming=rng)
    ctx.explore("km.helpers", t_helpers, P)

    # estimateZ0 without smoothing inverts the diabatic log law
    def t_z0(run):
        run.scope = "ffm_kormann_meixner.estimateZ0[no smoothing]"
        n = sym.fresh_int("n_obs")
        run.assume(n >= 1)
        zm, ws, wd, ust, L = [arrays.fresh_array(nm, [n], "float") for nm in ("zm", "ws", "wd", "ustar", "mo_len")]
        ns["len"] = values.slen
        out = harness.call(run, ns["estimateZ0"], zm, ws, wd, ust, L, half_wd_win=0)
        z0 = out.value
        k = sym.fresh_int("k")
        rng = [(k >= 0) & (k < n), num(zm.at(k)) > 0, num(L.at(k)) != 0, num(ws.at(k)) > 0, num(ust.at(k)) > 0]
        p = spec_params(zm.at(k), Num(1), ws.at(k), ust.at(k), L.at(k))
        z0k = z0.at(k)
        back = ust.at(k) / K * (transc.log(zm.at(k) / z0k) + p["psi_m"])
        keep = [sym.Not(num(zm.at(k) * transc.exp(p["psi_m"] - K * ws.at(k) / ust.at(k))) > 1000)]
        run.oblige("inverts-the-diabatic-log-law: u*/k (ln(zm/z0) + psi_m) = ws", loops.scalar_eq(back, ws.at(k)), kind="post", view="value",
                   assuming=rng + keep)
    ctx.explore("km.estimateZ0", t_z0, P)

    # estimateZ0 WITH directional smoothing: every 1-degree bin takes the median of the raw estimates whose wind direction
    # lies in the CIRCULAR window [kk - h, kk + 1 + h) (mod 360); hence a common rotation of all wind directions by whole
    # degrees only renames the bins.  np.nanmedian is opaque (a function of the selected values); the k-th call of the
    # loop belongs to bin k (structural premise); wind directions in [0, 360), 1 <= h <= 89: the fixed 90/270 sectors of the
    # wrap-around make the window circular exactly for these half widths (for 89 < h <= 90 the obligations of bins 0 and 270 are
    # refuted by SMT models -- wd = 270 resp. wd in [0, 1) is not wrapped -- and for wider windows more bins; the default is 22
    # and the window is not among the property's quantified inputs: interpretation note F18, DESIGN 8.4).
    def window(kk, w, h):
        return sym.Or(*[((kk - h) <= (w + m)) & ((w + m) < (kk + 1 + h)) for m in (-360, 0, 360)])

    def t_z0_smooth(run, default_window=False):
        run.scope = "ffm_kormann_meixner.estimateZ0[smoothing%s]" % (", default window" if default_window else "")
        n = sym.fresh_int("n_obs")
        run.assume(n >= 1)
        zm, ws, wd, ust, L = [arrays.fresh_array(nm, [n], "float") for nm in ("zm", "ws", "wd", "ustar", "mo_len")]
        if default_window:
            # the value every caller gets that does not pass the parameter: no decision of the code can depend on a symbolic
            # window here, so a version that branches on the window per bin is still decided for the default
            h = Num(22)
        else:
            h = sym.fresh_real("half_wd_win")
            run.assume((h >= 1) & (h <= 89))
        ns["len"] = values.slen
        raw = harness.call(run, ns["estimateZ0"], zm, ws, wd, ust, L, half_wd_win=0).value
        calls = []
        Mf = z3.Function("bin_median", z3.IntSort(), z3.RealSort())

        def nanmedian(a):
            calls.append(a)
            return Num(Mf(z3.IntVal(len(calls) - 1)), True)
        saved = getattr(ns["np"], "nanmedian", None)
        ns["np"].nanmedian = nanmedian
        try:
            out = harness.call(run, ns["estimateZ0"], zm, ws, wd, ust, L, half_wd_win=h).value
        finally:
            if saved is not None:
                ns["np"].nanmedian = saved
        j = sym.fresh_int("j")
        wj = num(wd.at(j))
        rng = [(j >= 0) & (j < n), wj >= 0, wj < 360]
        run.oblige("one-median-per-1-degree-bin", SBool(len(calls) == 360), kind="post", meta={"structural": True})
        for kk, a in enumerate(calls[:360]):
            ok = isinstance(a, Arr) and a.ndim == 1 and a.axes[0].masked
            if not ok:
                run.oblige("bin-%d.median-of-a-selection" % kk, SBool(False), kind="post", meta={"structural": True})
                continue
            m = a.axes[0].mask
            run.oblige("smoothing.bin-%03d.selects-the-circular-window" % kk, sym.sbool(m.at(j)) == window(Num(kk), wj, h), kind="post", assuming=rng)
            if kk in (0, 45, 89, 90, 180, 270, 271, 338, 359):
                run.oblige("smoothing.bin-%03d.median-of-the-raw-estimates" % kk, loops.scalar_eq(a.at(j), raw.at(j)), kind="post", view="value",
                           assuming=rng + [sym.sbool(m.at(j))])
        kb = sym.fresh_int("bin")
        run.oblige("smoothing.observation-gets-the-median-of-its-own-bin", loops.scalar_eq(out.at(j), Num(Mf(kb.z()), True)), kind="post",
                   assuming=rng + [(kb >= 0) & (kb < 360), num(kb) <= wj, wj < num(kb) + 1])
        run.cover("path")
    ctx.explore("km.estimateZ0.smoothing", t_z0_smooth, P)
    ctx.explore("km.estimateZ0.smoothing[default window]", lambda run: t_z0_smooth(run, default_window=True), P)

    # rotation lemma over that contract: rotating every wind direction by r whole degrees maps the window of bin kk onto the
    # window of bin kk + r (mod 360) and every observation into the bin shifted by r
    kk, r, a_, b_ = z3.Ints("rot_kk rot_r rot_a rot_b")
    w, hh = z3.Reals("rot_w rot_h")
    kk2, w2 = kk + r - 360 * a_, w + z3.ToReal(r) - 360 * z3.ToReal(b_)

    def W(k_, w_):
        return z3.Or(*[z3.And(z3.ToReal(k_) - hh <= w_ + m, w_ + m < z3.ToReal(k_) + 1 + hh) for m in (-360, 0, 360)])
    prem = z3.And(kk >= 0, kk < 360, r >= 0, r < 360, w >= 0, w < 360, hh >= 1, hh <= 89, a_ >= 0, a_ <= 1, b_ >= 0, b_ <= 1,
                  kk2 >= 0, kk2 < 360, w2 >= 0, w2 < 360)
    ctx.lemma("km.estimateZ0.smoothing.rotation-maps-windows-onto-windows", SBool(z3.Implies(prem, W(kk, w) == W(kk2, w2))), props=P)
    kb_ = z3.Int("rot_bin")
    ctx.lemma("km.estimateZ0.smoothing.rotation-shifts-the-bin", SBool(z3.Implies(z3.And(prem, z3.ToReal(kb_) <= w, w < z3.ToReal(kb_) + 1),
                                                                                 z3.And(z3.ToReal(kb_ + r - 360 * b_) <= w2, w2 < z3.ToReal(kb_ + r - 360 * b_) + 1))), props=P)
