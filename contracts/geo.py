"""C17: latlon_to_xy (config_parser) and xy_to_latlon (plotting._geo) are mutual inverses,
origin -> (0,0), x eastward, y northward.  Real arithmetic; radians/degrees are the linear maps
*pi/180, *180/pi with pi a positive symbol; cos uninterpreted with the axiom instance
cos(phi0*pi/180) > 0 for |phi0| < 90 (A8); math.cos and np.cos denote the same function.
The great-circle accuracy clause (0.1 % / 0.1 deg for offsets up to 5 km, |ref lat| <= 60) is a lemma chain over the
forward-map contract (generate_accuracy): polynomial inequalities over fresh reals standing for the sines and cosines
that occur, constrained only by named Taylor enclosures (A8)."""
import z3

from pyvc import sym, arrays, harness, loops, npshim, transc
from pyvc.sym import Num, SBool, num
from pyvc.arrays import Arr, Axis
from contracts.parser import MathShim

P = {"C17"}
PT = {"C17", "C08", "C13"}      # tower coordinates: also a link of C08's convention chain and of C13's pipeline


def generate_accuracy(ctx):
    """Great-circle accuracy of the forward map (C17, second sentence) as lemmas over the contract
        x = R b c,  y = R a      (a = lat_r - ref_lat_r, b = lon_r - ref_lon_r, c = cos(ref_lat_r); obligations forward.x/.y)
    against the textbook oracle on the sphere of the SAME radius R:
        d  = 2 R asin(sqrt(hav)),  hav = sin^2(a/2) + cos(phi0) cos(phi0 + a) sin^2(b/2)
        th = atan2(E, N),  E = sin(b) cos(phi0 + a),  N = cos(phi0) sin(phi0 + a) - sin(phi0) cos(phi0 + a) cos(b)
    Quantifier: local offset sqrt(x^2 + y^2) <= 5 km (rho = 5000/R), |phi0| <= 60 deg (c >= 1/2, |T| = |tan phi0| <= sqrt 3).
    Every transcendental value is a fresh real constrained by a NAMED enclosure (all true of the real functions, A8):
        t^2 (1 - t^2/12) <= 4 sin^2(t/2) <= t^2;   1 - t^2/2 <= cos t <= 1;   sin^2 t <= t^2, (sin t - t)^2 <= (t^3/6)^2,
        t sin t >= 0;   cos(p + a) = cos p cos a - sin p sin a, sin(p + a) = sin p cos a + cos p sin a;   cos^2 + sin^2 = 1;
        s <= asin s <= s (1 + s^2) for 0 <= s <= 1/10;   sqrt(h)^2 = h, sqrt >= 0;
        the angle between (x, y) and (E, N) is asin(|cross| / (|v||w|)) when v.w > 0, and sin(0.1 deg) > 0.001745.
    The chain is split so that every step is a small polynomial inequality (z3 nlsat: milliseconds to a second each)."""
    if not ctx.wants(P):
        return
    Q = z3.Q
    a, b, c, T = z3.Reals("acc_a acc_b acc_c acc_T")
    rho2 = Q(5000, 6371000) * Q(5000, 6371000)
    x, y = c * b, a                      # local offset in units of R
    q2 = x * x + y * y
    box = [q2 <= rho2, c >= Q(1, 2), c <= 1, c * c * (1 + T * T) == 1]      # sin(phi0) = T c,  cos^2 + sin^2 = 1

    def lemma(name, hyps, goal):
        ctx.lemma("accuracy." + name, SBool(z3.Implies(z3.And(*(box + list(hyps))), goal)), props=P)
    # ---------------------------------------------------------------- distance
    Sa, Sb, ca, sa = z3.Reals("acc_Sa acc_Sb acc_ca acc_sa")      # 4 sin^2(a/2), 4 sin^2(b/2), cos a, sin a
    encd = [Sa <= a * a, Sa >= a * a * (1 - a * a / 12), Sb <= b * b, Sb >= b * b * (1 - b * b / 12), ca <= 1, ca >= 1 - a * a / 2,
            sa * sa <= a * a, (sa - a) * (sa - a) <= (a * a * a / 6) * (a * a * a / 6), sa * a >= 0]
    H4 = Sa + c * (c * (ca - T * sa)) * Sb                            # 4 hav;  cos(phi0 + a) = c (cos a - T sin a)
    eps = Q(14, 10000)
    lemma("distance.haversine-within-0.14-percent-of-the-squared-local-offset", encd, z3.And(H4 <= (1 + eps) * q2, H4 >= (1 - eps) * q2))
    s_, q, A = z3.Reals("acc_s acc_q acc_asin")                      # sqrt(hav), sqrt(q2), asin(sqrt(hav))
    ctx.lemma("accuracy.distance.great-circle-within-0.1-percent-of-local",
              SBool(z3.Implies(z3.And(s_ >= 0, q >= 0, q * q <= rho2, 4 * s_ * s_ <= (1 + eps) * q * q, 4 * s_ * s_ >= (1 - eps) * q * q,
                                      A >= s_, A <= s_ * (1 + s_ * s_)),
                               z3.And(2 * A - q <= Q(1, 1000) * q, 2 * A - q >= -Q(1, 1000) * q))), props=P)
    # ---------------------------------------------------------------- bearing
    sb, cb = z3.Reals("acc_sb acc_cb")
    enc = [sa * sa <= a * a, (sa - a) * (sa - a) <= (a * a * a / 6) * (a * a * a / 6), sa * a >= 0, ca <= 1, ca >= 1 - a * a / 2,
           sb * sb <= b * b, (sb - b) * (sb - b) <= (b * b * b / 6) * (b * b * b / 6), sb * b >= 0, cb <= 1, cb >= 1 - b * b / 2]
    s0 = T * c
    E = sb * (c * ca - s0 * sa)
    N = sa * (c * c + s0 * s0 * cb) + c * s0 * ca * (1 - cb)         # = c sin(phi0 + a) - s0 cos(phi0 + a) cos b
    u, v, w1, w2, w3 = sb * ca - b, s0 * sa * sb, sa - a, sa * s0 * s0 * (1 - cb), c * s0 * ca * (1 - cb)
    # E = x + (c u - v),  N = y + (w1 - w2 + w3): polynomial identities modulo cos^2 + sin^2 = 1
    lemma("bearing.decomposition-of-the-great-circle-direction", [], z3.And(E == x + (c * u - v), N == y + (w1 - w2 + w3)))
    lemma("bearing.same-half-plane (dot > 0)", enc + [q2 > 0], x * E + y * N > 0)
    lemma("bearing.u", enc, u * u <= b * b * (a * a / 2 + b * b / 6) * (a * a / 2 + b * b / 6))
    lemma("bearing.v", enc, v * v <= s0 * s0 * a * a * b * b)
    lemma("bearing.w1", enc, w1 * w1 <= (a * a * a / 6) * (a * a * a / 6))
    lemma("bearing.w2", enc, w2 * w2 <= a * a * s0 * s0 * s0 * s0 * (b * b / 2) * (b * b / 2))
    lemma("bearing.w3", enc, w3 * w3 <= c * c * s0 * s0 * (b * b / 2) * (b * b / 2))
    U, V, W1, W2, W3 = z3.Reals("acc_U acc_V acc_W1 acc_W2 acc_W3")
    k1, k2, K = Q(1, 1000), Q(8661, 10000), Q(87, 100)
    lemma("bearing.dE.a", [U * U <= b * b * (a * a / 2 + b * b / 6) * (a * a / 2 + b * b / 6)], z3.And(c * U <= k1 * q2, c * U >= -k1 * q2))
    lemma("bearing.dE.b", [V * V <= s0 * s0 * a * a * b * b], z3.And(V <= k2 * q2, V >= -k2 * q2))
    lemma("bearing.dN", [W1 * W1 <= (a * a * a / 6) * (a * a * a / 6), W2 * W2 <= a * a * s0 * s0 * s0 * s0 * (b * b / 2) * (b * b / 2),
                         W3 * W3 <= c * c * s0 * s0 * (b * b / 2) * (b * b / 2)],
          z3.And(W1 - W2 + W3 <= K * q2, W1 - W2 + W3 >= -K * q2))
    X, Y, DE, DN, Q2, W2_ = z3.Reals("acc_X acc_Y acc_DE acc_DN acc_Q2 acc_Wsq")
    sd = Q(1745, 1000000)                                            # < sin(0.1 deg) = 0.00174533
    cross = X * (Y + DN) - Y * (X + DE)
    ctx.lemma("accuracy.bearing.cross-product-below-sin(0.1deg)-times-the-lengths",
              SBool(z3.Implies(z3.And(Q2 == X * X + Y * Y, Q2 <= rho2, DE <= K * Q2, DE >= -K * Q2, DN <= K * Q2, DN >= -K * Q2,
                                      W2_ == (X + DE) * (X + DE) + (Y + DN) * (Y + DN)),
                               cross * cross <= sd * sd * Q2 * W2_)), props=P)
    # non-vacuity: the premises are satisfiable at a pinned point (1 km north-east of a reference at 45 deg)
    ctx.lemma("accuracy.premises-satisfiable", SBool(z3.And(*(box + enc + encd + [a == Q(1, 9000), b == Q(1, 6000), q2 > 0]))), props=P, expect="sat", kind="cover")


def generate(ctx):
    if not ctx.wants(PT):
        return
    generate_accuracy(ctx)
    ns = harness.namespace("bldfm.config_parser")
    ns["math"] = MathShim
    fwd = harness.define(ctx, ns, "bldfm.config_parser", "latlon_to_xy")
    harness.define(ctx, ns, "bldfm.config_parser", "TowerConfig")
    ns2 = harness.namespace("bldfm.plotting._geo")
    ns2["np"] = npshim.NP()
    inv = harness.define(ctx, ns2, "bldfm.plotting._geo", "xy_to_latlon")
    pi = transc.PI()

    def refs(run):
        p0, l0 = sym.fresh_real("ref_lat"), sym.fresh_real("ref_lon")
        run.assume((p0 > -90) & (p0 < 90))
        c = transc.cos(p0 * pi / 180)
        facts = [c > 0, pi > 3, num(ns["_EARTH_RADIUS"]) > 0]      # A8 instances
        return p0, l0, c, facts

    def thunk(run):
        run.scope = "config_parser.latlon_to_xy / plotting._geo.xy_to_latlon"
        run.props = set(P)
        p0, l0, c, facts = refs(run)
        lat, lon = sym.fresh_real("lat"), sym.fresh_real("lon")
        x, y = fwd(lat, lon, p0, l0)
        R = num(ns["_EARTH_RADIUS"])
        # forward map: equirectangular about the reference latitude
        run.oblige("forward.x", loops.scalar_eq(x, R * (lon * pi / 180 - l0 * pi / 180) * c), kind="post", view="value")
        run.oblige("forward.y", loops.scalar_eq(y, R * (lat * pi / 180 - p0 * pi / 180)), kind="post", view="value")
        ox, oy = fwd(p0, l0, p0, l0)
        run.oblige("origin-maps-to-zero", loops.scalar_eq(ox, 0) & loops.scalar_eq(oy, 0), kind="post", view="value")
        # orientation
        lon2, lat2 = sym.fresh_real("lon2"), sym.fresh_real("lat2")
        x2, _ = fwd(lat, lon2, p0, l0)
        _, y2 = fwd(lat2, lon, p0, l0)
        run.oblige("x-grows-eastward", (lon < lon2).implies(num(x) < num(x2)), kind="post", assuming=facts)
        run.oblige("y-grows-northward", (lat < lat2).implies(num(y) < num(y2)), kind="post", assuming=facts)
        _, y3 = fwd(lat, lon2, p0, l0)
        run.oblige("y-independent-of-longitude", loops.scalar_eq(y, y3), kind="post", view="value")
        # round trips (cos(ref) != 0 is what makes the inverse well defined)
        la, lo = inv(x, y, p0, l0)
        run.oblige("roundtrip.latlon->xy->latlon.lat", loops.scalar_eq(la, lat), kind="rel", view="value")
        run.oblige("roundtrip.latlon->xy->latlon.lon", loops.scalar_eq(lo, lon), kind="rel", view="value")
        xx, yy = sym.fresh_real("x"), sym.fresh_real("y")
        la2, lo2 = inv(xx, yy, p0, l0)
        x4, y4 = fwd(la2, lo2, p0, l0)
        run.oblige("roundtrip.xy->latlon->xy.x", loops.scalar_eq(x4, xx), kind="rel", view="value")
        run.oblige("roundtrip.xy->latlon->xy.y", loops.scalar_eq(y4, yy), kind="rel", view="value")
        run.oblige("inverse-uses-the-same-earth-radius-and-reference-cosine", SBool(True), kind="rel")
        # arrays: the scalar contract holds elementwise
        n = sym.fresh_int("n")
        run.assume(n >= 1)
        xa, ya = arrays.fresh_array("xs", [n], "float"), arrays.fresh_array("ys", [n], "float")
        lats, lons = inv(xa, ya, p0, l0)
        loops.oblige_equal(run, "elementwise.lat", lats, Arr([Axis(n)], lambda k: p0 + (ya.at(k) / R) * 180 / pi, "float"), kind="post")
        loops.oblige_equal(run, "elementwise.lon", lons, Arr([Axis(n)], lambda k: l0 + (xa.at(k) / (R * c)) * 180 / pi, "float"), kind="post")
        # tower coordinates are filled from the forward map
        tw = ns["TowerConfig"](name="T", lat=lat, lon=lon, z_m=Num(2))
        tw.compute_local_xy(p0, l0)
        run.oblige("tower.compute_local_xy", loops.scalar_eq(tw.x, x) & loops.scalar_eq(tw.y, y), kind="post", view="value", props=PT)
        # ... whatever the tower's coordinates were before (a tower object that already went through a configuration and
        # is handed to another one -- dataclasses.replace(config, ...) re-runs __post_init__ on the SAME towers): the result
        # is a function of lat/lon and the reference only, and repeating the call changes nothing
        x0, y0 = sym.fresh_real("x_before"), sym.fresh_real("y_before")
        tw2 = ns["TowerConfig"](name="T", lat=lat, lon=lon, z_m=Num(2), x=x0, y=y0)
        tw2.compute_local_xy(p0, l0)
        run.oblige("tower.compute_local_xy.independent-of-previous-coordinates", loops.scalar_eq(tw2.x, x) & loops.scalar_eq(tw2.y, y), kind="post", view="value", props=PT)
        tw2.compute_local_xy(p0, l0)
        run.oblige("tower.compute_local_xy.idempotent", loops.scalar_eq(tw2.x, x) & loops.scalar_eq(tw2.y, y), kind="post", view="value", props=PT)
    ctx.explore("geo", thunk, PT)
