"""C17: latlon_to_xy (config_parser) and xy_to_latlon (plotting._geo) are mutual inverses,
origin -> (0,0), x eastward, y northward.  Real arithmetic; radians/degrees are the linear maps
*pi/180, *180/pi with pi a positive symbol; cos uninterpreted with the axiom instance
cos(phi0*pi/180) > 0 for |phi0| < 90 (A8); math.cos and np.cos denote the same function.
The great-circle accuracy clause (0.1 % / 0.1 deg) is a transcendental inequality over a box:
not decided by contracts, bounded stand-in only."""
import z3

from pyvc import sym, arrays, harness, loops, npshim, transc
from pyvc.sym import Num, SBool, num
from pyvc.arrays import Arr, Axis
from contracts.parser import MathShim

P = {"C17"}


def generate(ctx):
    if not ctx.wants(P):
        return
    ns = harness.namespace("bldfm.config_parser")
    ns["math"] = MathShim
    fwd = harness.define(ctx, ns, "bldfm.config_parser", "latlon_to_xy")
    harness.define(ctx, ns, "bldfm.config_parser", "TowerConfig")
    ns2 = harness.namespace("bldfm.plotting._geo")
    ns2["np"] = npshim.NP()
    inv = harness.define(ctx, ns2, "bldfm.plotting._geo", "xy_to_latlon")
    pi = transc.PI()

    def refs(run):
        p0, l0 = sym.fresh_real("ref_lat"), sym.fresh_real("ref_lon")
        run.assume((p0 > -90) & (p0 < 90))
        c = transc.cos(p0 * pi / 180)
        facts = [c > 0, pi > 3, num(ns["_EARTH_RADIUS"]) > 0]      # A8 instances
        return p0, l0, c, facts

    def thunk(run):
        run.scope = "config_parser.latlon_to_xy / plotting._geo.xy_to_latlon"
        p0, l0, c, facts = refs(run)
        lat, lon = sym.fresh_real("lat"), sym.fresh_real("lon")
        x, y = fwd(lat, lon, p0, l0)
        R = num(ns["_EARTH_RADIUS"])
        # forward map: equirectangular about the reference latitude
        run.oblige("forward.x", loops.scalar_eq(x, R * (lon * pi / 180 - l0 * pi / 180) * c), kind="post", view="value")
        run.oblige("forward.y", loops.scalar_eq(y, R * (lat * pi / 180 - p0 * pi / 180)), kind="post", view="value")
        ox, oy = fwd(p0, l0, p0, l0)
        run.oblige("origin-maps-to-zero", loops.scalar_eq(ox, 0) & loops.scalar_eq(oy, 0), kind="post", view="value")
        # orientation
        lon2, lat2 = sym.fresh_real("lon2"), sym.fresh_real("lat2")
        x2, _ = fwd(lat, lon2, p0, l0)
        _, y2 = fwd(lat2, lon, p0, l0)
        run.oblige("x-grows-eastward", (lon < lon2).implies(num(x) < num(x2)), kind="post", assuming=facts)
        run.oblige("y-grows-northward", (lat < lat2).implies(num(y) < num(y2)), kind="post", assuming=facts)
        _, y3 = fwd(lat, lon2, p0, l0)
        run.oblige("y-independent-of-longitude", loops.scalar_eq(y, y3), kind="post", view="value")
        # round trips (cos(ref) != 0 is what makes the inverse well defined)
        la, lo = inv(x, y, p0, l0)
        run.oblige("roundtrip.latlon->xy->latlon.lat", loops.scalar_eq(la, lat), kind="rel", view="value")
        run.oblige("roundtrip.latlon->xy->latlon.lon", loops.scalar_eq(lo, lon), kind="rel", view="value")
        xx, yy = sym.fresh_real("x"), sym.fresh_real("y")
        la2, lo2 = inv(xx, yy, p0, l0)
        x4, y4 = fwd(la2, lo2, p0, l0)
        run.oblige("roundtrip.xy->latlon->xy.x", loops.scalar_eq(x4, xx), kind="rel", view="value")
        run.oblige("roundtrip.xy->latlon->xy.y", loops.scalar_eq(y4, yy), kind="rel", view="value")
        run.oblige("inverse-uses-the-same-earth-radius-and-reference-cosine", SBool(True), kind="rel")
        # arrays: the scalar contract holds elementwise
        n = sym.fresh_int("n")
        run.assume(n >= 1)
        xa, ya = arrays.fresh_array("xs", [n], "float"), arrays.fresh_array("ys", [n], "float")
        lats, lons = inv(xa, ya, p0, l0)
        loops.oblige_equal(run, "elementwise.lat", lats, Arr([Axis(n)], lambda k: p0 + (ya.at(k) / R) * 180 / pi, "float"), kind="post")
        loops.oblige_equal(run, "elementwise.lon", lons, Arr([Axis(n)], lambda k: l0 + (xa.at(k) / (R * c)) * 180 / pi, "float"), kind="post")
        # tower coordinates are filled from the forward map
        tw = ns["TowerConfig"](name="T", lat=lat, lon=lon, z_m=Num(2))
        tw.compute_local_xy(p0, l0)
        run.oblige("tower.compute_local_xy", loops.scalar_eq(tw.x, x) & loops.scalar_eq(tw.y, y), kind="post", view="value")
        # ... whatever the tower's coordinates were before (a tower object that already went through a configuration and
        # is handed to another one -- dataclasses.replace(config, ...) re-runs __post_init__ on the SAME towers): the result
        # is a function of lat/lon and the reference only, and repeating the call changes nothing
        x0, y0 = sym.fresh_real("x_before"), sym.fresh_real("y_before")
        tw2 = ns["TowerConfig"](name="T", lat=lat, lon=lon, z_m=Num(2), x=x0, y=y0)
        tw2.compute_local_xy(p0, l0)
        run.oblige("tower.compute_local_xy.independent-of-previous-coordinates", loops.scalar_eq(tw2.x, x) & loops.scalar_eq(tw2.y, y), kind="post", view="value")
        tw2.compute_local_xy(p0, l0)
        run.oblige("tower.compute_local_xy.idempotent", loops.scalar_eq(tw2.x, x) & loops.scalar_eq(tw2.y, y), kind="post", view="value")
    ctx.explore("geo", thunk, P)
