"""C09: pbl_model.psi / phi / vertical_profiles and agreement with the reference model's
copies (ffm_kormann_meixner._psiM/_phiM/_phiC).  Real arithmetic with exp/log/pow/arctan as
uninterpreted symbols constrained by named axiom instances (A8): log/exp inverse pair, pow with
integer exponents and pow(a^k, p/q) = a^(k p/q) for positive a, arctan(1) = pi/4,
np.power(b, e, dtype=complex).real = pow(b, e) for b > 0, derivative rules (pyvc.diffcalc)."""
from fractions import Fraction

import z3

from pyvc import sym, arrays, harness, loops, npshim, transc, diffcalc
from pyvc.sym import Num, Cx, SBool, num, ite
from pyvc.arrays import Arr, Axis

P = {"C09"}
R = z3.RealSort()


def pbl_namespace(ctx):
    ns = harness.namespace("bldfm.pbl_model")
    ns["np"] = NPX()
    harness.define(ctx, ns, "bldfm.pbl_model", "psi")
    harness.define(ctx, ns, "bldfm.pbl_model", "phi")
    return ns


class NPX(npshim.NP):
    pass


def generate_psi_phi(ctx):
    if not ctx.wants(P):
        return
    ns = pbl_namespace(ctx)
    psi, phi = ns["psi"], ns["phi"]
    pw = lambda b, e: Num(z3.Function("pow", R, R, R)(num(b).zr(), num(e).zr()), True)  # noqa: E731

    def thunk(run):
        run.scope = "pbl_model.psi/phi"
        x = sym.fresh_real("x")
        ph = phi(x)
        # flux-gradient function of the similarity formula: (1-16x)^(-1/2) unstable, 1+5x stable
        run.oblige("phi.stable", loops.scalar_eq(ph, 1 + 5 * x), kind="post", view="value", assuming=[x > 0])
        run.oblige("phi.unstable", loops.scalar_eq(ph, pw(1 - 16 * x, Fraction(-1, 2))), kind="post", view="value", assuming=[x <= 0])
        ps = psi(x)
        run.oblige("psi.stable", loops.scalar_eq(ps, 5 * x), kind="post", view="value", assuming=[x > 0])
        # zero and continuity through neutral stratification: both one-sided expressions at x = 0
        x0 = Num(0, True)
        run.oblige("psi.zero-at-neutral (unstable branch value at 0)", loops.scalar_eq(psi(x0), 0), kind="lemma", cls="lemma", view="value")
        run.oblige("psi.continuous-at-neutral (stable limit 5*0)", loops.scalar_eq(5 * x0, psi(x0)), kind="lemma", cls="lemma", view="value")
        run.oblige("phi.continuous-at-neutral", loops.scalar_eq(phi(x0), 1 + 5 * x0), kind="lemma", cls="lemma", view="value")
        # psi is the integral of the flux-gradient function: psi'(x) = (phi_m(x) - 1)/x, psi(0) = 0
        #   stable: phi_m = 1 + 5x
        dps = Num(diffcalc.d((5 * x).zr(), x.t), True)
        run.oblige("psi.derivative.stable: psi' = (phi_m - 1)/x", loops.scalar_eq(dps, ((1 + 5 * x) - 1) / x), kind="lemma", cls="lemma",
                   view="value", assuming=[x > 0])
        #   unstable: phi_m = (1-16x)^(-1/4); with xi = (1-16x)^(1/4) > 0, x = (1 - xi^4)/16
        xu = sym.fresh_real("xu")
        run.assume(xu < 0)
        pu = psi(xu)
        # select the unstable branch of the code's np.where and differentiate it
        du = diffcalc.d(pu.zr(), xu.t)
        xi = z3.Real("xi")
        xofxi = (1 - xi * xi * xi * xi) / 16
        du_xi = z3.substitute(du, (xu.t, xofxi))
        want = (pw(Num(xi, True) ** 4, Fraction(-1, 4)) - 1) / Num(xofxi, True)
        run.oblige("psi.derivative.unstable: psi' = ((1-16x)^(-1/4) - 1)/x", loops.scalar_eq(Num(du_xi, True), want), kind="lemma",
                   cls="lemma", view="value", assuming=[SBool(xi > 0), SBool(xi >= 1)])
    ctx.explore("pbl_model.psi/phi", thunk, P)

    # agreement with the reference model's copies
    def t_km(run):
        run.scope = "ffm_kormann_meixner._psiM/_phiM/_phiC vs pbl_model"
        nsk = harness.namespace("bldfm.ffm_kormann_meixner")
        nsk["np"] = NPX()
        fk = {n: harness.define(ctx, nsk, "bldfm.ffm_kormann_meixner", n) for n in ("_psiM", "_phiM", "_phiC")}
        n = sym.fresh_int("n_obs")
        run.assume(n >= 1)
        zm, L = arrays.fresh_array("zm", [n], "float"), arrays.fresh_array("mo_len", [n], "float")
        k = sym.fresh_int("k")
        rng = [(k >= 0) & (k < n), num(zm.at(k)) > 0, num(L.at(k)) != 0]
        x = zm.at(k) / L.at(k)
        run.oblige("_psiM == psi(zm/L)", loops.scalar_eq(fk["_psiM"](zm, L).at(k), psi(x)), kind="rel", view="value", assuming=rng)
        run.oblige("_phiC == phi(zm/L)", loops.scalar_eq(fk["_phiC"](zm, L).at(k), phi(x)), kind="rel", view="value", assuming=rng)
        pm = fk["_phiM"](zm, L).at(k)
        run.oblige("_phiM unstable == (1-16 zm/L)^(-1/4)", loops.scalar_eq(pm, pw(1 - 16 * x, Fraction(-1, 4))), kind="rel", view="value",
                   assuming=rng + [num(L.at(k)) < 0])
        run.oblige("_phiM stable == 1 + 5 zm/L", loops.scalar_eq(pm, 1 + 5 * x), kind="rel", view="value", assuming=rng + [num(L.at(k)) > 0])
    ctx.explore("km-vs-pbl", t_km, P)


KAP = Fraction(2, 5)


def generate_profiles(ctx):
    if not ctx.wants(P):
        return
    ns = pbl_namespace(ctx)
    f = harness.define(ctx, ns, "bldfm.pbl_model", "vertical_profiles")
    psi, phi = ns["psi"], ns["phi"]

    def inputs(run):
        n = sym.fresh_int("n")
        zm, um, vm, L, pr = [sym.fresh_real(x) for x in ("zm", "um", "vm", "mol", "prsc")]
        run.assume((n >= 1) & (zm > 0) & (L != 0) & (pr > 0))
        return n, zm, um, vm, L, pr

    for closure, given, grid in [(c, g, "default") for c in ("MOST", "MOSTM", "CONSTANT") for g in ("ustar", "z0")] + \
            [("MOST", "ustar", "explicit"), ("MOST", "z0", "explicit")]:
        if True:
            def thunk(run, closure=closure, given=given, grid=grid):
                run.scope = "pbl_model.vertical_profiles[%s|%s given|grid=%s]" % (closure, given, grid)
                n, zm, um, vm, L, pr = inputs(run)
                absU = transc.sqrt(um * um + vm * vm)
                gk = {}
                if grid == "explicit":
                    gk = {"stretch": sym.fresh_real("stretch"), "domain_height": sym.fresh_real("domain_height")}
                    run.assume((gk["stretch"] > 0) & (gk["domain_height"] >= zm))
                if given == "ustar":
                    ust = sym.fresh_real("ustar")
                    run.assume(ust > 0)
                    out = harness.call(run, f, n, zm, (um, vm), ustar=ust, mol=L, prsc=pr, closure=closure, **gk)
                    z0s = zm * transc.exp(-KAP * absU / ust + psi(zm / L))          # log law inverted for z0
                    usts = ust
                else:
                    z0 = sym.fresh_real("z0")
                    run.assume((z0 > 0) & (z0 < zm))
                    out = harness.call(run, f, n, zm, (um, vm), z0=z0, mol=L, prsc=pr, closure=closure, **gk)
                    z0s = z0
                    usts = absU * KAP / (transc.log(zm / z0) + psi(zm / L))          # log law inverted for u*
                z, (u, v, Kx, Ky, Kz) = out.value
                N = z.axes[0].size
                k = sym.fresh_int("k")
                rng = [(k >= 0) & (k < N)]
                # grid: starts at the roughness length, measurement height exactly at index n
                run.oblige("grid.first-node-is-roughness-length", loops.scalar_eq(z.at(0), z0s), kind="post", view="value")
                run.oblige("grid.node-n-is-measurement-height", loops.scalar_eq(z.at(n), zm), kind="post", view="value")
                # wind vector reproduced at the measurement height, direction constant with height
                run.oblige("wind.u-at-zm", loops.scalar_eq(u.at(n), um), kind="post", view="value")
                run.oblige("wind.v-at-zm", loops.scalar_eq(v.at(n), vm), kind="post", view="value")
                run.oblige("wind.direction-constant", loops.scalar_eq(num(u.at(k)) * vm, num(v.at(k)) * um), kind="post", view="value", assuming=rng)
                # diffusivity: similarity formula K = kappa u* z / (phi(z/L) Pr)
                if closure == "CONSTANT":
                    Kw = KAP * usts * zm / pr          # recorded: height-constant value of the neutral formula at zm
                else:
                    Kw = KAP * usts * z.at(k) / phi(z.at(k) / L) / pr
                run.oblige("K.similarity-formula.Kz", loops.scalar_eq(Kz.at(k), Kw), kind="post", view="value", assuming=rng)
                if closure == "MOSTM":
                    run.oblige("K.horizontal-split-sums-to-K", loops.scalar_eq(num(Kx.at(k)) + num(Ky.at(k)), Kw), kind="post", view="value", assuming=rng)
                    s2 = num(u.at(k)) ** 2 + num(v.at(k)) ** 2
                    run.oblige("K.no-diffusion-along-the-flow", loops.scalar_eq(num(Kx.at(k)) * s2, Kw * num(v.at(k)) ** 2), kind="post", view="value", assuming=rng)
                else:
                    run.oblige("K.isotropic.Kx", loops.scalar_eq(Kx.at(k), Kw), kind="post", view="value", assuming=rng)
                    run.oblige("K.isotropic.Ky", loops.scalar_eq(Ky.at(k), Kw), kind="post", view="value", assuming=rng)
                for nm, a in (("u", u), ("v", v), ("Kx", Kx), ("Ky", Ky), ("Kz", Kz)):
                    run.oblige("profiles.same-length-as-grid." + nm, a.axes[0].size == N, kind="post")
                # wind profile: diabatic log law
                if closure != "CONSTANT":
                    absu = usts / KAP * (transc.log(z.at(k) / z0s) + psi(z.at(k) / L))
                    run.oblige("wind.log-law.u", loops.scalar_eq(u.at(k), um / absU * absu), kind="post", view="value", assuming=rng)
                run.cover("path")
            ctx.explore("pbl_model.vertical_profiles[%s|%s|%s]" % (closure, given, grid), thunk, P)

    # z0 -> u* -> z0 round trip returns identical profiles
    for closure in ("MOST", "MOSTM", "CONSTANT"):
        def t_rt(run, closure=closure):
            run.scope = "pbl_model.vertical_profiles.roundtrip[%s]" % closure
            n, zm, um, vm, L, pr = inputs(run)
            ust = sym.fresh_real("ustar")
            run.assume(ust > 0)
            zA, PA = harness.call(run, f, n, zm, (um, vm), ustar=ust, mol=L, prsc=pr, closure=closure).value
            # z0 of run A is its first node (obligation grid.first-node-is-roughness-length): the log law inverted for z0
            absU = transc.sqrt(um * um + vm * vm)
            z0A = zm * transc.exp(-KAP * absU / ust + psi(zm / L))
            run.oblige("roundtrip.z0-of-A-is-first-node", loops.scalar_eq(zA.at(0), z0A), kind="rel", view="value")
            zB, PB = harness.call(run, f, n, zm, (um, vm), z0=z0A, mol=L, prsc=pr, closure=closure).value
            loops.oblige_equal(run, "z", zB, zA, kind="rel")
            for nm, a, b in zip(("u", "v", "Kx", "Ky", "Kz"), PA, PB):
                loops.oblige_equal(run, nm, b, a, kind="rel")
        ctx.explore("pbl_model.vertical_profiles.roundtrip[%s]" % closure, t_rt, P)

    # argument errors
    def t_err(run):
        run.scope = "pbl_model.vertical_profiles[errors]"
        n, zm, um, vm, L, pr = inputs(run)
        ust, z0 = sym.fresh_real("ustar"), sym.fresh_real("z0")
        o1 = harness.call(run, f, n, zm, (um, vm), ustar=ust, z0=z0, mol=L, raises=(ValueError,))
        run.oblige("both-z0-and-ustar-rejected", SBool(o1.raised), kind="xpost")
        o2 = harness.call(run, f, n, zm, (um, vm), ustar=ust, mol=L, closure="NOPE", raises=(ValueError,))
        run.oblige("unknown-closure-rejected", SBool(o2.raised), kind="xpost")
    ctx.explore("pbl_model.vertical_profiles[errors]", t_err, P)


def generate(ctx):
    generate_psi_phi(ctx)
    generate_profiles(ctx)
