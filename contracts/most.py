"""C09: pbl_model.psi / phi / vertical_profiles and agreement with the reference model's
copies (ffm_kormann_meixner._psiM/_phiM/_phiC).  Real arithmetic with exp/log/pow/arctan as
uninterpreted symbols constrained by named axiom instances (A8): log/exp inverse pair, pow with
integer exponents and pow(a^k, p/q) = a^(k p/q) for positive a, arctan(1) = pi/4,
np.power(b, e, dtype=complex).real = pow(b, e) for b > 0, derivative rules (pyvc.diffcalc)."""
from fractions import Fraction

import z3

from pyvc import sym, arrays, harness, loops, npshim, transc, diffcalc
from pyvc.sym import Num, Cx, SBool, num, ite
from pyvc.arrays import Arr, Axis

P = {"C09"}
R = z3.RealSort()


def pbl_namespace(ctx):
    ns = harness.namespace("bldfm.pbl_model")
    ns["np"] = NPX()
    harness.define(ctx, ns, "bldfm.pbl_model", "psi")
    harness.define(ctx, ns, "bldfm.pbl_model", "phi")
    return ns


class NPX(npshim.NP):
    pass


def generate_psi_phi(ctx):
    if not ctx.wants(P):
        return
    ns = pbl_namespace(ctx)
    psi, phi = ns["psi"], ns["phi"]
    pw = lambda b, e: Num(z3.Function("pow", R, R, R)(num(b).zr(), num(e).zr()), True)  # noqa: E731

    def thunk(run):
        run.scope = "pbl_model.psi/phi"
        x = sym.fresh_real("x")
        ph = phi(x)
        # flux-gradient function of the similarity formula: (1-16x)^(-1/2) unstable, 1+5x stable
        run.oblige("phi.stable", loops.scalar_eq(ph, 1 + 5 * x), kind="post", view="value", assuming=[x > 0])
        run.oblige("phi.unstable", loops.scalar_eq(ph, pw(1 - 16 * x, Fraction(-1, 2))), kind="post", view="value", assuming=[x <= 0])
        ps = psi(x)
        run.oblige("psi.stable", loops.scalar_eq(ps, 5 * x), kind="post", view="value", assuming=[x > 0])
        # zero and continuity through neutral stratification: both one-sided expressions at x = 0
        x0 = Num(0, True)
        run.oblige("psi.zero-at-neutral (unstable branch value at 0)", loops.scalar_eq(psi(x0), 0), kind="lemma", cls="lemma", view="value")
        run.oblige("psi.continuous-at-neutral (stable limit 5*0)", loops.scalar_eq(5 * x0, psi(x0)), kind="lemma", cls="lemma", view="value")
        run.oblige("phi.continuous-at-neutral", loops.scalar_eq(phi(x0), 1 + 5 * x0), kind="lemma", cls="lemma", view="value")
        # psi is the integral of the flux-gradient function: psi'(x) = (phi_m(x) - 1)/x, psi(0) = 0
        #   stable: phi_m = 1 + 5x
        dps = Num(diffcalc.d((5 * x).zr(), x.t), True)
        run.oblige("psi.derivative.stable: psi' = (phi_m - 1)/x", loops.scalar_eq(dps, ((1 + 5 * x) - 1) / x), kind="lemma", cls="lemma",
                   view="value", assuming=[x > 0])
        #   unstable: phi_m = (1-16x)^(-1/4); with xi = (1-16x)^(1/4) > 0, x = (1 - xi^4)/16
        xu = sym.fresh_real("xu")
        run.assume(xu < 0)
        pu = psi(xu)
        # select the unstable branch of the code's np.where and differentiate it
        du = diffcalc.d(pu.zr(), xu.t)
        xi = z3.Real("xi")
        xofxi = (1 - xi * xi * xi * xi) / 16
        du_xi = z3.substitute(du, (xu.t, xofxi))
        want = (pw(Num(xi, True) ** 4, Fraction(-1, 4)) - 1) / Num(xofxi, True)
        run.oblige("psi.derivative.unstable: psi' = ((1-16x)^(-1/4) - 1)/x", loops.scalar_eq(Num(du_xi, True), want), kind="lemma",
                   cls="lemma", view="value", assuming=[SBool(xi > 0), SBool(xi >= 1)])
    ctx.explore("pbl_model.psi/phi", thunk, P)

    # agreement with the reference model's copies
    def t_km(run):
        run.scope = "ffm_kormann_meixner._psiM/_phiM/_phiC vs pbl_model"
        nsk = harness.namespace("bldfm.ffm_kormann_meixner")
        nsk["np"] = NPX()
        fk = {n: harness.define(ctx, nsk, "bldfm.ffm_kormann_meixner", n) for n in ("_psiM", "_phiM", "_phiC")}
        n = sym.fresh_int("n_obs")
        run.assume(n >= 1)
        zm, L = arrays.fresh_array("zm", [n], "float"), arrays.fresh_array("mo_len", [n], "float")
        k = sym.fresh_int("k")
        rng = [(k >= 0) & (k < n), num(zm.at(k)) > 0, num(L.at(k)) != 0]
        x = zm.at(k) / L.at(k)
        run.oblige("_psiM == psi(zm/L)", loops.scalar_eq(fk["_psiM"](zm, L).at(k), psi(x)), kind="rel", view="value", assuming=rng)
        run.oblige("_phiC == phi(zm/L)", loops.scalar_eq(fk["_phiC"](zm, L).at(k), phi(x)), kind="rel", view="value", assuming=rng)
        pm = fk["_phiM"](zm, L).at(k)
        run.oblige("_phiM unstable == (1-16 zm/L)^(-1/4)", loops.scalar_eq(pm, pw(1 - 16 * x, Fraction(-1, 4))), kind="rel", view="value",
                   assuming=rng + [num(L.at(k)) < 0])
        run.oblige("_phiM stable == 1 + 5 zm/L", loops.scalar_eq(pm, 1 + 5 * x), kind="rel", view="value", assuming=rng + [num(L.at(k)) > 0])
    ctx.explore("km-vs-pbl", t_km, P)


KAP = Fraction(2, 5)


ORDER_REPLAY = r'''
import numpy as np
from bldfm.pbl_model import vertical_profiles
kw = %(kw)r
n, zm, wind = %(n)d, %(zm)r, %(wind)r
z, (u, v, Kx, Ky, Kz) = vertical_profiles(n, zm, wind, **kw)
z = np.asarray(z, dtype=float)
fin = np.isfinite(z)
zf = z[fin]
bad = []
if zf.size and not np.all(np.diff(zf) > 0): bad.append("grid not strictly increasing: %%s" %% zf[:6])
if zf.size and not np.all(zf > 0): bad.append("non-positive height")
top = kw.get("domain_height", 2 * zm)
if fin.all() and z[-1] < top * (1 - 1e-12): bad.append("top node %%r below the domain height %%r" %% (z[-1], top))
ust = kw.get("ustar")
if ust is None:
    from bldfm.pbl_model import psi
    ust = float(np.hypot(*wind) * 0.4 / (np.log(zm / kw["z0"]) + psi(zm / kw.get("mol", 1e9))))
if ust > 0:
    for nm, K in (("Kz", Kz),) + ((("Kx", Kx), ("Ky", Ky)) if kw.get("closure") != "MOSTM" else ()):
        K = np.broadcast_to(np.asarray(K, dtype=float), z.shape)
        if not np.all(K[fin] > 0): bad.append("%%s not strictly positive" %% nm)
print(("REPLAY-FAIL " if bad else "REPLAY-PASS ") + "n=%%d zm=%%r wind=%%r %%r -> %%s" %% (n, zm, wind, kw, "; ".join(bad) or "order clauses hold at this point"))
raise SystemExit(1 if bad else 0)
'''


def order_replay(closure, given, explicit, tke):
    """Native replay of a refuted order clause at the input point of the solver's model (uninterpreted exp/log:
    the model need not be a real counterexample; the native run decides)."""
    def replay(model):
        def val(name, default):
            for k_, v in model.items():
                if k_ == name or k_.startswith(name + "!"):
                    try:
                        return float(Fraction(str(v).rstrip("?")))
                    except (ValueError, ZeroDivisionError):
                        pass
            return default
        kw = {"closure": closure, "mol": val("mol", -50.0), "prsc": val("prsc", 1.0)}
        if given == "ustar":
            kw["ustar"] = val("ustar", 0.4)
        else:
            kw["z0"] = val("z0", 0.1)
        if explicit:
            kw["stretch"], kw["domain_height"] = val("stretch", 20.0), val("domain_height", 30.0)
        if tke:
            kw["tke"] = val("tke", 1.0)
        n = int(max(1, min(val("n", 4), 4000)))
        return {"code": ORDER_REPLAY % {"kw": kw, "n": n, "zm": val("zm", 10.0), "wind": (val("um", 3.0), val("vm", 1.0))}}
    return replay


def inequalities(run, closure, z, K3, N, n, zm, z0s, usts, L, pr, h, zmx, default_grid, props, rp=None):
    """Order clauses of C09 (strictly increasing grid, positive heights and diffusivities, top node at or
    above the domain height).  SMT obligations in real arithmetic with exp/log uninterpreted; the only facts
    about them are the ground order instances of transc.order_instances for the applications that occur
    (A8), the arange length fact (A2) and, for the default grid, rational enclosures of e^-1, e^-1/2.

    The stretched grid is z = -h log(A(zeta)) with A(k) = E0 - k (E0 - Em)/n, E0 = exp(-z0/h), Em = exp(-zm/h):
    a node exists (is not NaN) iff A(k) > 0 ("below the asymptote of the map").  The clauses are proved for
    every node below the asymptote; that every node of the DEFAULT grid (h = zmx = 2 zm) with n >= 1 layers is
    below it is proved as well (n >= 1).  For explicit (stretch, domain_height) the premise stays a
    premise (bounded stand-in; it is false for a domain height far above the stretch height)."""
    Kx, Ky, Kz = K3
    k = sym.fresh_int("ki")
    # a derived roughness length (u* given) is generalised to a fresh positive symbol: the clauses are proved for
    # every roughness length below zm, hence for the derived one (the code computes it once and reuses the value)
    gen = None
    if not z3.is_const(num(z0s).zr()):
        gen = (num(z0s).zr(), z3.Real("z0_derived"))
        z0s = Num(gen[1], True)

    def G(x):
        x = num(x)
        if not gen or x.concrete:
            return x
        if x.is_int:
            return Num(z3.substitute(x.t, gen))
        return Num(z3.substitute(x.zr(), gen), True)
    N = G(N)
    E0, Em, EX = transc.exp(-z0s / h), transc.exp(-zm / h), transc.exp(-zmx / h)
    A = lambda j: E0 - num(j) * (E0 - Em) / n  # noqa: E731
    zk, zk1, zl = G(z.at(k)), G(z.at(k + 1)), G(z.at(N - 1))
    Kk = G(Kz.at(k))
    Kx, Ky, Kz = [Arr(a.axes, (lambda a: lambda j: G(a.at(j)))(a), "float") for a in (Kx, Ky, Kz)]
    ar = []
    for (Nn, a, b, st) in run.__dict__.get("arange_defs", []):
        Nn, a, b, st = G(Nn), G(a), G(b), G(st)
        ar.append(z3.Implies(z3.And(st.zr() > 0, b.zr() > a.zr()),
                             z3.And((a + (Nn - 1) * st).zr() < b.zr(), b.zr() <= (a + Nn * st).zr(), Nn.t >= 1)))
    terms = [zk, zk1, zl, Kk, E0, Em, EX, num(z0s), A(k), A(k + 1), A(N - 1)]
    hy = transc.order_instances(terms) + ar
    pre = [z0s < zm, z0s > 0]
    rng = [(k >= 0) & (k < N)]
    run.oblige("grid.strictly-increasing (nodes below the asymptote of the map)", zk < zk1, kind="post", cls="premise", replay=rp, props=props, hyps=hy,
               assuming=pre + [(k >= 0) & (k + 1 < N), A(k + 1) > 0])
    run.oblige("grid.nodes-at-or-above-the-roughness-length (hence positive)", (zk >= z0s) & (zk > 0), kind="post", cls="premise", replay=rp, props=props, hyps=hy,
               assuming=pre + rng + [A(k) > 0])
    run.oblige("grid.top-node-reaches-the-domain-height", zl >= zmx, kind="post", cls="premise", replay=rp, props=props, hyps=hy,
               assuming=pre + [N >= 1, A(N - 1) > 0, zmx >= zm])
    if closure == "MOSTM":
        run.oblige("K.vertical-strictly-positive", Kk > 0, kind="post", cls="premise", replay=rp, props=props, hyps=hy,
                   assuming=pre + rng + [A(k) > 0, usts > 0])
    else:
        for nm, a in (("Kx", Kx), ("Ky", Ky), ("Kz", Kz)):
            run.oblige("K.strictly-positive." + nm, num(a.at(k)) > 0, kind="post", cls="premise", replay=rp, props=props, hyps=hy,
                       assuming=pre + rng + [A(k) > 0, usts > 0])
    # vacuity guards: the premises (with every instance) are jointly satisfiable
    # (shown at a pinned input point: satisfiability of nonlinear formulas with uninterpreted functions is
    # otherwise out of the solver's reach; any model suffices for non-vacuity)
    pin = [zm == 10, n == 4, k == 1, pr == 1] + ([z0s == Fraction(1, 10)] if z3.is_const(num(z0s).zr()) else [])
    run.oblige("premises-of-the-order-clauses-satisfiable", SBool(True), kind="cover", expect="sat", props=props, hyps=hy,
               assuming=pre + pin + [(k >= 0) & (k + 1 < N), A(k + 1) > 0, A(N - 1) > 0, usts > 0, zmx >= zm])
    if default_grid:
        # Every node of the default grid (h = zmx = 2 zm) with n >= 1 layers lies below the asymptote.  Three steps:
        #  (1) the code's np.arange arguments equal start = 0, step = zm/n, stop = (zm/D)(E0 - EX) + zm/n with
        #      D = E0 - Em (exact identities, value view, exp applications as atoms);
        #  (2) a polynomial lemma over fresh reals e0, em, ex (no uninterpreted function): from the arange length fact
        #      M*step < stop, 0.6065 < em < 0.6066, em < e0 < 1, 0.3678 < ex < 0.3679, n >= 1 follows e0 - M (e0 - em)/n > 0
        #      (for n = 1 the integrality of M matters: M < r + 1 < 3 leaves M <= 2 and A(2) = 2 em - e0 > 0);
        #  (3) the clause itself from the arange fact (A2), (1), the instance of (2) at the exp applications and the
        #      order / numeric instances for them (A8).
        D = E0 - Em
        Sstop, Sstep = zm / D * (E0 - EX) + zm / n, zm / n
        eqs = []
        for (Nn, a_, b_, st_) in run.__dict__.get("arange_defs", [])[-1:]:
            Nn, a_, b_, st_ = G(Nn), G(a_), G(b_), G(st_)
            run.oblige("grid.arange-start-is-0", loops.scalar_eq(a_, 0), kind="post", view="value", props=props, assuming=pre)
            run.oblige("grid.arange-step-is-zm/n", loops.scalar_eq(st_, Sstep), kind="post", view="value", props=props, assuming=pre)
            run.oblige("grid.arange-stop-is-mapped-domain-height-plus-one-step", loops.scalar_eq(b_, Sstop), kind="post", view="value",
                       props=props, assuming=pre)
            eqs = [a_.zr() == 0, st_.zr() == Sstep.zr(), b_.zr() == Sstop.zr()]
        e0, em, ex, zq, M, nq = z3.Real("e0"), z3.Real("em"), z3.Real("ex"), z3.Real("zq"), z3.Int("Mq"), z3.Int("nq")
        prem = lambda e0, em, ex, zq, M, nq: z3.And(  # noqa: E731
            zq > 0, nq >= 1, M >= 0, em > z3.Q(6065, 10000), em < z3.Q(6066, 10000), em < e0, e0 < 1, ex > z3.Q(3678, 10000), ex < z3.Q(3679, 10000),
            z3.ToReal(M) * (zq / z3.ToReal(nq)) < zq / (e0 - em) * (e0 - ex) + zq / z3.ToReal(nq))
        concl = lambda e0, em, ex, zq, M, nq: e0 - z3.ToReal(M) * (e0 - em) / z3.ToReal(nq) > 0  # noqa: E731
        run.oblige("lemma.default-grid-below-asymptote (polynomial, fresh reals for the exp values)",
                   SBool(z3.Implies(prem(e0, em, ex, zq, M, nq), concl(e0, em, ex, zq, M, nq))), kind="lemma", cls="lemma", props=props)
        inst = z3.Implies(prem(E0.zr(), Em.zr(), EX.zr(), num(zm).zr(), (N - 1).t, n.t), concl(E0.zr(), Em.zr(), EX.zr(), num(zm).zr(), (N - 1).t, n.t))
        zero = Num(0, True)
        hy2 = ar + eqs + [inst] + transc.exp_bounds() + \
            transc.order_instances([E0, Em, EX], extra=[c.arg(0) for c in transc.exp_bounds()[1::2]] + [transc.exp_bounds()[0].arg(0)])
        run.oblige("grid.every-node-below-the-asymptote [default grid, n >= 1]", A(N - 1) > 0, kind="post", cls="premise", replay=rp, props=props,
                   hyps=hy2, assuming=pre + [n >= 1, N >= 1])
        run.oblige("premises-of-the-default-grid-clause-satisfiable", SBool(True), kind="cover", expect="sat", props=props, hyps=hy2,
                   assuming=pre + pin + [n >= 1, N >= 1])
        run.oblige("grid.asymptote-premise-is-monotone: A(k) >= A(N-1)", A(k) >= A(N - 1), kind="lemma", cls="lemma", props=props, hyps=hy,
                   assuming=pre + rng)


def generate_profiles(ctx):
    # the wind clauses (vector reproduced at zm, direction constant, log law along (um, vm)) are also links
    # of C08's convention chain: wind=(u, v) handed to the closure comes out along the same direction
    PW = {"C08", "C09"}
    if not ctx.wants(PW):
        return
    ns = pbl_namespace(ctx)
    f = harness.define(ctx, ns, "bldfm.pbl_model", "vertical_profiles")
    psi, phi = ns["psi"], ns["phi"]

    def inputs(run):
        n = sym.fresh_int("n")
        zm, um, vm, L, pr = [sym.fresh_real(x) for x in ("zm", "um", "vm", "mol", "prsc")]
        run.assume((n >= 1) & (zm > 0) & (L != 0) & (pr > 0))
        return n, zm, um, vm, L, pr

    for closure, given, grid in [(c, g, "default") for c in ("MOST", "MOSTM", "CONSTANT") for g in ("ustar", "z0")] + \
            [("MOST", "ustar", "explicit"), ("MOST", "z0", "explicit"), ("MOST", "z0", "stretch-only"), ("MOST", "ustar", "height-only")]:
        if True:
            def thunk(run, closure=closure, given=given, grid=grid):
                run.scope = "pbl_model.vertical_profiles[%s|%s given|grid=%s]" % (closure, given, grid)
                n, zm, um, vm, L, pr = inputs(run)
                absU = transc.sqrt(um * um + vm * vm)
                gk = {}
                if grid == "explicit":
                    gk = {"stretch": sym.fresh_real("stretch"), "domain_height": sym.fresh_real("domain_height")}
                    run.assume((gk["stretch"] > 0) & (gk["domain_height"] >= zm))
                elif grid == "stretch-only":       # the other one keeps its documented default 2 zm (they are independent)
                    gk = {"stretch": sym.fresh_real("stretch")}
                    run.assume(gk["stretch"] > 0)
                elif grid == "height-only":
                    gk = {"domain_height": sym.fresh_real("domain_height")}
                    run.assume(gk["domain_height"] >= zm)
                if given == "ustar":
                    ust = sym.fresh_real("ustar")
                    run.assume(ust > 0)
                    out = harness.call(run, f, n, zm, (um, vm), ustar=ust, mol=L, prsc=pr, closure=closure, **gk)
                    z0s = zm * transc.exp(-KAP * absU / ust + psi(zm / L))          # log law inverted for z0
                    usts = ust
                else:
                    z0 = sym.fresh_real("z0")
                    run.assume((z0 > 0) & (z0 < zm))
                    out = harness.call(run, f, n, zm, (um, vm), z0=z0, mol=L, prsc=pr, closure=closure, **gk)
                    z0s = z0
                    usts = absU * KAP / (transc.log(zm / z0) + psi(zm / L))          # log law inverted for u*
                z, (u, v, Kx, Ky, Kz) = out.value
                N = z.axes[0].size
                k = sym.fresh_int("k")
                rng = [(k >= 0) & (k < N)]
                # grid: starts at the roughness length, measurement height exactly at index n
                run.oblige("grid.first-node-is-roughness-length", loops.scalar_eq(z.at(0), z0s), kind="post", view="value", props=P)
                run.oblige("grid.node-n-is-measurement-height", loops.scalar_eq(z.at(n), zm), kind="post", view="value", props=P)
                # wind vector reproduced at the measurement height, direction constant with height
                run.oblige("wind.u-at-zm", loops.scalar_eq(u.at(n), um), kind="post", view="value", props=PW)
                run.oblige("wind.v-at-zm", loops.scalar_eq(v.at(n), vm), kind="post", view="value", props=PW)
                run.oblige("wind.direction-constant", loops.scalar_eq(num(u.at(k)) * vm, num(v.at(k)) * um), kind="post", view="value", assuming=rng, props=PW)
                # diffusivity: similarity formula K = kappa u* z / (phi(z/L) Pr)
                if closure == "CONSTANT":
                    Kw = KAP * usts * zm / pr          # recorded: height-constant value of the neutral formula at zm
                else:
                    Kw = KAP * usts * z.at(k) / phi(z.at(k) / L) / pr
                run.oblige("K.similarity-formula.Kz", loops.scalar_eq(Kz.at(k), Kw), kind="post", view="value", assuming=rng, props=P)
                if closure == "MOSTM":
                    run.oblige("K.horizontal-split-sums-to-K", loops.scalar_eq(num(Kx.at(k)) + num(Ky.at(k)), Kw), kind="post", view="value", assuming=rng, props=P)
                    s2 = num(u.at(k)) ** 2 + num(v.at(k)) ** 2
                    run.oblige("K.no-diffusion-along-the-flow", loops.scalar_eq(num(Kx.at(k)) * s2, Kw * num(v.at(k)) ** 2), kind="post", view="value", assuming=rng, props=P)
                else:
                    run.oblige("K.isotropic.Kx", loops.scalar_eq(Kx.at(k), Kw), kind="post", view="value", assuming=rng, props=P)
                    run.oblige("K.isotropic.Ky", loops.scalar_eq(Ky.at(k), Kw), kind="post", view="value", assuming=rng, props=P)
                for nm, a in (("u", u), ("v", v), ("Kx", Kx), ("Ky", Ky), ("Kz", Kz)):
                    run.oblige("profiles.same-length-as-grid." + nm, a.axes[0].size == N, kind="post", props=P)
                # wind profile: diabatic log law
                if closure != "CONSTANT":
                    absu = usts / KAP * (transc.log(z.at(k) / z0s) + psi(z.at(k) / L))
                    run.oblige("wind.log-law.u", loops.scalar_eq(u.at(k), um / absU * absu), kind="post", view="value", assuming=rng, props=PW)
                inequalities(run, closure, z, (Kx, Ky, Kz), N, n, zm, z0s, usts, L, pr, gk.get("stretch", 2 * zm), gk.get("domain_height", 2 * zm),
                             grid == "default", P, rp=order_replay(closure, given, grid == "explicit", False))
                run.cover("path")
            ctx.explore("pbl_model.vertical_profiles[%s|%s|%s]" % (closure, given, grid), thunk, PW)

    # one-and-a-half order closure (Schumann-Lilly): roughness length from the friction velocity and the
    # turbulent kinetic energy; wind = logarithmic law with u*^2/(cm cl sqrt(e)); K = ch cl z sqrt(e)
    CL, CM, CH = Fraction(845, 1000), Fraction(856, 10000), Fraction(204, 1000)
    for tk in ("given", "default"):
        def t_oa(run, tk=tk):
            run.scope = "pbl_model.vertical_profiles[OAAHOC|tke %s]" % tk
            n, zm, um, vm, L, pr = inputs(run)
            ust = sym.fresh_real("ustar")
            run.assume(ust > 0)
            absU = transc.sqrt(um * um + vm * vm)
            if tk == "given":
                e = sym.fresh_real("tke")
                run.assume(e > 0)
                out = harness.call(run, f, n, zm, (um, vm), ustar=ust, mol=L, prsc=pr, closure="OAAHOC", tke=e)
            else:
                e = Num(1, True)
                out = harness.call(run, f, n, zm, (um, vm), ustar=ust, mol=L, prsc=pr, closure="OAAHOC")
            z, (u, v, Kx, Ky, Kz) = out.value
            N = z.axes[0].size
            k = sym.fresh_int("k")
            rng = [(k >= 0) & (k < N)]
            se = transc.sqrt(e)
            z0s = zm * transc.exp(-CM * CL * absU * se / (ust * ust))
            run.oblige("grid.one-dimensional", SBool(z.ndim == 1), kind="post", props=P)
            run.oblige("grid.first-node-is-roughness-length", loops.scalar_eq(z.at(0), z0s), kind="post", view="value", props=P)
            run.oblige("grid.node-n-is-measurement-height", loops.scalar_eq(z.at(n), zm), kind="post", view="value", props=P)
            run.oblige("wind.u-at-zm", loops.scalar_eq(u.at(n), um), kind="post", view="value", props=PW)
            run.oblige("wind.v-at-zm", loops.scalar_eq(v.at(n), vm), kind="post", view="value", props=PW)
            run.oblige("wind.direction-constant", loops.scalar_eq(num(u.at(k)) * vm, num(v.at(k)) * um), kind="post", view="value", assuming=rng, props=PW)
            Kw = CH * CL * z.at(k) * se
            for nm, a in (("Kx", Kx), ("Ky", Ky), ("Kz", Kz)):
                run.oblige("K.closure-formula." + nm, loops.scalar_eq(a.at(k), Kw), kind="post", view="value", assuming=rng, props=P)
            for nm, a in (("u", u), ("v", v), ("Kx", Kx), ("Ky", Ky), ("Kz", Kz)):
                run.oblige("profiles.one-dimensional-same-length-as-grid." + nm, SBool(a.ndim == 1) & (a.axes[0].size == N), kind="post", props=P)
            absu = ust * ust / CM / CL / se * transc.log(z.at(k) / z0s)
            run.oblige("wind.log-law.u", loops.scalar_eq(u.at(k), um / absU * absu), kind="post", view="value", assuming=rng, props=PW)
            inequalities(run, "OAAHOC", z, (Kx, Ky, Kz), N, n, zm, z0s, ust, L, pr, 2 * zm, 2 * zm, True, P, rp=order_replay("OAAHOC", "ustar", False, tk == "given"))
            run.cover("path")
        ctx.explore("pbl_model.vertical_profiles[OAAHOC|tke %s]" % tk, t_oa, PW)

    # z0 -> u* -> z0 round trip returns identical profiles
    for closure in ("MOST", "MOSTM", "CONSTANT"):
        def t_rt(run, closure=closure):
            run.scope = "pbl_model.vertical_profiles.roundtrip[%s]" % closure
            n, zm, um, vm, L, pr = inputs(run)
            ust = sym.fresh_real("ustar")
            run.assume(ust > 0)
            zA, PA = harness.call(run, f, n, zm, (um, vm), ustar=ust, mol=L, prsc=pr, closure=closure).value
            # z0 of run A is its first node (obligation grid.first-node-is-roughness-length): the log law inverted for z0
            absU = transc.sqrt(um * um + vm * vm)
            z0A = zm * transc.exp(-KAP * absU / ust + psi(zm / L))
            run.oblige("roundtrip.z0-of-A-is-first-node", loops.scalar_eq(zA.at(0), z0A), kind="rel", view="value", props=P)
            zB, PB = harness.call(run, f, n, zm, (um, vm), z0=z0A, mol=L, prsc=pr, closure=closure).value
            loops.oblige_equal(run, "z", zB, zA, kind="rel", props=P)
            for nm, a, b in zip(("u", "v", "Kx", "Ky", "Kz"), PA, PB):
                loops.oblige_equal(run, nm, b, a, kind="rel", props=PW if nm in ("u", "v") else P)
        ctx.explore("pbl_model.vertical_profiles.roundtrip[%s]" % closure, t_rt, PW)

    # argument errors
    def t_err(run):
        run.scope = "pbl_model.vertical_profiles[errors]"
        n, zm, um, vm, L, pr = inputs(run)
        ust, z0 = sym.fresh_real("ustar"), sym.fresh_real("z0")
        o1 = harness.call(run, f, n, zm, (um, vm), ustar=ust, z0=z0, mol=L, raises=(ValueError,))
        run.oblige("both-z0-and-ustar-rejected", SBool(o1.raised), kind="xpost", props=P)
        o2 = harness.call(run, f, n, zm, (um, vm), ustar=ust, mol=L, closure="NOPE", raises=(ValueError,))
        run.oblige("unknown-closure-rejected", SBool(o2.raised), kind="xpost", props=P)
    ctx.explore("pbl_model.vertical_profiles[errors]", t_err, P)


def generate(ctx):
    generate_psi_phi(ctx)
    generate_profiles(ctx)
