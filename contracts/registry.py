"""Which contract modules generate the obligations of which property, and what is claimed."""

A = {
    "A1": "A1: IEEE doubles/complex128 treated as mathematical reals/complex numbers (complex64 storage identified with complex128); float literals denote their decimal value",
    "A2": "A2: int() truncates toward zero, // and % floor-based, np.arange(a,b,s) has ceil((b-a)/s) elements",
    "A3": "A3: NumPy int64 does not overflow for array sizes",
    "A4": "A4: numba nopython kernels (@parallelize) compute what the Python body computes; the parallel flag has no semantic effect",
    "A5": "A5: left-to-right evaluation, no operator overloading other than NumPy's",
    "A6": "A6: only exceptions named in a contract occur (no MemoryError/KeyboardInterrupt); a/b is a field operation (ZeroDivision outside the model)",
    "A7": "A7: SHA-256 injective; ndarray.tobytes()/repr injective on the hashed values",
    "A8": "A8: transcendental functions are uninterpreted symbols constrained by named axiom instances only (log/exp inverse pair and power laws are applied to POSITIVE arguments/bases: NaN/complex results of log or fractional powers of non-positive reals are outside the model; exact trigonometric identities)",
    "CPY": "function bodies are extracted mechanically from /repo/src on every run and executed by CPython on symbolic proxies; the proxies model int/float/complex/list/dataclass values and the NumPy index operations used (pad, slices, fftshift/ifftshift, fftfreq, meshgrid, masks, fancy index, squeeze, linspace)",
    "SLICE": "slices are treated as copies (no function under contract writes through a slice alias)",
}

T = {
    "DFT": "DFT contract (DESIGN 3.2): fft2/ifft2 are the (un)normalised discrete Fourier sums; opaque in every VC",
    "D1": "lemma D1 (DC bin <-> mean): proved in Lean 4 + Mathlib from the DFT sums of the transform contract (lemmas/DFT.lean, checked in the thorough tier); conformance of the installed FFT layer to those sums is bounded", "D2": "lemma D2 (linearity of the DFT): proved in Lean from the DFT sums (lemmas/DFT.lean)",
    "D3": "lemma D3 (shift theorem): proved in Lean from the DFT sums (lemmas/DFT.lean)", "D4": "lemma D4 (convolution / reciprocity, DESIGN B.2, incl. offset = translation): proved in Lean from the DFT sums (lemmas/DFT.lean)",
    "D5": "lemma D5 (reflection, mirror, transposition; analysis and synthesis side): proved in Lean from the DFT sums (lemmas/DFT.lean)",
    "LCONV": "theorem L-conv (DESIGN B.3): the implication stability + local error of order p+1 => global error <= exp(C Z) D Z H^p is proved in Lean (lemmas/Conv.lean, discrete Gronwall); that the extracted step has a local error of that order for smooth VARYING coefficients (Taylor expansion of the ODE solution) and is stable on the resolved regime remains a stated textbook fact",
    "IVPC": "contract IVP of ivp_solver used at its two call sites in S (verified separately in this same run)",
    "Z3": "z3 (LIA/EUF/NRA) and the exact polynomial-identity normaliser of pyvc.valueview / pyvc.stepalg",
    "MAP": "concurrent.futures.Executor.map yields results in task order irrespective of completion order and worker count (DESIGN 3.2; bounded conformance in bounded/C14.py)",
    "NPLOAD": "np.load/np.savez contract (DESIGN 3.2): an unreadable entry raises SOME exception at load or member access (OSError/ValueError/EOFError/KeyError/BadZipFile for truncations, NotImplementedError/RuntimeError for a damaged archive directory) and never hands out other data silently; bounded conformance: every truncation point, zero-filled blocks and flipped bytes (bounded/C15.py kind npload-contract)",
    "YAML": "yaml.safe_load returns the mapping denoted by the document",
    "DC": "dataclasses.dataclass: the real CPython implementation is executed",
}

COMMON = [A["CPY"], A["A1"], A["A5"], A["A6"]]
SOLVER_ASSUME = COMMON + [A["A2"], A["A3"], A["A4"], A["A8"], A["SLICE"]]
TECH = "contracts (pre/post/exceptional post, constructive loop invariants, frame conditions) on the real functions; VCs by symbolic execution of the source extracted from /repo on every run; z3 + exact polynomial identities"

PROPERTIES = {
    "C01": {
        "modules": ["ivp", "solver", "purity"], "lean": "lemmas/Conv.lean", "level": "other", "floor": 500,
        "assumptions": SOLVER_ASSUME, "trusted": [T["Z3"], T["LCONV"], T["DFT"], T["IVPC"]],
        "explanation": "PROVED for all inputs: each layer step applied by ivp_solver is linear in the state, reads only its own layer (profiles at nodes i/i+1, z[i+1]-z[i], the mode's wavenumbers) and agrees with exp(dz*M) of the stated per-mode BVP through first order for any in-layer sampling (orders 0,1 of the extracted step; consistency); both boundary conditions are imposed exactly by the shooting combination (clause of the spectral contract SC of S: Hq(bottom)=1 via Prop(0)=I and the two initial states, Hq(top)=Kz*lambda*Hp(top) algebraically), the eigenvalue is the principal root of the TOP-node coefficients; every retained non-constant bin is treated this way (SC for all sizes/halos/modes). ASSUMED: the convergence theorem L-conv turning consistency+stability into convergence. BOUNDED only: the quantitative rate (error <= 3*max(dz/z), ratio >= 2.5 when the layer thickness is quartered) against an independent Riccati integration (bounded/C01.py).",
        "level_text": "Discretisation contract proved for all inputs (consistency, locality, exact boundary conditions, spectral assembly); convergence follows by an assumed textbook theorem; the numerical rate is a bounded refinement study, labelled bounded.",
        "level_note": "A1-A8; theorem L-conv assumed; rate measured only on the bounded family of bounded/C01.py.",
    },
    "C02": {
        "modules": ["solver", "lemmas", "purity", "utilsc", "ivp", "cachec"], "lean": "lemmas/DFT.lean", "level": "proof", "floor": 1500,
        "assumptions": SOLVER_ASSUME, "trusted": [T["Z3"], T["D4"], T["DFT"], T["IVPC"]],
        "explanation": "With a cache handed to the solve, two footprint requests whose lookup keys are equal have equal spectra, crops and grids (2-safety obligation rel.equal-keys-* over two symbolic runs of S: a request for one halo width is never served the Green's function of another). Reciprocity holds iff (B.2) both modes share the retained set and transfer functions, the footprint spectrum is H/N times cis(kappa.(r_m + P)) with P the PADDED offset (px*dx, py*dy), the footprint is transformed with the e^{-i} sums, and both are cropped by the pad widths: these are clauses of SC/TC proved on the code for symbolic sizes, halos (incl. None and incommensurate), truncations, levels and profiles; point_measurement returns sum(f*g).",
        "level_text": "All clauses the DFT reciprocity computation needs are postconditions of the real solver proved for all inputs; the computation itself (D4) is a Lean 4 + Mathlib lemma over the transform contract (lemmas/DFT.lean, thorough tier).",
        "level_note": "A1-A8; D4 proved in Lean from the DFT sums (native conformance of the FFT layer to the sums: bounded/dft_conformance.py); closures/precisions enter only through symbolic profiles and A1.",
    },
    "C03": {
        "modules": ["solver", "lemmas", "ivp", "purity"], "lean": "lemmas/DFT.lean", "level": "proof", "floor": 1500,
        "assumptions": SOLVER_ASSUME, "trusted": [T["Z3"], T["D1"], T["DFT"], T["IVPC"]],
        "explanation": "DC clauses of SC: fftq[k,0,0] = S00 for every level (numeric and analytic), fftp[k,0,0] = p000 - S00*R(level_k) with R the trapezoid resistance (loop invariant of the mean-mode loop) or h/Kz (analytic), phase = 1 at DC; footprint source = 1/(nxe*nye) so N*DC = 1; halo == explicit padding as a lemma over the contract (same dx, dy, padded sizes, spectra; crop).",
        "level_text": "Conservation statements are postconditions/loop invariants of the real solver proved for all inputs; mean <-> DC bin (D1) is a Lean lemma over the transform contract.",
        "level_note": "A1-A8; D1 proved in Lean (lemmas/DFT.lean).",
    },
    "C04": {
        "modules": ["solver", "ivp", "lemmas", "purity"], "lean": "lemmas/DFT.lean", "level": "proof", "floor": 700,
        "assumptions": SOLVER_ASSUME, "trusted": [T["Z3"], T["D2"], T["DFT"], T["IVPC"]],
        "explanation": "SC gives fftq = ret*S*Hq*Phi and fftp = ret*(DC ? p000 - S00*R : S*Hp)*Phi with Hq, Hp, R, Phi, ret free of the source and of the background (frame: the specification terms do not mention q0/p000; the code equals them); ivp_solver is linear in its initial state (extracted step); bilinearity lemma over SC; footprint mode has S = 1/N (no source values).",
        "level_text": "Linearity is a consequence of the spectral contract proved on the real code plus linearity of the DFT (D2, Lean lemma).",
        "level_note": "A1-A8; D2 proved in Lean (lemmas/DFT.lean).",
    },
    "C05": {
        "modules": ["ivp", "solver", "lemmas", "purity"], "lean": "lemmas/Conv.lean", "level": "proof", "floor": 500,
        "assumptions": SOLVER_ASSUME, "trusted": [T["Z3"], T["LCONV"], T["DFT"], T["IVPC"]],
        "explanation": "Analytic branch: SC[analytic] states Hq = exp(-lambda*h), Hp = Hq/(Kz*lambda), mean p000 - S00*h/Kz, assembled through the SAME padding/truncation/shift/crop obligations as the numerical mode; the closed form solves the BVP (lemma). Design order: the h^k coefficients (k=0..3) of every entry of the step matrix extracted from the loop body equal those of exp(h*M) (16 exact polynomial identities). 'About eightfold' is the corollary via L-conv; measured only by the bounded stand-in.",
        "level_text": "Closed form and third-order conditions proved exactly on the real code; the measured ratio is bounded.",
        "level_note": "A1-A8; L-conv assumed for the corollary.",
    },
    "C06": {
        "modules": ["solver", "lemmas", "purity", "ivp"], "lean": "lemmas/DFT.lean", "level": "proof", "floor": 700,
        "assumptions": SOLVER_ASSUME, "trusted": [T["Z3"], T["D3"], T["D5"], T["DFT"], T["IVPC"]],
        "explanation": "SC: transfer functions independent of source and measurement point; phase factors exactly cis(kappa.(r_m+P)) (footprint) and cis(kappa.(r_m - L/2)) iff r_m != 0 (dispersion); wavenumbers built from dx, dy and the PADDED sizes on the right axes; transform directions (TC). Whole-cell shifts are integer multiples of the bin angle (lemma). Translation then follows by the shift theorem D3 / reflection D5.",
        "level_text": "All code-level clauses proved for all inputs; the DFT shift/reflection theorems are Lean lemmas over the transform contract (lemmas/DFT.lean).",
        "level_note": "A1-A8; D3/D5 proved in Lean (lemmas/DFT.lean).",
    },
    "C07": {
        "modules": ["solver", "ivp", "symmetry", "purity"], "lean": "lemmas/DFT.lean", "level": "proof", "floor": 650,
        "assumptions": SOLVER_ASSUME, "trusted": [T["Z3"], T["D5"], T["DFT"], T["IVPC"]],
        "explanation": "Relational identities on the code's own terms: the extracted step matrix, the eigenvalue argument, the wavenumber grids, retained sets, pad widths and phases under mirror-x/y, axis swap, length similarity and speed similarity; lifted through the layers by induction over Prop (base + step). With D5 the fields mirror/transpose.",
        "level_text": "Symmetry identities are exact polynomial/LIA identities on terms extracted from the real code.",
        "level_note": "A1-A8; D5 proved in Lean (lemmas/DFT.lean); Nyquist bins excepted as in the statement.",
    },
    "C10": {
        "modules": ["ivp", "solver", "interface", "purity"], "level": "proof", "floor": 1300,
        "assumptions": SOLVER_ASSUME, "trusted": [T["Z3"], T["DFT"], T["IVPC"]],
        "explanation": "ivp_solver: out[k] = Prop(levels[k]).init for every k, any order, duplicates (constructive loop invariants of all three loops); S: mean-mode bookkeeping by invariant, SC's level index is levels[k] in every clause (numeric and analytic), Z[k] = z[levels[k]], scalar level = one-element list; nothing in SC couples different k (multi == single); interface passes output_levels / full range / nz.",
        "level_text": "Level bookkeeping proved by loop invariants on the real loops for symbolic numbers of levels and nodes.",
        "level_note": "A1-A6.",
    },
    "C11": {
        "modules": ["solver", "ivp", "purity"], "level": "proof", "floor": 1500,
        "assumptions": SOLVER_ASSUME, "trusted": [T["Z3"], T["DFT"], T["IVPC"]],
        "explanation": "GEO in linear integer arithmetic over symbolic nx, ny, px, py, modes: raises exactly for odd modes / unknown precision / odd gap after the per-axis clamp, otherwise returns shape squeeze((m,ny,nx)) with X=i*dx, Y=j*dy; registration of every retained bin in and out (SC at fresh symbolic bins); low-pass: SC depends on the mode counts only through the retained set; clamp per axis.",
        "level_text": "Shape, registration and exceptional behaviour proved for all grid sizes, halos and mode counts.",
        "level_note": "A1-A6.",
    },
    "C12": {
        "modules": ["purity", "ivp", "cachec"], "level": "other", "floor": 1600,
        "assumptions": SOLVER_ASSUME, "trusted": [T["Z3"], T["DFT"], T["IVPC"]],
        "explanation": "PROVED (real arithmetic): history through an on-disk cache cannot change a result (rel.equal-keys-*: equal lookup keys imply equal spectra, crops and grids, two symbolic runs of S); the result term of S is the same specification for every value of config.NUM_THREADS and for both storage precisions (the spec mentions neither), S and ivp_solver read no module-level name other than the declared ones, declare no global, write no module attribute, have no mutable default, do not mutate their arguments; get_fft_manager returns a manager with the requested thread count from any previous state; the REAL FFTManager class (constructor, wisdom handling, fft2/ifft2 methods; compiled against stubs of pyfftw, pickle, atexit, Path, open) and the module-level fft2/ifft2 forward exactly their argument and norm to the library transform of the same direction whatever the manager's history; the kernel wrapper returns the kernel of the decorated body on the same arguments from any _compiled state. NOT decided by contracts: bit-identity, 1e-12 agreement across thread settings/processes, 1e-5 single/double agreement (floating point, schedulers): BOUNDED call sequences (bounded/C12.py).",
        "level_text": "Frame conditions proved on the real code; floating-point and scheduling clauses are outside this family and covered by a bounded stand-in, labelled bounded.",
        "level_note": "A1 (this is exactly what hides the rounding-level clauses), A4.",
    },
    "C13": {
        "modules": ["interface", "parser", "met", "purity", "geo"], "level": "proof", "floor": 1000,
        "assumptions": COMMON, "trusted": [T["Z3"], T["YAML"], T["DC"]],
        "explanation": "run_bldfm_single's result record equals the documented pipeline term over keyword-normalised uninterpreted callees (48 discrete configurations x symbolic everything else); every parser field equals the raw value or the dataclass default; missing sections rejected; load_config = parse_config_dict(yaml.safe_load(file)); tower local coordinates and validate() at construction; get_step per C16.",
        "level_text": "EUF equality between the real function's result and the specification term, for all inputs.",
        "level_note": "callees uninterpreted (their own contracts: C08/C09/C02...); YAML library assumed.",
    },
    "C14": {
        "modules": ["drivers", "met", "purity"], "level": "other", "floor": 90,
        "assumptions": COMMON, "trusted": [T["Z3"], T["MAP"]],
        "explanation": "PROVED: run_bldfm_timeseries / run_bldfm_multitower by constructive loop invariants for symbolic numbers of steps and towers (results are the single runs in time order, keyed by tower in configuration order, one cache per series iff enabled); run_bldfm_parallel strategies 'towers' and 'time' under the Executor.map ordering contract, workers requested or configured, unknown strategy rejected, workers reset their inherited state. strategy 'both' through a row-structured list with ghost row offsets (off(t+1) = off(t) + n_time; all obligations linear). NOT decided by contracts: real scheduling (completion orders, worker counts, parent threads) is discharged by the assumed Executor.map ordering contract: BOUNDED runs with real pools, delays and adversarial completion orders (bounded/C14.py).",
        "level_text": "Serial drivers and all three strategies proved under the ordering contract of Executor.map; real scheduling is exercised by the bounded stand-in.",
        "level_note": "Executor.map contract assumed; distinct tower names required.",
    },
    "C15": {
        "modules": ["cachec", "purity", "ivp"], "level": "proof", "floor": 500,
        "assumptions": COMMON + [A["A7"]], "trusted": [T["Z3"], T["NPLOAD"], T["IVPC"], T["DFT"]],
        "explanation": "Frame obligation on the symbolic result of S: every input symbol the footprint-mode result depends on is hashed into the lookup key; get-key == put-key on all halo paths; a hit returns the stored triple without solving; misses store exactly the returned result once; dispersion mode never touches the cache; _compute_key hashes every argument and nothing else; get() never raises and returns None for an unreadable entry under the np.load contract.",
        "level_text": "Completeness/effectiveness/transparency proved on the real solver prologue/epilogue and cache class; crash-safety under the stated np.load contract.",
        "level_note": "A7; np.load contract trusted with bounded conformance (every truncation point).",
    },
    "C16": {
        "modules": ["met", "parser", "drivers"], "level": "proof", "floor": 800,
        "assumptions": COMMON, "trusted": [T["Z3"], T["DC"]],
        "explanation": "96 list/scalar/None patterns enumerated, list lengths and elements symbolic.",
        "level_text": "Every list/scalar/None pattern of the forcing (96 configurations) is enumerated; list lengths and elements are symbolic, so the step count, per-step extraction, index safety and the exact rejection condition are proved for all lengths >= 0 from the current source of MetConfig / BLDFMConfig.__post_init__; drivers only pass valid step indices.",
        "level_note": "CPython executes the extracted bodies on symbolic proxies; z3 discharges LIA/EUF VCs; dataclass machinery is the real one.",
    },
}

PROPERTIES.update({
    "C08": {
        "modules": ["utilsc", "interface", "parser", "solver", "most", "geo"], "level": "other", "floor": 300,
        "assumptions": SOLVER_ASSUME, "trusted": [T["Z3"], T["DFT"], T["IVPC"]],
        "explanation": "PROVED: compute_wind_fields returns -speed*(sin, cos)(dir*pi/180) for scalars and arrays (the stated convention: clockwise from north, direction the wind blows FROM), speed preserved (Pythagoras instance), cardinal directions blow toward S/W/N/E (exact sin/cos values); the interface hands wind=(u,v) in that order, every closure (MOST, MOSTM, CONSTANT, OAAHOC) returns profiles along that same direction with exactly (u,v) at the measurement height (vertical_profiles: wind clauses), the tower's local (x,y) as measurement point and (xmax,ymax) as domain (pipeline term of run_bldfm_single); tower local coordinates are x east / y north of the reference (parser); the solver's grid has X along the last axis with step dx and Y along the first with dy, u/Kx paired with kx (GEO/SC). NOT decided by contracts: 'the bearing from the tower to the footprint centroid equals the wind direction within a few degrees' is a quantitative statement about the PDE solution on a periodic discrete domain: BOUNDED runs over directions x stabilities x closures x grids (bounded/C08.py).",
        "level_text": "Convention chain proved function by function; the physical centroid clause is outside contract reach and covered by a bounded stand-in, labelled bounded.",
        "level_note": "A1-A8; centroid bearing measured only on the bounded family.",
    },
    "C09": {
        "modules": ["most", "interface", "purity"], "level": "proof", "floor": 120,
        "assumptions": COMMON + [A["A2"], A["A8"]], "trusted": [T["Z3"]],
        "explanation": "vertical_profiles (MOST, MOSTM, CONSTANT; z0 given / u* given; default and explicit stretch/domain height): first node = roughness length, node n = measurement height, wind vector reproduced at node n, direction constant, K = kappa u* z/(phi(z/L) Pr) (MOSTM split sums to K, none along the flow), diabatic log law, z0 <-> u* round trip returns identical grid and profiles; psi is the integral of the flux-gradient function (psi' = (phi_m - 1)/x on both branches by symbolic differentiation of the code's own expression), psi(0) = 0, psi and phi continuous at neutral, agreement with the reference model's _psiM/_phiC/_phiM. The OAAHOC closure (tke given or defaulted) is under the same contract: z0 = zm exp(-cm cl |U| sqrt(e)/u*^2), logarithmic wind reproducing (u,v) at node n, K = ch cl z sqrt(e), one-dimensional outputs. ORDER CLAUSES (SMT, exp/log uninterpreted with ground order instances only for the applications that occur, A8): the stretched grid is z = -h log A(k) with A(k) = E0 - k (E0 - Em)/n; for every node below the asymptote of the map (A(k) > 0, i.e. the node is not NaN) the grid is strictly increasing, every height >= z0 > 0, every K > 0 (for a positive friction velocity), and the top node is at or above the domain height (np.arange length fact, A2); for the DEFAULT grid (stretch = domain height = 2 zm) with n >= 1 layers every node is below the asymptote (for n = 1 the integrality of the node count is used) (value-view identities for the arange arguments + a polynomial lemma over fresh reals + rational enclosures of e^-1, e^-1/2). Left to the bounded stand-in: the premise A(N-1) > 0 for explicit (stretch, domain_height) -- where it is FALSE for a domain height far above the stretch height (top node NaN; outside the property's quantifier, recorded as an interpretation note) -- and positivity of a DERIVED friction velocity (needs ln(zm/z0) + psi(zm/L) > 0).",
        "level_text": "Equalities of the closure proved in real arithmetic with named exp/log/pow/arctan axiom instances; order clauses proved for every node below the asymptote of the grid map and for the whole default grid (n >= 1); the remaining premise (explicit stretch / domain height) is bounded.",
        "level_note": "A1, A2 (np.arange length), A8 (named axiom instances incl. derivative rules).",
    },
    "C17": {
        "modules": ["geo", "parser", "purity"], "level": "proof", "floor": 35,
        "assumptions": COMMON + [A["A8"], "A8 instances used by the accuracy lemmas (all true of the real functions): t^2(1 - t^2/12) <= 4 sin^2(t/2) <= t^2; 1 - t^2/2 <= cos t <= 1; sin^2 t <= t^2, (sin t - t)^2 <= (t^3/6)^2, t sin t >= 0; addition formulas of sin and cos; cos^2 + sin^2 = 1; s <= asin s <= s(1 + s^2) on [0, 1/10]; sqrt(h)^2 = h; the angle between two plane vectors with positive dot product is asin(|cross|/(|v||w|)); sin(0.1 deg) > 0.001745"],
        "trusted": [T["Z3"], "oracle of the accuracy clause: haversine distance and initial great-circle bearing on the sphere of the code's own radius (textbook formulas, the same as in bounded/C17.py)"],
        "explanation": "PROVED: both round trips (lat/lon -> xy -> lat/lon and xy -> lat/lon -> xy) are identities whenever cos(ref_lat) != 0, the origin maps to (0,0), x strictly increases eastward and y northward (cos(ref_lat) > 0 for |ref_lat| < 90), y independent of longitude, array arguments elementwise, tower coordinates filled from the forward map at configuration time whatever the tower's previous coordinates (idempotent). ACCURACY (lemma chain over the forward-map contract x = R b cos(phi0), y = R a; contracts/geo.py generate_accuracy): for local offsets up to 5 km and |ref_lat| <= 60 deg the great-circle distance 2 R asin(sqrt(hav)) is within 0.1 % of sqrt(x^2 + y^2) and the initial great-circle bearing within 0.1 deg of atan2(x, y) -- 14 polynomial inequalities over fresh reals that stand for the sines, cosines, square root and arcsine that occur, constrained only by named Taylor enclosures (A8); each discharged by z3 (nlsat) in milliseconds to seconds; non-vacuity by a pinned point; the chain fails, as it must, when the offset bound is raised to 50 km. The bounded sample against the haversine formulas (bounded/C17.py) stays as a native cross-check of oracle and lemmas.",
        "level_text": "Inverse pair, orientation and the great-circle accuracy clause proved (the latter as SMT lemmas over the forward-map contract with named enclosure instances of sin/cos/asin).",
        "level_note": "A1, A8 (cos positive at the reference latitude; Taylor enclosures named above).",
    },
    "C18": {
        "modules": ["ioc", "purity"], "level": "other", "floor": 400,
        "assumptions": COMMON, "trusted": [T["Z3"], "xarray.Dataset(...).to_netcdf(zlib) followed by xr.open_dataset is the identity on float64 variables/coordinates and string coordinates (bounded conformance in bounded/C18.py)"],
        "explanation": "PROVED up to the xarray.Dataset call, for symbolic numbers of towers, steps and grid sizes, 2-D and 3-D, ustar / z0 / both forcings: footprint/concentration[time, tower] hold that tower's field at that step (loop invariants of the three loops), dims tuple matches the array axes, x/y/z coordinates, time labels, tower labels, tower_lat/lon/z belong to the tower NAMED by the label (precondition from C14: results keyed in configuration order), per-step met values incl. z0 for roughness-length forcings, ustar not invented; load = existence check + open_dataset. TRUSTED with bounded conformance: the NetCDF write/read itself.",
        "level_text": "Array assembly and labelling proved; file format round trip trusted and exercised by the bounded stand-in.",
        "level_note": "netCDF4/xarray trusted.",
    },
    "C19": {
        "modules": ["km", "purity"], "level": "other", "floor": 400,
        "assumptions": COMMON + [A["A2"], A["A8"]], "trusted": [T["Z3"]],
        "explanation": "PROVED: the stability helpers return the published expressions per branch for float AND integer heights (no narrowing store), grid cell centres, downwind cells zero, NON-NEGATIVE: every upwind cell of the code's expression is strictly positive whenever U > 0 (helper postconditions phi_m, phi_c, m > 0 and 0 < n < 3/2 proved on the real helpers for every dtype combination; exp/pow/sqrt/gamma uninterpreted with ground positivity instances), negative-U path returns an empty footprint only when U < 0, symmetry of the closed form about the wind axis, rotations by multiples of 90 degrees are signed permutations of the grid axes, estimateZ0 without smoothing inverts the diabatic log law; WITH directional smoothing (symbolic half window 1..89 deg and the default 22, wind directions in [0, 360)): each of the 360 one-degree bins takes np.nanmedian (opaque) over exactly the raw estimates whose direction lies in the CIRCULAR window [kk - h, kk + 1 + h) mod 360 (360 obligations on the masks the real loop builds), every observation receives the median of its own bin, and a rotation of all wind directions by whole degrees maps windows onto windows and bins onto bins (two SMT lemmas): the rotation-invariance clause of the statement, modulo 'the median depends only on the selected values'. The cell-by-cell closed form (power-product identity over ~10 nested quantities) is attempted by the exact normaliser in the thorough tier and otherwise covered by the bounded stand-in; convergence of the cell sum to the incomplete-gamma mass is bounded only.",
        "level_text": "Helper functions, geometry and inversion proved; the full closed-form product and the limit statements are bounded.",
        "level_note": "A1, A2, A8.",
    },
    "C20": {
        "modules": ["utilsc", "contour", "purity"], "level": "proof", "floor": 60, "lean": "lemmas/C20.lean",
        "assumptions": COMMON + [A["A3"]], "trusted": [T["Z3"], "np.argsort returns a permutation sorting its argument (tie order unspecified); np.cumsum = prefix sums; np.searchsorted(side=left) = least index with a[k] >= v on a sorted array; ravel/reshape are mutually inverse row-major bijections"],
        "explanation": "get_source_area in rank form: with ord the descending-g order, out.flat[ord[r]] = sum of f over the r cells ranked above (exclusive cumulative sum), cumulated array = f in that order, result has g's shape, integer-typed g does not truncate; base functions equal their formulas; extract_percentile_contour: descending cumulative sums times cell area are searched for p*total with side=left (fewest cells), area = (k+1)*cell area, level = smallest selected value, 2-D/3-D fields and 1-D/2-D/3-D coordinates, level slicing. Set-form consequences are lemmas over the rank form, checked by Lean 4 + Mathlib in the thorough tier (lemmas/C20.lean, no sorry, axioms propext/choice/Quot.sound only): the value lies between the sum over the cells with strictly larger g and the sum over the other cells with larger-or-equal g, 0 <= value <= total - f(cell), the value does not increase with g, a strictly increasing transformation of g leaves the admissible orders unchanged, a common permutation of the cells permutes the result; for the contour: the selected count is monotone in p, the level antitone, scaling f keeps the index and scales the level. Adjacent instances are also discharged by z3 in every tier; the brute-force bounded oracle exercises the same statements natively.",
        "level_text": "Rank/prefix-sum form proved on the real code under the argsort/cumsum/searchsorted contracts.",
        "level_note": "library contracts of argsort/cumsum/searchsorted/ravel trusted (conformance via the bounded brute-force oracle).",
    },
})

# every property of the solver quantifies over calls that may be handed a result cache: the 2-safety obligations
# rel.equal-keys-* (contracts/cachec.py: two footprint requests with equal lookup keys have equal spectra, crops and grids)
# carry the statement proved for the uncached solve over to a solve served through a cache
for _k in ("C01", "C03", "C04", "C05", "C06", "C07", "C10", "C11"):
    if "cachec" not in PROPERTIES[_k]["modules"]:
        PROPERTIES[_k]["modules"].append("cachec")
        PROPERTIES[_k]["explanation"] += (" With a cache handed to the solve, two footprint requests whose lookup keys are equal have equal spectra, "
                                         "crops and grids (2-safety obligations rel.equal-keys-* over two symbolic runs of S), so a request is never served "
                                         "the result of a different request; the bounded suite repeats every 7th case with a cache attached after near-twin requests.")
for _k, _p in PROPERTIES.items():
    _p.setdefault("np_conformance", _k in ("C01", "C02", "C03", "C04", "C05", "C06", "C07", "C10", "C11", "C12", "C15", "C18", "C19", "C20"))
for _k, _p in PROPERTIES.items():
    _p.setdefault("dft_conformance", _k in ("C01", "C02", "C03", "C04", "C05", "C06", "C07", "C10", "C11", "C12"))
for _p in PROPERTIES.values():
    _p.setdefault("technique", TECH + ("; lemmas over the contracts checked by Lean 4 + Mathlib in the thorough tier (%s)" % (_p["lean"] if isinstance(_p["lean"], str) else ", ".join(_p["lean"])) if _p.get("lean") else "")
                  + ("; order clauses over exp/log by z3 with ground axiom instances" if _k == "C09" else ""))
    _p.setdefault("bounded", True)

NOT_APPLICABLE = {}
