"""Which contract modules generate the obligations of which property."""

A = {
    "A1": "A1: IEEE doubles/complex128 treated as mathematical reals/complex numbers; float literals denote their decimal value",
    "A2": "A2: int() truncates toward zero, // and % floor-based, np.arange(a,b,s) has ceil((b-a)/s) elements",
    "A3": "A3: NumPy int64 does not overflow for array sizes",
    "A4": "A4: numba nopython kernels (@parallelize) compute what the Python body computes; the parallel flag has no semantic effect",
    "A5": "A5: left-to-right evaluation, no operator overloading other than NumPy's",
    "A6": "A6: only exceptions named in a contract occur (no MemoryError/KeyboardInterrupt)",
    "A7": "A7: SHA-256 injective; ndarray.tobytes() injective for fixed dtype and shape",
    "A8": "A8: transcendental functions are uninterpreted symbols constrained by named axiom instances",
    "CPY": "function bodies are executed by CPython on symbolic proxies: Python semantics of the executed subset are CPython's own; proxies model int/float/complex/list/dataclass values",
}

PROPERTIES = {
    "C16": {
        "modules": ["met"],
        "level": "proof",
        "floor": 800,
        "bounded": True,
        "assumptions": [A["CPY"], A["A1"], A["A6"]],
        "trusted": ["dataclasses.dataclass (real CPython implementation executed)", "z3 4.x/5.x LIA+EUF"],
        "explanation": "",
        "level_text": "Every list/scalar/None pattern of the forcing (96 configurations) is enumerated; list lengths and elements are symbolic, so the step count, per-step extraction, index safety and the exact rejection condition are proved for all lengths >= 0 from the current source of MetConfig / BLDFMConfig.__post_init__.",
        "level_note": "CPython executes the extracted bodies on symbolic proxies; z3 discharges LIA/EUF VCs; floats as reals; dataclass machinery is the real one. Bounded native sweep (lengths 1..4) reported separately as bounded.",
        "technique": "contracts (pre/post/exceptional post) on the real functions; VCs by symbolic execution of the extracted source; z3",
    },
}

NOT_APPLICABLE = {}
