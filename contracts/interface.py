"""C13 (and the interface part of C08/C09/C10): run_bldfm_single equals the documented
pipeline.  Callees are uninterpreted functions over keyword-normalised argument records
(pyvc.opaque); the specification term is written from the statement of C13."""
import itertools

import z3

from pyvc import sym, harness, values, opaque
from pyvc.sym import Num, SBool, SStr, num
from pyvc.opaque import Op, veq

PROPS = {"C13"}
MOD = "bldfm.interface"


def stubs(log=None):
    return {
        "compute_wind_fields": opaque.opaque_function("bldfm.utils", "compute_wind_fields", parts=("u", "v"), log=log),
        "vertical_profiles": opaque.opaque_function("bldfm.pbl_model", "vertical_profiles", parts=("z", "profiles"), log=log),
        "ideal_source": opaque.opaque_function("bldfm.utils", "ideal_source", log=log),
        "steady_state_transport_solver": opaque.opaque_function("bldfm.solver", "steady_state_transport_solver",
                                                                parts=("grid", "conc", "flx"), log=log),
    }


def make_config(run, z0, levels, src_loc, ref=False):
    """Symbolic configuration; discrete choices: z0 given?, level selection, src_loc given?"""
    z0sym = sym.fresh_real("z0")

    def step(i):
        i = num(i)
        R, I = z3.RealSort(), z3.IntSort()
        d = {"ustar": Num(z3.Function("step_ustar", I, R)(i.z()), True),
             "mol": Num(z3.Function("step_mol", I, R)(i.z()), True),
             "wind_speed": Num(z3.Function("step_ws", I, R)(i.z()), True),
             "wind_dir": Num(z3.Function("step_wd", I, R)(i.z()), True),
             "timestamp": SStr(z3.Function("step_ts", I, SStr.sort())(i.z()))}
        if z0 == "given":
            d["z0"] = z0sym
        elif z0 == "none-key":
            d["z0"] = None
        return d
    n_steps = sym.fresh_int("n_timesteps")
    run.assume(n_steps >= 1)
    met = values.Rec("met", get_step=step, n_timesteps=n_steps)
    nz = sym.fresh_int("cfg_nz")
    run.assume(nz >= 1)
    if levels == "list":
        n = sym.fresh_int("n_out")
        run.assume(n >= 1)
        f = z3.Function("out_level", z3.IntSort(), z3.IntSort())
        out_levels, full = values.SList(n, lambda k: Num(f(k.z())), name="output_levels"), sym.fresh_bool("full_output")
    elif levels == "empty":
        out_levels, full = values.SList(Num(0), lambda k: Num(0), name="output_levels"), False
    elif levels == "full":
        out_levels, full = None, True
    else:
        out_levels, full = None, False
    dom = values.Rec("domain", nx=sym.fresh_int("cfg_nx"), ny=sym.fresh_int("cfg_ny"), xmax=sym.fresh_real("xmax"),
                     ymax=sym.fresh_real("ymax"), nz=nz, modes=(sym.fresh_int("m0"), sym.fresh_int("m1")),
                     halo=sym.fresh_real("cfg_halo"), output_levels=out_levels, full_output=full,
                     ref_lat=sym.fresh_real("ref_lat") if ref else None, ref_lon=sym.fresh_real("ref_lon") if ref else None)
    sol = values.Rec("solver", closure=SStr.fresh("closure"), precision=SStr.fresh("precision"),
                     footprint=sym.fresh_bool("footprint"), analytic=sym.fresh_bool("analytic"),
                     surface_flux_shape=SStr.fresh("flux_shape"),
                     src_loc=(sym.fresh_real("sx"), sym.fresh_real("sy")) if src_loc else None)
    par = values.Rec("parallel", use_cache=sym.fresh_bool("use_cache"), max_workers=sym.fresh_int("max_workers"))
    config = values.Rec("config", domain=dom, solver=sol, met=met, parallel=par, towers=None)
    tower = values.Rec("tower", name=SStr.fresh("tower_name"), x=sym.fresh_real("tower_x"), y=sym.fresh_real("tower_y"),
                       z_m=sym.fresh_real("z_m"), lat=sym.fresh_real("lat"), lon=sym.fresh_real("lon"))

    # TowerConfig.compute_local_xy under its contract (C17): it REPLACES the tower's x, y by the forward map of its lat/lon.
    # A tower handed to run_bldfm_single carries the coordinates the caller means (filled at configuration time, or set by
    # hand): the single run reads them and must not move the tower.
    def compute_local_xy(ref_lat, ref_lon):
        R = z3.RealSort()
        fx, fy = z3.Function("latlon_to_x", R, R, R, R, R), z3.Function("latlon_to_y", R, R, R, R, R)
        a = (tower.lat.zr(), tower.lon.zr(), sym.num(ref_lat).zr(), sym.num(ref_lon).zr())
        tower.x, tower.y = Num(fx(*a), True), Num(fy(*a), True)
    tower.compute_local_xy = compute_local_xy
    return config, tower


def spec_single(st, config, tower, i, flux, cache, z0, levels):
    """The documented pipeline, from the statement of C13."""
    dom, sol = config.domain, config.solver
    step = config.met.get_step(i)
    u, v = st["compute_wind_fields"](step["wind_speed"], step["wind_dir"])
    kw = dict(n=dom.nz, meas_height=tower.z_m, wind=(u, v), mol=step["mol"], closure=sol.closure)
    if z0 == "given":
        kw["z0"] = step["z0"]          # roughness length takes precedence when configured
    else:
        kw["ustar"] = step["ustar"]
    z, P = st["vertical_profiles"](**kw)
    if flux is None:
        q0 = st["ideal_source"]((dom.nx, dom.ny), (dom.xmax, dom.ymax), src_loc=sol.src_loc,
                                shape=sol.surface_flux_shape)
    else:
        q0 = flux
    if levels == "list":
        L = dom.output_levels
    elif levels == "full" :
        L = values.SList(dom.nz + 1, lambda k: k, name="0..nz")
    else:
        L = dom.nz
    G, C, F = st["steady_state_transport_solver"](
        q0, z, P, (dom.xmax, dom.ymax), L, modes=dom.modes, meas_pt=(tower.x, tower.y),
        footprint=sol.footprint, analytic=sol.analytic, halo=dom.halo, precision=sol.precision, cache=cache)
    return {"grid": G, "conc": C, "flx": F, "tower_name": tower.name, "tower_xy": (tower.x, tower.y),
            "timestamp": step["timestamp"], "params": step}


def namespace(ctx, log=None):
    ns = harness.namespace(MOD)
    ns.update(stubs(log))
    return ns


def generate_single(ctx):
    if not ctx.wants(PROPS | {"C08", "C10", "C09"}):
        return
    ns = namespace(ctx)
    f = harness.define(ctx, ns, MOD, "run_bldfm_single")
    st = stubs()
    combos = [c + (False,) for c in itertools.product(("given", "absent", "none-key"), ("list", "empty", "full", "default"),
                                                      ("given", "generated"), (True, False))]
    # ... and with a reference origin configured (the tower then carries lat/lon AND local coordinates; the run uses the latter)
    combos += [("given", "list", "given", True, True), ("absent", "default", "generated", False, True), ("none-key", "full", "generated", True, True)]
    for z0, levels, flux, src_loc, ref in combos:
        name = "z0=%s|levels=%s|flux=%s|src_loc=%s" % (z0, levels, flux, src_loc) + ("|ref-origin" if ref else "")

        def thunk(run, z0=z0, levels=levels, flux=flux, src_loc=src_loc, name=name, ref=ref):
            config, tower = make_config(run, z0, levels, src_loc, ref)
            tower_xy0 = (tower.x, tower.y)
            i = sym.fresh_int("met_index")
            run.assume((i >= 0) & (i < config.met.n_timesteps))
            fl = Op("input.surface_flux", {}) if flux == "given" else None
            cache = Op("input.cache", {})
            run.scope = "interface.run_bldfm_single[%s]" % name
            run.props = PROPS | {"C08", "C10", "C09"}
            snapshot = {k: dict(vars(getattr(config, k))) for k in ("domain", "solver")}
            out = harness.call(run, f, config, tower, met_index=i, surface_flux=fl, cache=cache)
            res = out.value
            moved = not (tower.x is tower_xy0[0] and tower.y is tower_xy0[1])
            tower.x, tower.y = tower_xy0          # the specification speaks of the tower as it was handed in
            want = spec_single(st, config, tower, i, fl, cache, z0, levels)
            run.oblige("frame.tower-not-moved", SBool(not moved), kind="frame")
            run.oblige("result-keys", SBool(isinstance(res, dict) and set(res) == set(want)), kind="post")
            if not isinstance(res, dict):
                return
            for k in want:
                if k in res:
                    pr = {"C13"} | ({"C08", "C10", "C09"} if k in ("flx", "conc", "grid") else set())
                    run.oblige("pipeline." + k, veq(res[k], want[k]), kind="post", props=pr)
            same = all(dict(vars(getattr(config, k))) == snapshot[k] or
                       all(vars(getattr(config, k))[a] is snapshot[k][a] for a in snapshot[k])
                       for k in snapshot)
            run.oblige("frame.config-not-mutated", SBool(same), kind="frame")
            run.cover("path")
        ctx.explore("interface.run_bldfm_single[%s]" % name, thunk, PROPS | {"C08", "C10", "C09"})


def generate(ctx):
    generate_single(ctx)
