"""Contracts GEO / SC / TC on bldfm.solver:steady_state_transport_solver (DESIGN section 4).

The function body is executed on symbolic arrays; `ivp_solver` is replaced by its contract
IVP (contracts/ivp.py), transforms are opaque, the cache is a contract stub.
"""
import itertools

import z3

from pyvc import sym, arrays, harness, loops, npshim, transc, values
from pyvc.sym import Num, Cx, SBool, num, sbool, ite
from pyvc.arrays import Arr, Axis, MAxis
from contracts import ivp as IVP

LABEL = "solver.S"


class Config:
    """Discrete mode flags (enumerated); everything numeric stays symbolic."""

    def __init__(self, footprint, analytic, halo, levels, precision="double", typed="float"):
        self.footprint, self.analytic, self.halo, self.levels, self.precision = \
            footprint, analytic, halo, levels, precision
        self.typed = typed        # "int": surface flux array and background value of integer type; "pt:int": measurement point given as integers

    def name(self):
        return "%s|%s|halo=%s|levels=%s|%s" % ("fp" if self.footprint else "disp",
                                               "analytic" if self.analytic else "numeric",
                                               self.halo, self.levels, self.precision) + ("" if self.typed == "float" else ("|meas_pt:int" if self.typed == "pt:int" else "|q0,bg:" + self.typed))


def configs(precisions=("double",), int_typed=False, int_point=False):
    for fp, an, halo, lv, pr in itertools.product((False, True), (False, True), ("none", "value"),
                                                  ("scalar", "seq"), precisions):
        yield Config(fp, an, halo, lv, pr)
    if int_typed:
        # "any surface-flux field / background value": integer-typed inputs (a count field, `srf_bg_conc=400`) must not
        # be truncated anywhere; a sample of the mode flags is enough for a dtype matter
        yield Config(False, False, "none", "seq", precisions[-1], typed="int")
        yield Config(False, True, "value", "scalar", precisions[-1], typed="int")
        yield Config(True, False, "value", "seq", precisions[-1], typed="int")
    if int_point:
        # "every measurement point on the grid": coordinates given as Python ints / an integer array (a tower at x = 3 m on
        # half-metre cells) must not be truncated by the shift arithmetic
        yield Config(True, False, "value", "seq", precisions[-1], typed="pt:int")
        yield Config(True, True, "none", "scalar", precisions[-1], typed="pt:int")
        yield Config(False, False, "value", "scalar", precisions[-1], typed="pt:int")


class SInputs:
    def __init__(self, run, cfg, tag="", symbolic_threads=False):
        t = tag
        self.cfg = cfg
        self.nx, self.ny, self.nz = sym.fresh_int("nx" + t), sym.fresh_int("ny" + t), sym.fresh_int("nz" + t)
        run.assume((self.nx >= 2) & (self.ny >= 2) & (self.nz >= 1))
        self.q0 = arrays.fresh_array("q0" + t, [self.ny, self.nx], "int" if cfg.typed == "int" else "float")
        self.z = arrays.fresh_array("z" + t, [self.nz], "float")
        self.prof = tuple(arrays.fresh_array(n + t, [self.nz], "float") for n in ("u", "v", "Kx", "Ky", "Kz"))
        self.xmx, self.ymx = sym.fresh_real("xmx" + t), sym.fresh_real("ymx" + t)
        run.assume((self.xmx > 0) & (self.ymx > 0))
        self.nlx, self.nly = sym.fresh_int("nlx" + t), sym.fresh_int("nly" + t)
        run.assume((self.nlx >= 2) & (self.nly >= 2))
        if cfg.typed == "pt:int":
            self.xm, self.ym = sym.fresh_int("xm" + t), sym.fresh_int("ym" + t)
        else:
            self.xm, self.ym = sym.fresh_real("xm" + t), sym.fresh_real("ym" + t)
        self.p000 = sym.fresh_int("p000" + t) if cfg.typed == "int" else sym.fresh_real("p000" + t)
        if cfg.halo == "none":
            self.halo = None
        else:
            self.halo = sym.fresh_real("halo" + t)
            run.assume(self.halo >= 0)
        nz = self.nz
        if cfg.levels == "scalar":
            self.level = sym.fresh_int("level" + t)
            run.assume((self.level >= 0) & (self.level <= nz - 1))
            self.levels = self.level
            self.nlvls = Num(1)
            self.lev_at = lambda k: self.level
        else:
            self.nlvls = sym.fresh_int("nlvls" + t)
            run.assume(self.nlvls >= 1)
            lv = arrays.fresh_array("levels" + t, [self.nlvls], "int")
            raw, nl = lv._fn, self.nlvls

            def lev(k):
                v = raw(k)
                run.assume(((k >= 0) & (k < nl)).implies((v >= 0) & (v <= nz - 1)))
                return v
            lv._fn = lev
            self.levels = lv
            self.lev_at = lambda k: lv.at(k)
        # the thread count only selects which (stubbed) set-up calls are made; it is symbolic in
        # the C12 frame obligations and fixed elsewhere to keep the path count down
        self.num_threads = sym.fresh_int("NUM_THREADS" + t) if symbolic_threads else Num(1)

    def call_kwargs(self, cache=None):
        return dict(srf_flx=self.q0, z=self.z, profiles=self.prof, domain=(self.xmx, self.ymx),
                    levels=self.levels, modes=(self.nlx, self.nly), meas_pt=(self.xm, self.ym),
                    srf_bg_conc=self.p000, footprint=self.cfg.footprint, analytic=self.cfg.analytic,
                    halo=self.halo, precision=self.cfg.precision, cache=cache)


def ivp_stub(run, log):
    """Contract IVP at the call site (callee body not used)."""
    def ivp_solver(fftpq, profiles, z, levels, Lx, Ly):
        p0, q0 = fftpq
        nz = z.axes[0].size
        # call-pre: lengths and level range
        for a in profiles:
            if not arrays.same_num(a.axes[0].size, nz):
                run.oblige("ivp.call-pre.profile-length", SBool(False), kind="call-pre")
        k = sym.fresh_int("kpre")
        nl = levels.axes[0].size
        run.oblige("ivp.call-pre.levels-in-range",
                   ((k >= 0) & (k < nl)).implies((levels.at(k) >= 0) & (levels.at(k) <= nz - 1)), kind="call-pre")
        for a in (p0, q0, Lx, Ly):
            if a.ndim != 1:
                run.oblige("ivp.call-pre.rank", SBool(False), kind="call-pre")
        ax = Lx.axes[0]
        log.append({"p0": p0, "q0": q0, "Lx": Lx, "Ly": Ly, "levels": levels, "profiles": profiles, "z": z})

        def top(which):
            def f(*c):
                return IVP.prop_apply(nz - 1, Lx.at(*c), Ly.at(*c), p0.at(*c), q0.at(*c))[which]
            return Arr([ax], f, "complex")

        def lev(which):
            def f(k, *c):
                return IVP.prop_apply(levels.at(k), Lx.at(*c), Ly.at(*c), p0.at(*c), q0.at(*c))[which]
            return Arr([Axis(nl), ax], f, "complex")
        return top(0), top(1), lev(0), lev(1)
    return ivp_solver


def make_namespace(ctx):
    ns = harness.namespace("bldfm.solver")
    np_ = npshim.NP()
    ns.update({"np": np_, "fftshift": npshim.fftshift, "ifftshift": npshim.ifftshift,
               "fftfreq": npshim.fftfreq, "fft2": npshim.fft2, "ifft2": npshim.ifft2})
    return ns


MEAN_LOOP = "outer:tfftp00|nest:0"     # the mean-mode (DC) loop of S: the loop that assigns tfftp00 (fallback: the first loop)


class MeanLoop(loops.Constructive):
    """for i in range(nz-1): tfftp[levels == i, 0, 0] = tfftp00;  tfftp00 -= S00*dz_i*(.5/Kz_i + .5/Kz_{i+1})
    invariant: tfftp00 = p000 - S00*Rsum(i);  tfftp[k,0,0] = p000 - S00*Rsum(levels[k]) for levels[k] < i."""
    props = None
    state_names = ("tfftp00", "tfftp")

    def __init__(self, st):
        self.st = st  # per-run dict: inp, S00 (Cx), fixed by the harness before the call

    def rsum(self, i):
        return rsum(self.st["inp"], i)

    def state_at(self, ctl, i):
        inp = self.st["inp"]
        pre = ctl.pre["tfftp"]
        S00 = self.st["S00"]()
        p000 = inp.p000

        def f(k, j, ii):
            l = inp.lev_at(k)
            return ite((j == 0) & (ii == 0) & (l < i), sym.cx(p000 - S00 * rsum(inp, l)), pre.at(k, j, ii))
        return {"tfftp00": sym.cx(p000 - S00 * rsum(inp, i)), "tfftp": Arr(pre.axes, f, "complex")}


def rsum(inp, i):
    """Ghost: Rsum(0) = 0, Rsum(i+1) = Rsum(i) + (z[i+1]-z[i])*(1/Kz[i] + 1/Kz[i+1])/2.
    An argument of the syntactic form t+1 is unfolded once (that is how the step obligation
    of the loop sees the recurrence)."""
    i = num(i)
    if i.concrete:
        if i.t <= 0:
            return Num(0, True)
        r = Num(0, True)
        for k in range(int(i.t)):
            r = r + _rterm(inp, Num(k))
        return r
    t = i.t
    if z3.is_add(t) and t.num_args() == 2 and z3.is_int_value(t.arg(1)) and t.arg(1).as_long() == 1:
        j = Num(t.arg(0))
        return rsum(inp, j) + _rterm(inp, j)
    f = z3.Function("Rsum", z3.IntSort(), z3.RealSort())
    return Num(f(t), True)


def _rterm(inp, i):
    Kz = inp.prof[4]
    return (inp.z.at(i + 1) - inp.z.at(i)) * (Num(1) / Kz.at(i) + Num(1) / Kz.at(i + 1)) / 2


def run_S(ctx, ns, run, inp, f, cache=None):
    """Executes S on symbolic inputs; returns harness.Outcome plus the per-run records."""
    log = []
    ns["ivp_solver"] = ivp_stub(run, log)
    threads = []
    ns["config"] = values.Rec("config", NUM_THREADS=inp.num_threads)
    ns["set_num_threads"] = lambda n: threads.append(("numba", n))
    ns["get_fft_manager"] = lambda num_threads=1, cache_keepalive=30, **kw: threads.append(("fft", num_threads, kw))
    out = harness.call(run, f, raises=(ValueError, IndexError), **inp.call_kwargs(cache))
    return out, log, threads


# ================================================================== specification (DESIGN 4.2-4.4)
def sf(k, n):
    """Signed frequency of DFT bin k of n."""
    return ite(k <= (n - 1) // 2, k, k - n)


class Spec:
    """GEO + SC + TC written from DESIGN section 4 (i.e. from the property statements), in
    terms of the inputs, the padded pad widths px, py (ghost: the run's int(Hh/dx), int(Hh/dy))
    and the contract symbols (Prop, csqrt, cis, cexp, Rsum, the source transform T0)."""

    def __init__(self, run, inp, px, py):
        self.run, self.inp = run, inp
        self.px, self.py = px, py
        i = inp
        self.dx, self.dy = i.xmx / i.nx, i.ymx / i.ny
        self.nxe, self.nye = i.nx + 2 * px, i.ny + 2 * py
        self.nlx = sym.smin(i.nlx, self.nxe)      # per-axis clamp (C11)
        self.nly = sym.smin(i.nly, self.nye)
        self.Hh = i.halo if i.halo is not None else sym.smax(i.xmx, i.ymx)
        self.t = i.nz - 1
        self.two_pi = 2 * transc.PI()
        self.prop = IVP.prop_entry        # ghost propagator (relational lemmas substitute it)
        self.lam_override = None

    def kx(self, i):
        return self.two_pi * sf(i, self.nxe) / (self.dx * self.nxe)

    def ky(self, j):
        return self.two_pi * sf(j, self.nye) / (self.dy * self.nye)

    def retained(self, j, i):
        mx, my = sf(i, self.nxe), sf(j, self.nye)
        return (2 * mx >= -self.nlx) & (2 * mx < self.nlx) & (2 * my >= -self.nly) & (2 * my < self.nly)

    def lam_arg(self, j, i):
        u, v, Kx, Ky, Kz = [a.at(self.t) for a in self.inp.prof]
        kx, ky = self.kx(i), self.ky(j)
        return (Cx(Kx * kx ** 2 + Ky * ky ** 2, u * kx + v * ky)) / Kz

    def lam(self, j, i):
        if self.lam_override is not None:
            return self.lam_override(j, i)
        return transc.sqrt(self.lam_arg(j, i))

    def source(self, j, i, T0):
        if self.inp.cfg.footprint:
            return Cx(Num(1) / (self.nxe * self.nye), 0)
        return T0.result.at(j, i)

    def phase(self, j, i):
        inp = self.inp
        kx, ky = self.kx(i), self.ky(j)
        if inp.cfg.footprint:
            return transc.cis(kx * (inp.xm + self.px * self.dx) + ky * (inp.ym + self.py * self.dy))
        moved = (inp.xm ** 2 + inp.ym ** 2) > 0
        sh = transc.cis(kx * (inp.xm - inp.xmx / 2) + ky * (inp.ym - inp.ymx / 2))
        return ite(moved, sh, Cx(1, 0))

    def H(self, l, j, i):
        """Transfer functions (Hp, Hq) at node l for the non-constant bin (j, i)."""
        inp = self.inp
        kx, ky = self.kx(i), self.ky(j)
        lam = self.lam(j, i)
        Kzt = inp.prof[4].at(self.t)
        if inp.cfg.analytic:
            h = inp.z.at(l) - inp.z.at(0)
            Hq = transc.exp(-lam * h)
            return Hq / (Kzt * lam), Hq
        P = lambda a, b, ll: self.prop(a, b, ll, kx, ky)  # noqa: E731
        t = self.t
        den = P(2, 1, t) - Kzt * lam * P(1, 1, t)
        nm = P(2, 2, t) - Kzt * lam * P(1, 2, t)
        r = nm / den
        return P(1, 2, l) - P(1, 1, l) * r, P(2, 2, l) - P(2, 1, l) * r

    def R(self, l):
        inp = self.inp
        if inp.cfg.analytic:
            return (inp.z.at(l) - inp.z.at(0)) / inp.prof[4].at(self.t)
        return rsum(inp, l)

    def spectra(self, T0):
        """(fftp, fftq) handed to the final transforms: arrays (m, nye, nxe)."""
        inp = self.inp
        m = inp.nlvls
        axes = [Axis(m), Axis(self.nye), Axis(self.nxe)]

        def fq(k, j, i):
            l = inp.lev_at(k)
            S = self.source(j, i, T0)
            dc = (j == 0) & (i == 0)
            v_dc = sym.cx(self.source(Num(0), Num(0), T0))
            v = S * self.H(l, j, i)[1] * self.phase(j, i)
            return ite(self.retained(j, i), ite(dc, v_dc, v), Cx(0, 0))

        def fp(k, j, i):
            l = inp.lev_at(k)
            S = self.source(j, i, T0)
            dc = (j == 0) & (i == 0)
            v_dc = sym.cx(inp.p000 - self.source(Num(0), Num(0), T0) * self.R(l))
            v = S * self.H(l, j, i)[0] * self.phase(j, i)
            return ite(self.retained(j, i), ite(dc, v_dc, v), Cx(0, 0))
        return Arr(axes, fp, "complex"), Arr(axes, fq, "complex")

    def outputs(self, Tp, Tq):
        """TC + GEO: (X, Y, Z, conc, flx) before squeezing."""
        inp = self.inp
        m = inp.nlvls
        axes = [Axis(m), Axis(inp.ny), Axis(inp.nx)]
        px, py = self.px, self.py
        conc = Arr(axes, lambda k, y, x: sym.cx(Tp.result.at(k, y + py, x + px)).re, "float")
        flx = Arr(axes, lambda k, y, x: sym.cx(Tq.result.at(k, y + py, x + px)).re, "float")
        X = Arr(axes, lambda k, y, x: x * self.dx, "float")
        Y = Arr(axes, lambda k, y, x: y * self.dy, "float")
        Z = Arr(axes, lambda k, y, x: inp.z.at(inp.lev_at(k)), "float")
        return X, Y, Z, conc, flx


def check_return(run, inp, out, props_map=None):
    """Postconditions on a returning path of S (no cache)."""
    np_ = npshim.NP()
    cfg = inp.cfg
    tr = run.__dict__.get("transforms", [])
    n_expected = 2 if cfg.footprint else 3
    run.oblige("TC.transform-count", SBool(len(tr) == n_expected), kind="post", meta={"structural": True},
               props={"C02", "C04", "C06", "C12"})
    if len(tr) != n_expected or len(run.int_defs) != 2:
        run.oblige("GEO.pad-width-count", SBool(len(run.int_defs) == 2), kind="post", meta={"structural": True}, props={"C03", "C11"})
        return
    (px, pxdef), (py, pydef) = run.int_defs
    sp = Spec(run, inp, px, py)
    # GEO.pad: px = int(Hh/dx), py = int(Hh/dy)
    run.oblige("GEO.pad-width-x", loops.scalar_eq(pxdef, sp.Hh / sp.dx), kind="post", view="value",
               props={"C02", "C03", "C11", "C07"})
    run.oblige("GEO.pad-width-y", loops.scalar_eq(pydef, sp.Hh / sp.dy), kind="post", view="value",
               props={"C02", "C03", "C11", "C07"})
    T0 = None
    if not cfg.footprint:
        T0 = tr[0]
        run.oblige("SC.source-transform", SBool(T0.op == "fft2" and T0.norm == "forward"), kind="post",
                   props={"C02", "C03", "C04", "C06"})
        padded = np_.pad(inp.q0, ((py, py), (px, px)))
        loops.oblige_equal(run, "SC.source-is-padded-flux", T0.arg, padded, kind="post",
                           props={"C02", "C03", "C04", "C06", "C11"})
    Tp, Tq = tr[-2], tr[-1]
    want = ("fft2", "backward") if cfg.footprint else ("ifft2", "forward")
    run.oblige("TC.direction", SBool((Tp.op, Tp.norm) == want and (Tq.op, Tq.norm) == want), kind="post",
               props={"C02", "C06", "C03"})
    fp, fq = sp.spectra(T0)
    SCP = {"C01", "C02", "C03", "C04", "C05", "C06", "C07", "C10", "C11"}
    loops.oblige_equal(run, "SC.fftq", Tq.arg, fq, kind="post", props=SCP)
    loops.oblige_equal(run, "SC.fftp", Tp.arg, fp, kind="post", props=SCP)
    grid, conc, flx = out.value
    X, Y, Z = grid
    sX, sY, sZ, sconc, sflx = [np_.squeeze(a) for a in sp.outputs(Tp, Tq)]
    GP = {"C10", "C11", "C08", "C03", "C02"}
    loops.oblige_equal(run, "TC.conc", conc, sconc, kind="post", props=GP)
    loops.oblige_equal(run, "TC.flx", flx, sflx, kind="post", props=GP)
    loops.oblige_equal(run, "GEO.X", X, sX, kind="post", props=GP)
    loops.oblige_equal(run, "GEO.Y", Y, sY, kind="post", props=GP)
    loops.oblige_equal(run, "GEO.Z", Z, sZ, kind="post", props=GP)
    return sp


def S00_of(run, inp):
    """DC bin of the source spectrum as the mean-mode loop sees it."""
    if inp.cfg.footprint:
        (px, _), (py, _) = run.int_defs
        return Cx(Num(1) / ((inp.nx + 2 * px) * (inp.ny + 2 * py)), 0)
    return run.transforms[0].result.at(Num(0), Num(0))


def S00_of_at(run, inp, k):
    """S00 for a second run in the same symbolic execution (its pad widths start at int_defs[k])."""
    (px, _), (py, _) = run.int_defs[k], run.int_defs[k + 1]
    return Cx(Num(1) / ((inp.nx + 2 * px) * (inp.ny + 2 * py)), 0)


def explore_paths(ctx, cfgs=None):
    """Development aid: list the paths of S per configuration."""
    ns = make_namespace(ctx)
    st = {}
    f = harness.define(ctx, ns, "bldfm.solver", "steady_state_transport_solver",
                       loop_specs={MEAN_LOOP: MeanLoop(st)}, label=LABEL)
    for cfg in (cfgs or configs()):
        def thunk(run, cfg=cfg):
            inp = SInputs(run, cfg)
            st["inp"] = inp
            st["S00"] = lambda: S00_of(run, inp)
            run.scope = LABEL + "[" + cfg.name() + "]"
            out, log, threads = run_S(ctx, ns, run, inp, f)
            if not out.raised:
                check_return(run, inp, out)
            run.notes.append((cfg.name(), "raise %r" % (out.exc,) if out.raised else "return",
                              len(run.pc), [str(c)[:100] for c in run.pc[-6:]]))
        ctx.explore(LABEL + "[" + cfg.name() + "]", thunk, ctx.props)


S_PROPS = {"C01", "C02", "C03", "C04", "C05", "C06", "C07", "C08", "C10", "C11", "C12"}


def should_raise(inp, px, py):
    """GEO exceptional postcondition (C11): odd requested modes, unknown precision, or an odd
    gap between padded size and (per-axis clamped) modes."""
    nxe, nye = inp.nx + 2 * px, inp.ny + 2 * py
    nlx, nly = sym.smin(inp.nlx, nxe), sym.smin(inp.nly, nye)
    r = (inp.nlx % 2 != 0) | (inp.nly % 2 != 0)
    r = r | ((nxe - nlx) % 2 != 0) | ((nye - nly) % 2 != 0)
    if inp.cfg.precision not in ("single", "double"):
        r = SBool(True)
    return r


def generate_main(ctx, props, precisions=("double",), symbolic_threads=False, cfg_filter=None):
    if not ctx.wants(props):
        return
    ns = make_namespace(ctx)
    st = {}
    f = harness.define(ctx, ns, "bldfm.solver", "steady_state_transport_solver",
                       loop_specs={MEAN_LOOP: MeanLoop(st)}, label=LABEL)
    for cfg in configs(precisions, int_typed=bool({"C04", "C03"} & set(props)), int_point=bool({"C02", "C06"} & set(props))):
        if cfg_filter and not cfg_filter(cfg):
            continue

        def thunk(run, cfg=cfg):
            inp = SInputs(run, cfg, symbolic_threads=symbolic_threads)
            st["inp"] = inp
            st["S00"] = lambda: S00_of(run, inp)
            run.scope = LABEL + "[" + cfg.name() + "]"
            run.props = set(S_PROPS)
            run.cover("pre")
            out, log, threads = run_S(ctx, ns, run, inp, f)
            if out.raised:
                if len(run.int_defs) == 2:
                    (px, _), (py, _) = run.int_defs
                    sr = should_raise(inp, px, py)
                else:
                    sr = (inp.nlx % 2 != 0) | (inp.nly % 2 != 0)
                run.oblige("GEO.raises-only-when-stated[%s]" % type(out.exc).__name__, sr, kind="xpost",
                           props={"C11"})
                run.cover("path.raise", )
            else:
                (px, _), (py, _) = run.int_defs[:2] if len(run.int_defs) >= 2 else ((Num(0), 0), (Num(0), 0))
                run.oblige("GEO.returns-only-when-accepted", sym.Not(should_raise(inp, px, py)), kind="xpost",
                           props={"C11"})
                check_return(run, inp, out)
                run.cover("path.return")
        ctx.explore(LABEL + "[" + cfg.name() + "]", thunk, props)


def generate(ctx):
    # thorough tier: both storage precisions (the quick tier proves double; precision is proved to be
    # storage-only for both in the C12 run)
    generate_main(ctx, S_PROPS & ctx.props, precisions=("double",) if ctx.tier == "quick" else ("single", "double"))
