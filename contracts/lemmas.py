"""Lemma layer (DESIGN 4.5): consequences of the contracts GEO/SC/TC of S that connect them
to the user-level statements.  No repository code is executed here; these obligations are
re-discharged on every run but are unaffected by code changes (reported as `lemmas`).
The code-level facts they rest on are the SC/TC/GEO obligations of contracts/solver.py.
"""
import z3

from pyvc import sym, arrays, harness, loops, npshim, transc, deps
from pyvc.sym import Num, Cx, SBool, num, ite
from pyvc.arrays import Arr, Axis
from contracts import solver as S


class FakeT:
    """A transform record standing for the source spectrum: an arbitrary array."""

    def __init__(self, name, shape=None, fn=None):
        self.op, self.norm = "fft2", "forward"
        if fn is None:
            self.result = arrays.fresh_array(name, shape, "complex")
        else:
            self.result = Arr([Axis(s) for s in shape], fn, "complex")


def mk(run, fp, an, halo="value", levels="seq", tag=""):
    cfg = S.Config(fp, an, halo, levels)
    inp = S.SInputs(run, cfg, tag=tag)
    px, py = sym.fresh_int("px" + tag), sym.fresh_int("py" + tag)
    run.assume((px >= 0) & (py >= 0))
    run.assume((inp.nlx % 2 == 0) & (inp.nly % 2 == 0))
    sp = S.Spec(run, inp, px, py)
    return cfg, inp, sp


def bins(run, sp, inp):
    k, j, i = sym.fresh_int("k"), sym.fresh_int("j"), sym.fresh_int("i")
    rng = [(k >= 0) & (k < inp.nlvls), (j >= 0) & (j < sp.nye), (i >= 0) & (i < sp.nxe)]
    return k, j, i, rng


def eq(run, name, a, b, props, assuming=(), kind="lemma"):
    run.oblige(name, loops.scalar_eq(a, b), kind=kind, cls="lemma", props=props, view="value", assuming=assuming)


def generate(ctx):
    ALL = {"C01", "C02", "C03", "C04", "C05", "C06", "C10", "C11"}
    if not ctx.wants(ALL):
        return

    # ------------------------------------------------------------------ C03
    for an in (False, True):
        def t_c03(run, an=an):
            run.scope = "lemma.C03[%s]" % ("analytic" if an else "numeric")
            for fp in (True, False):
                cfg, inp, sp = mk(run, fp, an)
                T0 = None if fp else FakeT("Shat", [sp.nye, sp.nxe])
                P, Q = sp.spectra(T0)
                k = sym.fresh_int("k")
                rng = [(k >= 0) & (k < inp.nlvls)]
                S00 = sp.source(Num(0), Num(0), T0)
                tag = "fp" if fp else "disp"
                eq(run, "dc-flux[%s]" % tag, Q.at(k, 0, 0), S00, {"C03"}, rng)
                eq(run, "dc-conc[%s]" % tag, P.at(k, 0, 0), sym.cx(inp.p000 - S00 * sp.R(inp.lev_at(k))), {"C03"}, rng)
                if fp:
                    # weights over the padded domain sum to N * DC = 1 (fft2 backward: plain sums)
                    eq(run, "fp-sum-one", sym.cx(Q.at(k, 0, 0)) * (sp.nxe * sp.nye), Cx(1, 0), {"C03", "C02"}, rng)
            # trapezoid resistance: recurrence of the ghost Rsum
            cfg, inp, sp = mk(run, False, False, tag="r")
            i = sym.fresh_int("i")
            Kz = inp.prof[4]
            eq(run, "resistance-recurrence", S.rsum(inp, i + 1) - S.rsum(inp, i),
               (inp.z.at(i + 1) - inp.z.at(i)) * (Num(1) / Kz.at(i) + Num(1) / Kz.at(i + 1)) / 2, {"C03"})
            eq(run, "resistance-base", S.rsum(inp, Num(0)), Num(0, True), {"C03"})
        ctx.explore("lemma.C03[%s]" % an, t_c03, {"C03", "C02"})

    # halo == caller-side zero padding
    for fp in (True, False):
        for an in (False, True):
            def t_halo(run, fp=fp, an=an):
                run.scope = "lemma.halo-vs-pad[%s|%s]" % ("fp" if fp else "disp", "analytic" if an else "numeric")
                cfg, A, spA = mk(run, fp, an, tag="A")
                px, py = spA.px, spA.py
                # run B: padded source, enlarged domain, halo 0 -> pad widths 0
                cfgB = S.Config(fp, an, "value", "seq")
                B = S.SInputs(run, cfgB, tag="B")
                B.nx, B.ny = A.nx + 2 * px, A.ny + 2 * py
                B.xmx, B.ymx = A.xmx + 2 * px * spA.dx, A.ymx + 2 * py * spA.dy
                B.nlx, B.nly, B.nz, B.z, B.prof, B.p000 = A.nlx, A.nly, A.nz, A.z, A.prof, A.p000
                B.nlvls, B.lev_at, B.levels = A.nlvls, A.lev_at, A.levels
                if fp:
                    B.xm, B.ym = A.xm + px * spA.dx, A.ym + py * spA.dy
                else:
                    # dispersion: statement observed with the un-recentred field (meas_pt = origin)
                    run.assume((A.xm == 0) & (A.ym == 0))
                    B.xm, B.ym = A.xm, A.ym
                spB = S.Spec(run, B, Num(0), Num(0))
                eq(run, "same-dx", spB.dx, spA.dx, {"C03"})
                eq(run, "same-dy", spB.dy, spA.dy, {"C03"})
                run.oblige("same-padded-size", (spB.nxe == spA.nxe) & (spB.nye == spA.nye), kind="lemma", cls="lemma", props={"C03"})
                T0 = None if fp else FakeT("Shat", [spA.nye, spA.nxe])
                PA, QA = spA.spectra(T0)
                PB, QB = spB.spectra(T0)
                k, j, i, rng = bins(run, spA, A)
                eq(run, "same-flux-spectrum", QA.at(k, j, i), QB.at(k, j, i), {"C03"}, rng)
                eq(run, "same-conc-spectrum", PA.at(k, j, i), PB.at(k, j, i), {"C03"}, rng)
                if not fp:
                    np_ = npshim.NP()
                    padA = np_.pad(A.q0, ((py, py), (px, px)))
                    q0B = padA  # the caller pads by the same whole number of cells
                    padB = np_.pad(q0B, ((Num(0), Num(0)), (Num(0), Num(0))))
                    loops.oblige_equal(run, "same-transformed-source", padA, padB, kind="lemma", cls="lemma", props={"C03"})
            ctx.explore("lemma.halo-vs-pad[%s|%s]" % (fp, an), t_halo, {"C03"})

    # ------------------------------------------------------------------ C04
    for an in (False, True):
        def t_c04(run, an=an):
            run.scope = "lemma.C04[%s]" % ("analytic" if an else "numeric")
            cfg, inp, sp = mk(run, False, an)
            S1 = arrays.fresh_array("S1", [sp.nye, sp.nxe], "complex")
            S2 = arrays.fresh_array("S2", [sp.nye, sp.nxe], "complex")
            a, b = sym.fresh_real("a"), sym.fresh_real("b")
            c1, c2 = sym.fresh_real("c1"), sym.fresh_real("c2")
            k, j, i, rng = bins(run, sp, inp)

            class V:
                """Values of the two spectra at the generic bin (k, j, i)."""

                def __init__(self, p, q):
                    self.p, self.q = sym.cx(p), sym.cx(q)

            def spectra(src, bg):
                inp.p000 = bg          # read when the element closures are evaluated: evaluate now
                P, Q = sp.spectra(FakeT("x", [sp.nye, sp.nxe], src))
                return V(P.at(k, j, i), Q.at(k, j, i))
            v1 = spectra(lambda jj, ii: S1.at(jj, ii), c1)
            v2 = spectra(lambda jj, ii: S2.at(jj, ii), c2)
            v3 = spectra(lambda jj, ii: a * S1.at(jj, ii) + b * S2.at(jj, ii), a * c1 + b * c2)
            eq(run, "SC-bilinear.flux", v3.q, a * v1.q + b * v2.q, {"C04"}, rng)
            eq(run, "SC-bilinear.conc", v3.p, a * v1.p + b * v2.p, {"C04"}, rng)
            # background: uniform offset of the concentration (DC bin, coefficient one), never the flux
            v0 = spectra(lambda jj, ii: S1.at(jj, ii), Num(0, True))
            eq(run, "background-never-changes-flux", v1.q, v0.q, {"C04"}, rng)
            dc = (j == 0) & (i == 0)
            # DC phase is one, so the offset reaches the mean of the concentration unchanged
            eq(run, "background-only-dc", (v1.p - v0.p), ite(sp.retained(j, i) & dc, Cx(c1, 0), Cx(0, 0)), {"C04"}, rng)
            # frame: transfer functions, phase and retained set do not mention source or background
            inp.p000 = sym.fresh_real("p000x")
            syms = set()
            deps.value_symbols(sp.H(inp.lev_at(k), j, i), syms)
            deps.value_symbols(sp.phase(j, i), syms)
            deps.value_symbols(sp.retained(j, i), syms)
            deps.value_symbols(sp.R(inp.lev_at(k)), syms)
            bad = sorted(s for s in syms if s.startswith(("q0", "p000", "S1", "S2", "T0")))
            run.oblige("frame.H-Phi-ret-R-independent-of-source-and-background", SBool(not bad), kind="frame", cls="lemma",
                       props={"C04", "C06"}, meta={"mentions": bad})
            # footprint mode: the spectrum does not mention the flux VALUES at all
            cfgf, inpf, spf = mk(run, True, an, tag="f")
            Pf, Qf = spf.spectra(None)
            kf, jf, i_f, rngf = bins(run, spf, inpf)
            sy = set()
            deps.value_symbols(Pf.at(kf, jf, i_f), sy)
            deps.value_symbols(Qf.at(kf, jf, i_f), sy)
            run.oblige("frame.footprint-independent-of-flux-values", SBool(not any(s.startswith("q0") for s in sy)), kind="frame",
                       cls="lemma", props={"C04"})
        ctx.explore("lemma.C04[%s]" % an, t_c04, {"C04", "C06"})

    # ------------------------------------------------------------------ C02 / C06
    def t_c02(run):
        run.scope = "lemma.C02-C06"
        for an in (False, True):
            cfg, A, spA = mk(run, True, an, tag="A")
            cfgB = S.Config(False, an, "value", "seq")
            B = S.SInputs(run, cfgB, tag="B")
            for a in ("nx", "ny", "nz", "z", "prof", "xmx", "ymx", "nlx", "nly", "nlvls", "lev_at", "levels", "halo"):
                setattr(B, a, getattr(A, a))
            spB = S.Spec(run, B, spA.px, spA.py)
            k, j, i, rng = bins(run, spA, A)
            tag = "analytic" if an else "numeric"
            ha, hb = spA.H(A.lev_at(k), j, i), spB.H(A.lev_at(k), j, i)
            eq(run, "H-same-both-modes.Hp[%s]" % tag, ha[0], hb[0], {"C02"}, rng)
            eq(run, "H-same-both-modes.Hq[%s]" % tag, ha[1], hb[1], {"C02"}, rng)
            run.oblige("retained-same-both-modes[%s]" % tag, spA.retained(j, i) == spB.retained(j, i), kind="lemma", cls="lemma",
                       props={"C02"}, assuming=rng)
            # footprint source is the unit cell source: 1/N on every bin
            eq(run, "footprint-source-is-flat[%s]" % tag, spA.source(j, i, None), Cx(Num(1) / (spA.nxe * spA.nye), 0), {"C02", "C03"}, rng)
            # phase offset is the padded offset P = (px*dx, py*dy): cis(kappa.(r_m + P))
            ph = transc.cis(spA.kx(i) * (A.xm + spA.px * spA.dx) + spA.ky(j) * (A.ym + spA.py * spA.dy))
            eq(run, "footprint-phase-uses-padded-offset[%s]" % tag, spA.phase(j, i), ph, {"C02", "C06"}, rng)
        # whole-cell shifts are integer multiples of the bin angle (C06)
        cfg, A, sp = mk(run, True, False, tag="w")
        s = sym.fresh_int("cells")
        i = sym.fresh_int("i")
        rng = [(i >= 0) & (i < sp.nxe)]
        eq(run, "whole-cell-phase-x", sp.kx(i) * (s * sp.dx), sp.two_pi * S.sf(i, sp.nxe) * s / sp.nxe, {"C06"}, rng)
        j = sym.fresh_int("j")
        eq(run, "whole-cell-phase-y", sp.ky(j) * (s * sp.dy), sp.two_pi * S.sf(j, sp.nye) * s / sp.nye, {"C06"}, [(j >= 0) & (j < sp.nye)])
        # dispersion re-centring: centre cell nx//2 of an even grid nx = 2h is at xmx/2
        h = sym.fresh_int("half")
        run.assume(h >= 1)
        eq(run, "centre-cell-x", ((2 * h) // 2) * (A.xmx / (2 * h)), A.xmx / 2, {"C06"})
        # frame: H independent of the measurement point
        k, j2, i2, rng2 = bins(run, sp, A)
        sy = set()
        deps.value_symbols(sp.H(A.lev_at(k), j2, i2), sy)
        mp = {str(A.xm.t), str(A.ym.t)}
        run.oblige("frame.H-independent-of-measurement-point", SBool(not (sy & mp)), kind="frame",
                   cls="lemma", props={"C06"})
    ctx.explore("lemma.C02-C06", t_c02, {"C02", "C06", "C03"})

    # ------------------------------------------------------------------ C10 / C11
    def t_c10(run):
        run.scope = "lemma.C10-C11"
        for fp in (True, False):
            for an in (False, True):
                cfg, A, spA = mk(run, fp, an, tag="A")
                T0 = None if fp else FakeT("Shat", [spA.nye, spA.nxe])
                PA, QA = spA.spectra(T0)
                k, j, i, rng = bins(run, spA, A)
                # single-level request for levels[k]
                cfgB = S.Config(fp, an, "value", "scalar")
                B = S.SInputs(run, cfgB, tag="B")
                for a in ("nx", "ny", "nz", "z", "prof", "xmx", "ymx", "nlx", "nly", "halo", "xm", "ym", "p000"):
                    setattr(B, a, getattr(A, a))
                lk = A.lev_at(k)
                B.level, B.levels, B.lev_at = lk, lk, (lambda kk: lk)
                spB = S.Spec(run, B, spA.px, spA.py)
                PB, QB = spB.spectra(T0)
                tag = ("fp" if fp else "disp") + "|" + ("analytic" if an else "numeric")
                eq(run, "multi-vs-single.flux[%s]" % tag, QA.at(k, j, i), QB.at(0, j, i), {"C10"}, rng)
                eq(run, "multi-vs-single.conc[%s]" % tag, PA.at(k, j, i), PB.at(0, j, i), {"C10"}, rng)
                # low-pass: fewer modes only remove bins; inside both cut-offs nothing changes
                C = S.SInputs(run, S.Config(fp, an, "value", "seq"), tag="C")
                for a in ("nx", "ny", "nz", "z", "prof", "xmx", "ymx", "halo", "xm", "ym", "p000", "nlvls", "lev_at", "levels"):
                    setattr(C, a, getattr(A, a))
                run.assume((C.nlx % 2 == 0) & (C.nly % 2 == 0))
                spC = S.Spec(run, C, spA.px, spA.py)
                PC, QC = spC.spectra(T0)
                both = [spA.retained(j, i), spC.retained(j, i)]
                eq(run, "low-pass.flux[%s]" % tag, QA.at(k, j, i), QC.at(k, j, i), {"C11"}, rng + both)
                eq(run, "low-pass.conc[%s]" % tag, PA.at(k, j, i), PC.at(k, j, i), {"C11"}, rng + both)
                eq(run, "low-pass.removed-bins-are-zero[%s]" % tag, QA.at(k, j, i), Cx(0, 0), {"C11"}, rng + [sym.Not(spA.retained(j, i))])
                # clamp per axis: more modes than the padded grid holds == exactly as many
                D = S.SInputs(run, S.Config(fp, an, "value", "seq"), tag="D")
                for a in ("nx", "ny", "nz", "z", "prof", "xmx", "ymx", "halo", "xm", "ym", "p000", "nlvls", "lev_at", "levels", "nly"):
                    setattr(D, a, getattr(A, a))
                D.nlx = spA.nxe
                spD = S.Spec(run, D, spA.px, spA.py)
                PD, QD = spD.spectra(T0)
                eq(run, "clamp-x-per-axis[%s]" % tag, QA.at(k, j, i), QD.at(k, j, i), {"C11"}, rng + [A.nlx > spA.nxe])
    ctx.explore("lemma.C10-C11", t_c10, {"C10", "C11"})

    # ------------------------------------------------------------------ C05
    def t_c05(run):
        run.scope = "lemma.C05"
        # closed form q = q0*E, p = q/(Kz*lam), E' = -lam*E solves p' = -q/Kz, q' = T*p iff lam^2 = -T/Kz
        lam = sym.fresh_cx("lam")
        E = sym.fresh_cx("E")
        q0 = sym.fresh_cx("qhat0")
        Kz = sym.fresh_real("Kz")
        T = -(lam * lam) * Kz                  # lam^2 = -T/Kz
        q, dq = q0 * E, q0 * (-lam * E)        # chain rule on exp(-lam*h)
        p, dp = q / (Kz * lam), dq / (Kz * lam)
        eq(run, "closedform-solves-bvp.p'", dp, -q / Kz, {"C05"})
        eq(run, "closedform-solves-bvp.q'", dq, T * p, {"C05"})
        eq(run, "closedform-solves-bvp.top-condition", q, Kz * lam * p, {"C05", "C01"})
        # mean mode: p = p000 - q00*h/Kz has p' = -q00/Kz, q' = 0
    ctx.explore("lemma.C05", t_c05, {"C05", "C01"})

    # ------------------------------------------------------------------ C01: boundary conditions from SC
    def t_c01(run):
        run.scope = "lemma.C01"
        cfg, A, sp = mk(run, False, False)
        k, j, i, rng = bins(run, sp, A)
        Kzt = A.prof[4].at(sp.t)
        lam = sp.lam(j, i)
        Hp0, Hq0 = sp.H(Num(0), j, i)
        eq(run, "bc-bottom: Hq(z0) = 1 (prescribed surface flux)", Hq0, Cx(1, 0), {"C01"}, rng)
        Hpt, Hqt = sp.H(sp.t, j, i)
        eq(run, "bc-top: Hq(top) = Kz*lambda*Hp(top) (decaying continuation)", Hqt, Kzt * lam * Hpt, {"C01"}, rng)
        # eigenvalue: principal root of the TOP-node coefficients
        u, v, Kx, Ky, Kz = [a.at(sp.t) for a in A.prof]
        kx, ky = sp.kx(i), sp.ky(j)
        w = Cx(Kx * kx ** 2 + Ky * ky ** 2, u * kx + v * ky) / Kz
        eq(run, "eigenvalue-is-root-of-top-node-coefficients", lam, transc.sqrt(w), {"C01", "C05"}, rng)
    ctx.explore("lemma.C01", t_c01, {"C01", "C05"})
