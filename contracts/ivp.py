"""Contract IVP on bldfm.solver:ivp_solver (DESIGN 4.1).

  requires  len(profiles[*]) = len(z) = nz >= 1; fftp0, fftq0, Lx, Ly of one length nxy;
            0 <= levels[k] <= nz-1
  ensures   pointwise in the mode position c
            (fftpi, fftqi)[c]      = Prop(nz-1)[c] . (fftp0[c], fftq0[c])
            (fftp[k,c], fftq[k,c]) = Prop(levels[k])[c] . (fftp0[c], fftq0[c])   for every k,
                                     ANY order of levels, duplicates allowed
  ghost     Prop(0) = I,  Prop(i+1) = Step(i) . Prop(i)
            Step(i) = the 2x2 complex matrix the loop body applies, EXTRACTED from the code
            (obligation `linear`: the body's new state is Step(i).state with Step(i) free of
            the state), a function of (Lx[c], Ly[c], profiles at node i, z[i+1]-z[i]) only
            (obligation `step-reads`).
  lemmas on the extracted Step (C01/C05): order conditions against exp(dz.M),
            M = [[0, -1/Kz], [T, 0]],  T = -(Kx kx^2 + Ky ky^2) - i(u kx + v ky).
"""
from fractions import Fraction

import z3

from pyvc import sym, arrays, harness, loops, npshim
from pyvc.sym import Num, Cx, SBool, num
from pyvc.arrays import Arr, Axis

LABEL = "solver.ivp_solver"
I, R = z3.IntSort(), z3.RealSort()


def prop_entry(a, b, l, lx, ly):
    """Prop_ab(l; lx, ly): complex UF; identity at l = 0."""
    l = num(l)
    if l.concrete and l.t == 0:
        return Cx(1, 0) if a == b else Cx(0, 0)
    fr = z3.Function("Prop%d%d_re" % (a, b), I, R, R, R)
    fi = z3.Function("Prop%d%d_im" % (a, b), I, R, R, R)
    args = (l.z(), num(lx).zr(), num(ly).zr())
    return Cx(Num(fr(*args), True), Num(fi(*args), True))


def prop_apply(l, lx, ly, p0, q0):
    P11, P12 = prop_entry(1, 1, l, lx, ly), prop_entry(1, 2, l, lx, ly)
    P21, P22 = prop_entry(2, 1, l, lx, ly), prop_entry(2, 2, l, lx, ly)
    return P11 * p0 + P12 * q0, P21 * p0 + P22 * q0


class Inputs:
    def __init__(self, run):
        self.nz = sym.fresh_int("nz")
        self.nxy = sym.fresh_int("nxy")
        self.nlvls = sym.fresh_int("nlvls")
        run.assume((self.nz >= 1) & (self.nxy >= 1) & (self.nlvls >= 1))
        self.p0 = arrays.fresh_array("fftp0", [self.nxy], "complex")
        self.q0 = arrays.fresh_array("fftq0", [self.nxy], "complex")
        self.prof = tuple(arrays.fresh_array(n, [self.nz], "float") for n in ("u", "v", "Kx", "Ky", "Kz"))
        self.z = arrays.fresh_array("z", [self.nz], "float")
        lv = arrays.fresh_array("levels", [self.nlvls], "int")
        nz, nl = self.nz, self.nlvls
        raw = lv._fn

        def lev(k):
            v = raw(k)
            run.assume(((k >= 0) & (k < nl)).implies((v >= 0) & (v <= nz - 1)))
            return v
        lv._fn = lev
        self.levels = lv
        self.Lx = arrays.fresh_array("Lx", [self.nxy], "float")
        self.Ly = arrays.fresh_array("Ly", [self.nxy], "float")

    def args(self):
        return ((self.p0, self.q0), self.prof, self.z, self.levels, self.Lx, self.Ly)

    def spec_state(self, l):
        """(p, q) arrays = Prop(l) . init, pointwise."""
        def fp(c):
            return prop_apply(l, self.Lx.at(c), self.Ly.at(c), self.p0.at(c), self.q0.at(c))[0]

        def fq(c):
            return prop_apply(l, self.Lx.at(c), self.Ly.at(c), self.p0.at(c), self.q0.at(c))[1]
        return Arr([Axis(self.nxy)], fp, "complex"), Arr([Axis(self.nxy)], fq, "complex")

    def spec_levels(self, upto, top=None):
        """out[k,c] = Prop(levels[k]).init if levels[k] < upto (or == top), else 0."""
        def mk(which):
            def f(k, c):
                l = self.levels.at(k)
                v = prop_apply(l, self.Lx.at(c), self.Ly.at(c), self.p0.at(c), self.q0.at(c))[which]
                cond = l < upto
                return sym.ite(cond, v, Cx(0, 0))
            return Arr([Axis(self.nlvls), Axis(self.nxy)], f, "complex")
        return mk(0), mk(1)


class Outer(loops.Constructive):
    """for i in range(nz-1): state = Prop(i).init; out[k] = Prop(levels[k]).init for levels[k] < i."""
    state_names = ("fftpi", "fftqi", "fftp", "fftq")

    def __init__(self, inp, props):
        self.inp = inp
        self.props = props
        self.cur_i = None
        self.cur = None

    def state_at(self, ctl, i):
        p, q = self.inp.spec_state(i)
        fp, fq = self.inp.spec_levels(i)
        return {"fftpi": p, "fftqi": q, "fftp": fp, "fftq": fq}

    def iter_state(self, ctl, i):
        st = self.state_at(ctl, i)
        self.cur_i, self.cur = i, st
        return st

    def on_step(self, ctl, new):
        # fftpi/fftqi at i+1 DEFINE Prop(i+1) (ghost unfolding; linearity and the shape of the
        # step are separate obligations); the level bookkeeping is checked.
        st = self.state_at(ctl, ctl.i + 1)
        for k in ("fftp", "fftq"):
            loops.oblige_equal(ctl.run, ctl.label("step." + k), new[k], st[k], kind="inv-step", props=self.props)

    def exit_state(self, ctl):
        st = self.state_at(ctl, ctl.n)
        self.cur_i, self.cur = ctl.n, st
        return st


class Inner(loops.Constructive):
    """for k in range(nlvls): out[k'] = state if (k' < k and levels[k'] == i) else before."""
    state_names = ("fftp", "fftq")

    def __init__(self, outer, props):
        self.outer = outer
        self.props = props

    def state_at(self, ctl, k):
        o = self.outer
        inp = o.inp
        i = o.cur_i
        res = {}
        for name, cur in (("fftp", o.cur["fftpi"]), ("fftq", o.cur["fftqi"])):
            pre = ctl.pre[name]

            def f(kk, c, pre=pre, cur=cur):
                return sym.ite((kk < k) & (inp.levels.at(kk) == i), cur.at(c), pre.at(kk, c))
            res[name] = Arr(pre.axes, f, "complex")
        return res


# loop selectors (frontend.resolve_loop_selectors): the marching loop assigns the running state fftpi, the
# level loop inside it is the innermost loop that stores into fftp, the final level loop stores fftp only
IVP_LOOPS = ("outer:fftpi|nest:0", "inner:fftp|nest:0.0", "outer:fftp!fftpi|nest:1")


def _loop_specs(inp, props):
    outer = Outer(inp, props)
    return {IVP_LOOPS[0]: outer, IVP_LOOPS[1]: Inner(outer, props), IVP_LOOPS[2]: Inner(outer, props)}, outer


def compile_ivp(ctx, ns, specs):
    np_ = npshim.NP()
    ns.update({"np": np_})
    return harness.define(ctx, ns, "bldfm.solver", "ivp_solver", loop_specs=specs, label=LABEL if specs else LABEL + "/unrolled")


def generate_bookkeeping(ctx, props):
    """C10 (+C01/C03/C04 callers rely on it): level bookkeeping and the Prop form."""
    if not ctx.wants(props):
        return
    ns = harness.namespace("bldfm.solver")
    holder = {}

    class Proxy:
        # loop specs must exist at compile time but depend on per-run inputs
        def __init__(self, k):
            self.k = k
            self.state_names = Outer.state_names if k == IVP_LOOPS[0] else Inner.state_names

        def __getattr__(self, a):
            return getattr(holder["specs"][self.k], a)
    f = compile_ivp(ctx, ns, {k: Proxy(k) for k in IVP_LOOPS})

    def thunk(run):
        inp = Inputs(run)
        holder["specs"], outer = _loop_specs(inp, props)
        run.scope = LABEL
        run.props = set(props)
        run.cover("pre")
        out = harness.call(run, f, *inp.args())
        pi, qi, p, q = out.value
        t = inp.nz - 1
        sp, sq = inp.spec_state(t)
        loops.oblige_equal(run, "top.fftpi", pi, sp, kind="post")
        loops.oblige_equal(run, "top.fftqi", qi, sq, kind="post")
        # every requested level, any order: slice k is the state at node levels[k]
        lp, lq = inp.spec_levels(inp.nz)   # levels[k] <= nz-1 < nz: always the Prop branch
        loops.oblige_equal(run, "levels.fftp", p, lp, kind="post")
        loops.oblige_equal(run, "levels.fftq", q, lq, kind="post")
    ctx.explore(LABEL + ":bookkeeping", thunk, props)


def generate(ctx):
    # every property that uses the contract IVP at the two call sites in S re-verifies it in its own run
    generate_bookkeeping(ctx, {"C01", "C02", "C03", "C04", "C05", "C06", "C07", "C10", "C11", "C12", "C15"})


# =========================================================================== mode B: Step
class StepExtract:
    """Loop contract used to EXTRACT the step matrix: iteration state = free atoms."""

    def __init__(self, inp, props, sink):
        self.inp, self.props, self.sink = inp, props, sink
        self.cur_i, self.cur = None, None

    def on_enter(self, ctl):
        pass

    def state_at(self, ctl, i):
        # only used to match the roles of renamed locals (engine.LoopCtl._match_roles): the marching state starts as the
        # initial pair, the level arrays start empty
        p, q = self.inp.spec_state(i)
        fp, fq = self.inp.spec_levels(i)
        return {"fftpi": p, "fftqi": q, "fftp": fp, "fftq": fq}

    def iter_state(self, ctl, i):
        inp = self.inp
        self.p = arrays.fresh_array("st_p", [inp.nxy], "complex")
        self.q = arrays.fresh_array("st_q", [inp.nxy], "complex")
        st = {"fftpi": self.p, "fftqi": self.q,
              "fftp": arrays.fresh_array("st_fp", [inp.nlvls, inp.nxy], "complex"),
              "fftq": arrays.fresh_array("st_fq", [inp.nlvls, inp.nxy], "complex")}
        self.cur_i, self.cur = i, st
        return st

    def on_step(self, ctl, new):
        run, inp = ctl.run, self.inp
        c = sym.fresh_int("c")
        rng = [(c >= 0) & (c < inp.nxy)]
        p, q = self.p.at(c), self.q.at(c)
        np_, nq_ = sym.cx(new["fftpi"].at(c)), sym.cx(new["fftqi"].at(c))
        atoms = [p.re.t, p.im.t, q.re.t, q.im.t]

        def sub(t, vals):
            t = num(t)
            if t.concrete:
                return t
            return Num(z3.substitute(t.t, *[(a, z3.RealVal(v)) for a, v in zip(atoms, vals)]), True)

        def col(v, vals):
            return Cx(sub(v.re, vals), sub(v.im, vals))
        # entries: A = new_p[p:=1,q:=0], B = new_p[p:=0,q:=1], ...
        A, B = col(np_, (1, 0, 0, 0)), col(np_, (0, 0, 1, 0))
        C, D = col(nq_, (1, 0, 0, 0)), col(nq_, (0, 0, 1, 0))
        LP = {"C01", "C04", "C05", "C07"}
        run.oblige("linear.p", loops.scalar_eq(np_, A * p + B * q), kind="post", view="value", assuming=rng, props=LP)
        run.oblige("linear.q", loops.scalar_eq(nq_, C * p + D * q), kind="post", view="value", assuming=rng, props=LP)
        self.sink.update({"A": A, "B": B, "C": C, "D": D, "i": ctl.i, "c": c, "pc": list(run.pc), "rng": rng})
        order_obligations(run, inp, self.sink)

    def exit_state(self, ctl):
        st = self.iter_state(ctl, ctl.n)
        return st


class Anything(loops.Constructive):
    """Inner loops are irrelevant for the step extraction: level slices become free."""

    def __init__(self, outer):
        self.outer = outer

    def on_enter(self, ctl):
        pass

    def iter_state(self, ctl, k):
        return {n: arrays.fresh_like(sym.fresh_name("any_" + n), ctl.pre[n]) for n in ("fftp", "fftq")}

    def on_step(self, ctl, new):
        pass

    def exit_state(self, ctl):
        return self.iter_state(ctl, ctl.n)


def order_obligations(run, inp, sk):
    """Order conditions of the extracted step against exp(h.M) (C05: orders 0..3 with frozen
    coefficients; C01: orders 0..1 with any in-layer sampling), and the frame `step-reads`."""
    from pyvc import stepalg
    i, c = sk["i"], sk["c"]
    prof = {n: a for n, a in zip(("u", "v", "Kx", "Ky", "Kz"), inp.prof)}
    here = {n: a.at(i) for n, a in prof.items()}
    nxt = {n: a.at(i + 1) for n, a in prof.items()}
    z0, z1 = inp.z.at(i), inp.z.at(i + 1)
    lx, ly = inp.Lx.at(c), inp.Ly.at(c)
    spec = dict(here=here, nxt=nxt, z0=z0, z1=z1, lx=lx, ly=ly,
                entries={k: sk[k] for k in "ABCD"})
    for order in (0, 1, 2, 3):
        for e in "ABCD":
            props = {"C05"} | ({"C01"} if order <= 1 else set())
            run.oblige_custom("order%d.%s" % (order, e.lower()),
                              (lambda spec=spec, order=order, e=e: stepalg.check_order(spec, order, e)),
                              kind="lemma", props=props)
    run.oblige_custom("step-reads", lambda spec=spec: stepalg.check_reads(spec), kind="frame",
                      props={"C01", "C05", "C12"})
    for which in ("mirror-x", "mirror-y", "swap", "length", "speed"):
        run.oblige_custom("symmetry." + which, (lambda spec=spec, which=which: stepalg.check_symmetry(spec, which)),
                          kind="rel", props={"C07"})


def generate_step(ctx, props):
    if not ctx.wants(props):
        return
    ns = harness.namespace("bldfm.solver")
    holder = {}

    class Proxy:
        def __init__(self, k):
            self.k = k
            self.state_names = Outer.state_names if k == IVP_LOOPS[0] else Inner.state_names

        def __getattr__(self, a):
            return getattr(holder["specs"][self.k], a)
    f = compile_ivp(ctx, ns, {k: Proxy(k) for k in IVP_LOOPS})

    def thunk(run):
        inp = Inputs(run)
        sink = {}
        outer = StepExtract(inp, props, sink)
        holder["specs"] = {IVP_LOOPS[0]: outer, IVP_LOOPS[1]: Anything(outer), IVP_LOOPS[2]: Anything(outer)}
        run.scope = LABEL
        run.props = set(props)
        harness.call(run, f, *inp.args())
    ctx.explore(LABEL + ":step", thunk, props)


def generate(ctx):  # noqa: F811
    # every property that uses the contract IVP at the two call sites in S re-verifies it in its own run
    generate_bookkeeping(ctx, {"C01", "C02", "C03", "C04", "C05", "C06", "C07", "C10", "C11", "C12", "C15"})
    generate_step(ctx, {"C01", "C04", "C05", "C07", "C12"})


# ================================================= bounded-unrolled symbolic check (labelled bounded)
def generate_unrolled(ctx, props, nz=3, nlv=2):
    """Structure-independent complement of the loop-invariant proof, for a FIXED small number of nodes and
    levels but symbolic level values, orders, profiles, wavenumbers and initial states: slice k of a
    multi-level call equals what the single-level call for levels[k] returns (C10's own statement), and the
    single-level call for the top node returns the final state.  The loops run natively (concrete ranges), so
    any loop structure is accepted.  Reported under `bounded`, never counted as proved."""
    if not ctx.wants(props):
        return
    ns = harness.namespace("bldfm.solver")
    f = compile_ivp(ctx, ns, None)

    def thunk(run):
        run.scope = LABEL + "[unrolled nz=%d,nlvls=%d]" % (nz, nlv)
        run.props = set(props)
        nxy = sym.fresh_int("nxy")
        run.assume(nxy >= 1)
        p0 = arrays.fresh_array("fftp0", [nxy], "complex")
        q0 = arrays.fresh_array("fftq0", [nxy], "complex")
        prof = tuple(arrays.fresh_array(n, [nz], "float") for n in ("u", "v", "Kx", "Ky", "Kz"))
        z = arrays.fresh_array("z", [nz], "float")
        Lx, Ly = arrays.fresh_array("Lx", [nxy], "float"), arrays.fresh_array("Ly", [nxy], "float")
        lv = [sym.fresh_int("lev%d" % k) for k in range(nlv)]
        for l in lv:
            run.assume((l >= 0) & (l <= nz - 1))
        for a in range(nlv):
            for b in range(a + 1, nlv):
                run.assume(lv[a] != lv[b])      # "any subset and any order": distinct levels
        levels = arrays.from_list(lv)
        pi, qi, P, Q = harness.call(run, f, (p0, q0), prof, z, levels, Lx, Ly).value
        c = sym.fresh_int("c")
        rng = [(c >= 0) & (c < nxy)]
        for k in range(nlv):
            spi, sqi, SP, SQ = harness.call(run, f, (p0, q0), prof, z, arrays.from_list([lv[k]]), Lx, Ly).value
            for nm, a, b in (("p", P, SP), ("q", Q, SQ)):
                ob = run.oblige("multi-level slice %d == single-level request (%s)" % (k, nm), loops.scalar_eq(a.at(k, c), b.at(0, c)),
                                kind="post", view="value", assuming=rng, meta={"bounded": "nz=%d, nlvls=%d" % (nz, nlv)})
        tp, tq, TP, TQ = harness.call(run, f, (p0, q0), prof, z, arrays.from_list([Num(nz - 1)]), Lx, Ly).value
        run.oblige("single-level request for the top node returns the final state (p)", loops.scalar_eq(TP.at(0, c), tp.at(c)), kind="post",
                   view="value", assuming=rng, meta={"bounded": "nz=%d" % nz})
        run.oblige("single-level request for the top node returns the final state (q)", loops.scalar_eq(TQ.at(0, c), tq.at(c)), kind="post",
                   view="value", assuming=rng, meta={"bounded": "nz=%d" % nz})
    ctx.explore(LABEL + ":unrolled", thunk, props, max_paths=2000)


_generate_inv = generate


def generate(ctx):  # noqa: F811
    _generate_inv(ctx)
    generate_unrolled(ctx, {"C10", "C01"})
