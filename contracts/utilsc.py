def generate(ctx):
    pass
