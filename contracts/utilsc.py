"""Contracts on bldfm.utils: compute_wind_fields (C08), point_measurement (C02),
get_source_area and the source_area_* base functions (C20)."""
import z3

from pyvc import sym, arrays, harness, loops, npshim, transc
from pyvc.sym import Num, Cx, SBool, num, ite
from pyvc.arrays import Arr, Axis

MOD = "bldfm.utils"


def namespace(ctx):
    ns = harness.namespace(MOD)
    ns["np"] = npshim.NP()
    return ns


def generate_wind(ctx):
    P = {"C08"}
    if not ctx.wants(P):
        return
    ns = namespace(ctx)
    f = harness.define(ctx, ns, MOD, "compute_wind_fields")

    def thunk(run):
        run.scope = "utils.compute_wind_fields"
        s, th = sym.fresh_real("speed"), sym.fresh_real("wind_dir")
        u, v = f(s, th)
        pi = transc.PI()
        rad = th * pi / 180
        # meteorological convention (from the statement): direction clockwise from north the wind
        # blows FROM; unit vector toward the source (sin, cos) in (east, north); wind = -speed * that
        loops.oblige_equal(run, "u", u, -s * transc.sin(rad), kind="post", props=P)
        loops.oblige_equal(run, "v", v, -s * transc.cos(rad), kind="post", props=P)
        # speed preserved: Pythagoras instance sin^2 + cos^2 = 1 at rad
        S_, C_ = sym.fresh_real("sinv"), sym.fresh_real("cosv")
        run.oblige("lemma.speed-preserved", (S_ * S_ + C_ * C_ == 1).implies((-s * S_) * (-s * S_) + (-s * C_) * (-s * C_) == s * s),
                   kind="lemma", cls="lemma", props=P)
        # cardinal directions from the exact values of sin/cos at multiples of pi/2 (A8 instances)
        for deg, (sv, cv), toward in ((0, (0, 1), "south"), (90, (1, 0), "west"), (180, (0, -1), "north"), (270, (-1, 0), "east")):
            uu, vv = -s * sv, -s * cv
            want = {"south": (Num(0), -s), "west": (-s, Num(0)), "north": (Num(0), s), "east": (s, Num(0))}[toward]
            run.oblige("lemma.cardinal-%d-blows-toward-%s" % (deg, toward), loops.scalar_eq(uu, want[0]) & loops.scalar_eq(vv, want[1]),
                       kind="lemma", cls="lemma", props=P)
    ctx.explore("utils.compute_wind_fields", thunk, P)

    def thunk_arr(run):
        run.scope = "utils.compute_wind_fields[arrays]"
        pi = transc.PI()
        # array arguments: the scalar contract holds elementwise
        n = sym.fresh_int("n")
        run.assume(n >= 1)
        sa, ta = arrays.fresh_array("speeds", [n], "float"), arrays.fresh_array("dirs", [n], "float")
        ua, va = f(sa, ta)
        loops.oblige_equal(run, "elementwise.u", ua, Arr([Axis(n)], lambda k: -sa.at(k) * transc.sin(ta.at(k) * pi / 180), "float"), kind="post", props=P)
        loops.oblige_equal(run, "elementwise.v", va, Arr([Axis(n)], lambda k: -sa.at(k) * transc.cos(ta.at(k) * pi / 180), "float"), kind="post", props=P)
    ctx.explore("utils.compute_wind_fields[arrays]", thunk_arr, P)


def generate_point(ctx):
    P = {"C02"}
    if not ctx.wants(P):
        return
    ns = namespace(ctx)
    f = harness.define(ctx, ns, MOD, "point_measurement")

    def thunk(run):
        run.scope = "utils.point_measurement"
        ny, nx = sym.fresh_int("ny"), sym.fresh_int("nx")
        run.assume((ny >= 1) & (nx >= 1))
        a, b = arrays.fresh_array("f", [ny, nx], "float"), arrays.fresh_array("g", [ny, nx], "float")
        r = f(a, b)
        sums = run.__dict__.get("sums", [])
        run.oblige("returns-one-total", SBool(len(sums) == 1 and r is sums[0][1]), kind="post", props=P, meta={"structural": True})
        if len(sums) == 1:
            loops.oblige_equal(run, "total-of-the-pointwise-product", sums[0][0],
                               Arr(a.axes, lambda j, i: a.at(j, i) * b.at(j, i), "float"), kind="post", props=P)
    ctx.explore("utils.point_measurement", thunk, P)


def generate_source_area(ctx):
    P = {"C20"}
    if not ctx.wants(P):
        return
    ns = namespace(ctx)
    f = harness.define(ctx, ns, MOD, "get_source_area")

    for shape in ("2d", "1d", "1d-integer-g"):
        def thunk(run, shape=shape):
            run.scope = "utils.get_source_area[%s]" % shape
            if shape == "2d":
                ny, nx = sym.fresh_int("ny"), sym.fresh_int("nx")
                run.assume((ny >= 1) & (nx >= 1))
                F, G = arrays.fresh_array("f", [ny, nx], "float"), arrays.fresh_array("g", [ny, nx], "float")
            else:
                n1 = sym.fresh_int("n")
                run.assume(n1 >= 1)
                # "any base field g": an integer-typed g must not truncate the sums
                F, G = arrays.fresh_array("f", [n1], "float"), arrays.fresh_array("g", [n1], "int" if "integer" in shape else "float")
            out = harness.call(run, f, F, G).value
            ff, gf = F.ravel(), G.ravel()
            n = gf.axes[0].size
            run.assume(n >= 1)
            perms = run.__dict__.get("perms", [])
            ghosts = run.__dict__.get("prefix_ghosts", [])
            run.oblige("one-sort-one-cumulative-sum", SBool(len(perms) == 1 and len(ghosts) == 1), kind="post", props=P, meta={"structural": True})
            if len(perms) != 1 or len(ghosts) != 1:
                return
            pi = perms[0]
            # shape
            run.oblige("shape-of-g", SBool(out.ndim == G.ndim) & sym.And(*[a.size == b.size for a, b in zip(out.axes, G.axes)]),
                       kind="post", props=P)
            of = out.ravel()
            # rank form: ord[r] = pi[n-1-r] (descending g); out.flat[ord[r]] = sum_{t<r} f.flat[ord[t]]
            ordr = lambda r: pi.at(n - 1 - num(r))  # noqa: E731
            gh = ghosts[0]
            # the array that is cumulated is f in descending-g order
            loops.oblige_equal(run, "cumulated-array-is-f-in-descending-g-order", gh["array"],
                               Arr([Axis(n)], lambda t: ff.at(ordr(t)), "float"), kind="post", props=P)
            # sort key is g itself (ascending argsort of g.flat, then reversed)
            r = sym.fresh_int("r")
            rng = [(r >= 0) & (r < n)]
            run.oblige("descending-in-g", ((r + 1 < n)).implies(num(gf.at(ordr(r))) >= num(gf.at(ordr(r + 1)))), kind="post", props=P,
                       assuming=rng + [pi.sorted_fact(n - 2 - r)])
            run.oblige("rank-form: value at the r-th highest cell is the sum of f over the r cells ranked above it (exclusive)",
                       loops.scalar_eq(of.at(ordr(r)), gh["prefix"](r)), kind="post", props=P, view="value", assuming=rng)
            # ---- consequences (lemmas over the rank form)
            fr = lambda t: num(ff.at(ordr(t)))  # noqa: E731
            pre = gh["prefix"]
            run.oblige("lemma.prefix-monotone (f >= 0): step", ((fr(r) >= 0) & (pre(r + 1) == pre(r) + fr(r))).implies(pre(r + 1) >= pre(r)),
                       kind="lemma", cls="lemma", props=P, assuming=rng)
            run.oblige("lemma.prefix-nonnegative: induction step", ((pre(r) >= 0) & (fr(r) >= 0) & (pre(r + 1) == pre(r) + fr(r))).implies(pre(r + 1) >= 0),
                       kind="lemma", cls="lemma", props=P, assuming=rng)
            run.oblige("lemma.prefix-nonnegative: base", pre(Num(0)) == 0, kind="lemma", cls="lemma", props=P)
            # rank vs set: a strictly larger g is ranked strictly earlier (contrapositive of sortedness, adjacent instance)
            run.oblige("lemma.rank-vs-set (adjacent): later rank => g not larger",
                       (r + 1 < n).implies(sym.Not(num(gf.at(ordr(r + 1))) > num(gf.at(ordr(r))))), kind="lemma", cls="lemma", props=P,
                       assuming=rng + [pi.sorted_fact(n - 2 - r)])
            run.cover("path")
        ctx.explore("utils.get_source_area[%s]" % shape, thunk, P)

    # ---- base functions: formulas and shapes
    def t_base(run):
        run.scope = "utils.source_area_*"
        ny, nx = sym.fresh_int("ny"), sym.fresh_int("nx")
        run.assume((ny >= 1) & (nx >= 1))
        X, Y = arrays.fresh_array("X", [ny, nx], "float"), arrays.fresh_array("Y", [ny, nx], "float")
        xm, ym, u, v = [sym.fresh_real(n) for n in ("xm", "ym", "u", "v")]
        fns = {n: harness.define(ctx, ns, MOD, n) for n in ("source_area_contribution", "source_area_circular", "source_area_upwind", "source_area_crosswind", "source_area_sector")}
        mk = lambda fn: Arr(X.axes, fn, "float")  # noqa: E731
        dx = lambda j, i: X.at(j, i) - xm  # noqa: E731
        dy = lambda j, i: Y.at(j, i) - ym  # noqa: E731
        sp = transc.sqrt(u * u + v * v)
        flx = arrays.fresh_array("flx", [ny, nx], "float")
        gc = fns["source_area_contribution"](flx)
        loops.oblige_equal(run, "contribution: g = flx", gc, flx, kind="post", props=P)
        run.oblige("contribution: a copy, not the footprint array itself", SBool(gc is not flx), kind="post", props=P)
        loops.oblige_equal(run, "circular: -r^2", fns["source_area_circular"](X, Y, (xm, ym)), mk(lambda j, i: -(dx(j, i) ** 2 + dy(j, i) ** 2)), kind="post", props=P)
        loops.oblige_equal(run, "upwind: u_hat . r", fns["source_area_upwind"](X, Y, (xm, ym), (u, v)),
                           mk(lambda j, i: u / sp * dx(j, i) + v / sp * dy(j, i)), kind="post", props=P)
        loops.oblige_equal(run, "crosswind: -(n_hat . r)^2", fns["source_area_crosswind"](X, Y, (xm, ym), (u, v)),
                           mk(lambda j, i: -((-(v / sp) * dx(j, i) + u / sp * dy(j, i)) ** 2)), kind="post", props=P)

        def sector(j, i):
            th = transc.arctan2(dy(j, i), dx(j, i)) - transc.arctan2(-v, -u)
            return -abs(transc.arctan2(transc.sin(th), transc.cos(th)))
        loops.oblige_equal(run, "sector: -|wrap(theta - theta_upwind)|", fns["source_area_sector"](X, Y, (xm, ym), (u, v)), mk(sector), kind="post", props=P)
    ctx.explore("utils.source_area_*", t_base, P)


def generate(ctx):
    generate_wind(ctx)
    generate_point(ctx)
    generate_source_area(ctx)
