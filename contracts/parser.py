"""C13 (parser part), C17 (tower local coordinates at configuration time): contracts on
bldfm.config_parser._parse_*, parse_config_dict, load_config, TowerConfig.compute_local_xy,
BLDFMConfig.__post_init__."""
import dataclasses

import z3

from pyvc import sym, harness, values, opaque, transc
from pyvc.sym import Num, SBool, SStr, num
from pyvc.opaque import Op, veq

PROPS = {"C13"}
MOD = "bldfm.config_parser"

SECTIONS = {
    "_parse_tower": ("TowerConfig", {"name": "str", "lat": "real", "lon": "real", "z_m": "real"}, ("name", "lat", "lon", "z_m")),
    "_parse_domain": ("DomainConfig", {"nx": "int", "ny": "int", "xmax": "real", "ymax": "real", "nz": "int", "modes": "pair",
                                       "halo": "real", "ref_lat": "real", "ref_lon": "real", "output_levels": "list",
                                       "full_output": "bool"}, ("nx", "ny", "xmax", "ymax", "nz")),
    "_parse_met": ("MetConfig", {"ustar": "real", "mol": "real", "wind_speed": "real", "wind_dir": "real", "z0": "real",
                                 "timestamps": "list"}, ()),
    "_parse_solver": ("SolverConfig", {"closure": "str", "precision": "str", "footprint": "bool", "surface_flux_shape": "str",
                                       "analytic": "bool", "src_loc": "pair"}, ()),
    "_parse_output": ("OutputConfig", {"format": "str", "directory": "str"}, ()),
    "_parse_parallel": ("ParallelConfig", {"num_threads": "int", "max_workers": "int", "use_cache": "bool"}, ()),
}


class MathShim:
    pi = transc.PI()

    @staticmethod
    def radians(x):
        return num(x) * transc.PI() / 180

    @staticmethod
    def degrees(x):
        return num(x) * 180 / transc.PI()

    @staticmethod
    def cos(x):
        return transc.cos(x)

    @staticmethod
    def sin(x):
        return transc.sin(x)


def namespace(ctx):
    ns = harness.namespace(MOD)
    ns["math"] = MathShim
    harness.define(ctx, ns, MOD, "latlon_to_xy")
    for c in ("TowerConfig", "DomainConfig", "MetConfig", "SolverConfig", "OutputConfig", "ParallelConfig", "BLDFMConfig"):
        harness.define(ctx, ns, MOD, c)
    for f in SECTIONS:
        harness.define(ctx, ns, MOD, f)
    harness.define(ctx, ns, MOD, "parse_config_dict")
    return ns


def raw_value(kind, name):
    if kind == "str":
        return SStr.fresh("raw_" + name)
    if kind == "real":
        return sym.fresh_real("raw_" + name)
    if kind == "int":
        return sym.fresh_int("raw_" + name)
    if kind == "bool":
        return sym.fresh_bool("raw_" + name)
    if kind == "pair":
        return [sym.fresh_real("raw_%s0" % name), sym.fresh_real("raw_%s1" % name)]
    if kind == "list":
        n = sym.fresh_int("raw_len_" + name)
        f = z3.Function("raw_el_" + name, z3.IntSort(), z3.RealSort())
        return values.SList(n, lambda k, f=f: Num(f(k.z()), True), name=name)
    raise AssertionError(kind)


def field_default(cls, name):
    for f in dataclasses.fields(cls):
        if f.name == name:
            if f.default is not dataclasses.MISSING:
                return f.default
            if f.default_factory is not dataclasses.MISSING:
                return f.default_factory()
    raise KeyError(name)


def generate_sections(ctx):
    if not ctx.wants(PROPS | {"C16", "C08"}):
        return
    ns = namespace(ctx)
    for fn, (clsname, keys, required) in SECTIONS.items():
        # the met section is also a link of C16: lists, scalars and timestamps reach MetConfig as written
        # ... and of C08: the wind direction and speed of the configuration-driven run are what the file says (a direction
        # of exactly 0 -- north -- included: seeded C08_3 replaced it by the default through `d.get("wind_dir") or 270.0`)
        PS = PROPS | {"C16", "C08"} if fn == "_parse_met" else PROPS
        if not ctx.wants(PS):
            continue
        optional = [k for k in keys if k not in required]
        presence_sets = [set(keys)] + [set(keys) - {k} for k in optional] + [set(required)]
        for ps in presence_sets:
            label = "all" if ps == set(keys) else ("required-only" if ps == set(required) and len(optional) > 1 else "without-" + ",".join(sorted(set(keys) - ps)))

            def thunk(run, fn=fn, clsname=clsname, keys=keys, ps=ps, label=label, PS=PS):
                run.scope = "config_parser.%s[%s]" % (fn, label)
                run.props = set(PS)
                d = {k: raw_value(keys[k], k) for k in keys if k in ps}
                out = harness.call(run, ns[fn], d)
                obj = out.value
                cls = ns[clsname]
                run.oblige("returns-" + clsname, SBool(isinstance(obj, cls)), kind="post")
                if not isinstance(obj, cls):
                    return
                for k in keys:
                    want = d[k] if k in d else field_default(cls, k)
                    got = getattr(obj, k)
                    if isinstance(want, list) and want and isinstance(got, tuple):
                        want = tuple(want)
                    run.oblige("field." + k, veq(got, want), kind="post")
            ctx.explore("config_parser.%s[%s]" % (fn, label), thunk, PS)
        if fn == "_parse_met":
            # time series: every forcing field given as a list of symbolic length (all lengths >= 0, incl. one-element
            # lists) reaches MetConfig as that list -- the parser neither reorders, unwraps nor broadcasts
            def thunk_series(run, clsname=clsname, keys=keys, PS=PS):
                run.scope = "config_parser._parse_met[series]"
                run.props = set(PS)
                d = {k: raw_value("list" if k != "z0" else "real", k) for k in keys}
                for k in keys:
                    if k != "z0":
                        run.assume(d[k].length >= 0)
                obj = harness.call(run, ns["_parse_met"], d).value
                cls = ns[clsname]
                run.oblige("returns-" + clsname, SBool(isinstance(obj, cls)), kind="post")
                if isinstance(obj, cls):
                    for k in keys:
                        got = getattr(obj, k)
                        run.oblige("series-field-is-the-given-list." + k, SBool(got is d[k]) | veq(got, d[k]), kind="post")
            ctx.explore("config_parser._parse_met[series]", thunk_series, PS)
    if not ctx.wants(PROPS):
        return
    for fn in ("_parse_solver", "_parse_output", "_parse_parallel"):
        clsname = SECTIONS[fn][0]

        def thunk_none(run, fn=fn, clsname=clsname):
            run.scope = "config_parser.%s[section-absent]" % fn
            obj = ns[fn](None)
            cls = ns[clsname]
            ok = isinstance(obj, cls)
            run.oblige("absent-section-gives-defaults", SBool(ok), kind="post")
            if ok:
                for f in dataclasses.fields(cls):
                    run.oblige("default." + f.name, veq(getattr(obj, f.name), field_default(cls, f.name)), kind="post")
        ctx.explore("config_parser.%s[none]" % fn, thunk_none, PROPS)


def generate_parse_config(ctx):
    if not ctx.wants(PROPS | {"C17", "C16", "C08"}):
        return
    ns = namespace(ctx)

    def mk_raw(with_ref, drop=None, opt=True):
        tow = [{k: raw_value(v, "t%d_%s" % (j, k)) for k, v in SECTIONS["_parse_tower"][1].items()} for j in range(2)]
        dom = {k: raw_value(v, k) for k, v in SECTIONS["_parse_domain"][1].items()}
        if not with_ref:
            dom.pop("ref_lat")
        met = {k: raw_value(v, k) for k, v in SECTIONS["_parse_met"][1].items() if k != "timestamps"}
        raw = {"domain": dom, "towers": tow, "met": met}
        if opt:
            raw["solver"] = {k: raw_value(v, k) for k, v in SECTIONS["_parse_solver"][1].items()}
            raw["output"] = {k: raw_value(v, k) for k, v in SECTIONS["_parse_output"][1].items()}
            raw["parallel"] = {k: raw_value(v, k) for k, v in SECTIONS["_parse_parallel"][1].items()}
        if drop:
            raw.pop(drop)
        return raw

    for drop in ("domain", "towers", "met"):
        def t_missing(run, drop=drop):
            run.scope = "config_parser.parse_config_dict[missing-%s]" % drop
            out = harness.call(run, ns["parse_config_dict"], mk_raw(True, drop), raises=(ValueError,))
            run.oblige("missing-section-rejected", SBool(out.raised), kind="xpost")
        ctx.explore("parse_config_dict[missing-%s]" % drop, t_missing, PROPS)

    for with_ref in (True, False):
        for opt in (True, False):
            def t_ok(run, with_ref=with_ref, opt=opt):
                run.scope = "config_parser.parse_config_dict[ref=%s|optional-sections=%s]" % (with_ref, opt)
                run.props = PROPS | {"C17", "C16", "C08"}
                raw = mk_raw(with_ref, None, opt)
                validated = []
                orig_validate = ns["MetConfig"].validate

                def spy(self):
                    validated.append(self)
                    return orig_validate(self)
                ns["MetConfig"].validate = spy
                try:
                    out = harness.call(run, ns["parse_config_dict"], raw, raises=(ValueError,))
                finally:
                    ns["MetConfig"].validate = orig_validate
                if out.raised:
                    return  # rejected forcing: C16
                cfg = out.value
                run.oblige("validate-called-at-construction", SBool(len(validated) >= 1 and all(v is cfg.met for v in validated)), kind="post",
                           props={"C16", "C13"})
                for sec, fn in (("domain", "_parse_domain"), ("met", "_parse_met")):
                    want = ns[fn](raw[sec])
                    for f in dataclasses.fields(want):
                        run.oblige("%s.%s" % (sec, f.name), veq(getattr(getattr(cfg, sec), f.name), getattr(want, f.name)), kind="post",
                                   props={"C13"})
                for sec, fn in (("solver", "_parse_solver"), ("output", "_parse_output"), ("parallel", "_parse_parallel")):
                    want = ns[fn](raw.get(sec))
                    for f in dataclasses.fields(want):
                        run.oblige("%s.%s" % (sec, f.name), veq(getattr(getattr(cfg, sec), f.name), getattr(want, f.name)), kind="post",
                                   props={"C13"})
                run.oblige("towers.count-and-order", SBool(len(cfg.towers) == len(raw["towers"])), kind="post", props={"C13"})
                R = ns["_EARTH_RADIUS"]
                pi = transc.PI()
                for j, (tw, rt) in enumerate(zip(cfg.towers, raw["towers"])):
                    for k in ("name", "lat", "lon", "z_m"):
                        run.oblige("tower%d.%s" % (j, k), veq(getattr(tw, k), rt[k]), kind="post", props={"C13"})
                    if with_ref:
                        # local metres: x east, y north of the reference origin (C17)
                        rl, ro = raw["domain"]["ref_lat"], raw["domain"]["ref_lon"]
                        wx = R * (rt["lon"] * pi / 180 - ro * pi / 180) * transc.cos(rl * pi / 180)
                        wy = R * (rt["lat"] * pi / 180 - rl * pi / 180)
                        run.oblige("tower%d.local-x" % j, veq(tw.x, wx), kind="post", view="value", props={"C13", "C17", "C08"})
                        run.oblige("tower%d.local-y" % j, veq(tw.y, wy), kind="post", view="value", props={"C13", "C17", "C08"})
                    else:
                        run.oblige("tower%d.local-xy-default" % j, veq((tw.x, tw.y), (Num(0, True), Num(0, True))), kind="post",
                                   props={"C13"})
                run.cover("path")
            ctx.explore("parse_config_dict[ref=%s|opt=%s]" % (with_ref, opt), t_ok, PROPS | {"C17", "C16", "C08"})

    # load_config: YAML file and equivalent dictionary parse to the same configuration
    def t_load(run):
        run.scope = "config_parser.load_config"
        ns2 = harness.namespace(MOD)
        doc = Op("yaml-document", {})
        opened = []

        class P:
            def __init__(self, p):
                self.p = p

            def exists(self):
                return bool(sym.fresh_bool("file_exists"))

            def __format__(self, s):
                return "<path>"

        class F:
            def __enter__(self):
                return self

            def __exit__(self, *a):
                return False

        def _open(p, *a):
            opened.append(p)
            return F()
        ns2.update({"Path": P, "open": _open,
                    "yaml": values.Rec("yaml", safe_load=lambda f: Op("yaml.safe_load", {"file": opened[-1].p})),
                    "parse_config_dict": lambda raw: Op("parse_config_dict", {"raw": raw})})
        ns2["__builtins__"]["open"] = _open
        f = harness.define(ctx, ns2, MOD, "load_config")
        path = Op("input.path", {})
        out = harness.call(run, f, path, raises=(FileNotFoundError,))
        if out.raised:
            run.cover("path.missing-file")
            return
        want = Op("parse_config_dict", {"raw": Op("yaml.safe_load", {"file": path})})
        run.oblige("yaml-file-parses-as-its-dictionary", veq(out.value, want), kind="post")
    ctx.explore("config_parser.load_config", t_load, PROPS)


def generate(ctx):
    generate_sections(ctx)
    generate_parse_config(ctx)
