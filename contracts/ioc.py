"""C18: io.save_footprints_to_netcdf up to the xarray.Dataset(...) / to_netcdf call, and
load_footprints_from_netcdf.  The write/read itself (netCDF4, zlib, xarray decoding) is trusted
(identity on float64 variables/coordinates and string coordinates; bounded conformance in
bounded/C18.py).  Precondition taken from C14's postcondition: the results dictionary is keyed
by tower name in configuration order, every tower has n_time results of one shape."""
import z3

from pyvc import sym, arrays, harness, loops, npshim, values, opaque, frontend
from pyvc.sym import Num, SBool, SStr, num, ite
from pyvc.arrays import Arr, Axis
from pyvc.values import SList, SDict

P = {"C18"}
MOD = "bldfm.io"
I, R = z3.IntSort(), z3.RealSort()


class World:
    def __init__(self, run, dim3, forcing):
        self.nt, self.ntow = sym.fresh_int("n_time"), sym.fresh_int("n_towers")
        self.ny, self.nx, self.nzo = sym.fresh_int("ny"), sym.fresh_int("nx"), sym.fresh_int("nz_out")
        run.assume((self.nt >= 1) & (self.ntow >= 1) & (self.ny >= 2) & (self.nx >= 2) & (self.nzo >= 1))
        run.injective = {"tower_name"}
        self.dim3, self.forcing = dim3, forcing
        name_f = z3.Function("tower_name", I, SStr.sort())
        self.name = lambda k: SStr(name_f(num(k).z()))
        sp = [self.nzo, self.ny, self.nx] if dim3 else [self.ny, self.nx]
        fl = z3.Function("flx", *([I] * (2 + len(sp)) + [R]))
        co = z3.Function("conc", *([I] * (2 + len(sp)) + [R]))
        self.flx = lambda ti, t: Arr([Axis(s) for s in sp], lambda *c: Num(fl(num(ti).z(), num(t).z(), *[x.z() for x in c]), True), "float")
        self.conc = lambda ti, t: Arr([Axis(s) for s in sp], lambda *c: Num(co(num(ti).z(), num(t).z(), *[x.z() for x in c]), True), "float")
        self.X = arrays.fresh_array("X", sp, "float")
        self.Y = arrays.fresh_array("Y", sp, "float")
        self.Z = arrays.fresh_array("Z", sp, "float")
        ts = z3.Function("timestamp", I, I, SStr.sort())
        self.ts = lambda ti, t: SStr(ts(num(ti).z(), num(t).z()))
        met = {k: z3.Function("met_" + k, I, I, R) for k in ("ustar", "mol", "wind_speed", "wind_dir", "z0")}
        self.met = lambda k, ti, t: Num(met[k](num(ti).z(), num(t).z()), True)
        memo = {}

        def result(ti, t):
            key = (str(num(ti).t), str(num(t).t))
            if key not in memo:
                params = {"mol": self.met("mol", ti, t), "wind_speed": self.met("wind_speed", ti, t),
                          "wind_dir": self.met("wind_dir", ti, t), "timestamp": self.ts(ti, t),
                          "ustar": self.met("ustar", ti, t) if forcing != "z0" else None}
                if forcing != "ustar":
                    params["z0"] = self.met("z0", ti, t)
                memo[key] = {"grid": (self.X, self.Y, self.Z), "flx": self.flx(ti, t), "conc": self.conc(ti, t),
                             "tower_name": self.name(ti), "timestamp": self.ts(ti, t), "params": params}
            return memo[key]
        self.result = result
        self.results = SDict(self.ntow, lambda k: self.name(k), lambda k: SList(self.nt, lambda t, k=k: result(k, t), name="series"),
                             name="results")
        lat, lon, zm = [z3.Function(n, I, R) for n in ("tower_lat", "tower_lon", "tower_zm")]
        tmemo = {}

        def tower(k):
            kk = str(num(k).t)
            if kk not in tmemo:
                tmemo[kk] = values.Rec("tower", name=self.name(k), lat=Num(lat(num(k).z()), True), lon=Num(lon(num(k).z()), True),
                                       z_m=Num(zm(num(k).z()), True), _key=num(k))
            return tmemo[kk]
        self.tower = tower
        self.config = values.Rec("config", towers=SList(self.ntow, tower, name="towers"),
                                 solver=values.Rec("solver", closure=SStr.fresh("closure")),
                                 domain=values.Rec("domain", xmax=sym.fresh_real("xmax"), ymax=sym.fresh_real("ymax")))


class Dataset:
    last = None

    def __init__(self, data_vars=None, coords=None, attrs=None):
        self.vars = dict(data_vars or {})
        self.coords = dict(coords or {})
        self.attrs = dict(attrs or {})
        self.written = None
        Dataset.last = self

    def drop_vars(self, name):
        d = Dataset(self.vars, self.coords, self.attrs)
        d.vars.pop(name)
        return d

    def __setitem__(self, k, v):
        self.vars[k] = v

    def to_netcdf(self, path, encoding=None):
        self.written = (path, encoding)


class PathShim:
    def __init__(self, p):
        self.p = p
        self.parent = self

    def mkdir(self, parents=False, exist_ok=False):
        pass

    def exists(self):
        return bool(sym.fresh_bool("file_exists"))

    def __format__(self, s):
        return "<path>"


class TimestampLoop(loops.Constructive):
    props = P

    def __init__(self, st):
        self.st = st

    def state_at(self, ctl, t):
        w = self.st["w"]
        return {"timestamps": SList(t, lambda k: sym.engine().str_of_value(w.ts(0, k)), name="timestamps")}


def data_state(w, pre, ti, t_in):
    """Arrays after all towers < ti and, for tower ti, all steps < t_in."""
    def done(tt, kk):
        return (kk < ti) | ((kk == ti) & (tt < t_in))
    st = {}
    for name, src in (("flx_data", w.flx), ("conc_data", w.conc)):
        p = pre[name]
        st[name] = Arr(p.axes, (lambda src, p: lambda tt, kk, *c: ite(done(tt, kk), src(kk, tt).at(*c), Num(0, True)))(src, p), "float")
    first = lambda tt: (ti > 0) | ((ti == 0) & (tt < t_in))  # noqa: E731
    for name, key in (("ustar_data", "ustar"), ("mol_data", "mol"), ("wind_speed_data", "wind_speed"),
                      ("wind_dir_data", "wind_dir"), ("z0_data", "z0")):
        if name not in pre or pre[name] is frontend.UNBOUND:
            continue
        if (key == "ustar" and w.forcing == "z0") or (key == "z0" and w.forcing == "ustar"):
            st[name] = Arr(pre[name].axes, lambda tt: Num(0, True), "float")
        else:
            st[name] = Arr(pre[name].axes, (lambda key: lambda tt: ite(first(tt), w.met(key, 0, tt), Num(0, True)))(key), "float")
    return st


DATA_NAMES = ("flx_data", "conc_data", "ustar_data", "mol_data", "wind_speed_data", "wind_dir_data", "z0_data")


class TowerLoop(loops.Constructive):
    props = P
    state_names = DATA_NAMES

    def __init__(self, st):
        self.st = st

    def state_at(self, ctl, ti):
        self.st["ti"] = ti
        self.st["outer_pre"] = ctl.pre
        return data_state(self.st["w"], ctl.pre, ti, Num(0))

    def iter_state(self, ctl, ti):
        st = self.state_at(ctl, ti)
        self.st["ti"] = ti
        return st

    def exit_state(self, ctl):
        return self.state_at(ctl, ctl.n)


class StepLoop(loops.Constructive):
    props = P
    state_names = DATA_NAMES

    def __init__(self, st):
        self.st = st

    def state_at(self, ctl, t):
        return data_state(self.st["w"], ctl.pre, self.st["ti"], t)


def generate(ctx):
    if not ctx.wants(P):
        return
    for dim3 in (False, True):
        for forcing in ("ustar", "z0", "both"):
            st = {}
            ns = harness.namespace(MOD)
            np_ = npshim.NP()
            ns.update({"np": np_, "Path": PathShim, "xr": values.Rec("xr", Dataset=Dataset)})
            f = harness.define(ctx, ns, MOD, "save_footprints_to_netcdf",
                               loop_specs={"outer:timestamps": TimestampLoop(st), "outer:flx_data|nest:1": TowerLoop(st), "inner:flx_data|nest:1.0": StepLoop(st)})
            label = "io.save_footprints_to_netcdf[%s|forcing=%s]" % ("3d" if dim3 else "2d", forcing)

            def thunk(run, dim3=dim3, forcing=forcing, f=f, st=st, label=label):
                w = World(run, dim3, forcing)
                st["w"] = w
                run.scope = label
                run.str_of_value = lambda v: v      # str(timestamp): identity on labels (string or integer labels, trusted str)
                Dataset.last = None
                path = opaque.Op("input.filepath", {})
                harness.call(run, f, w.results, w.config, path)
                ds = Dataset.last
                run.oblige("dataset-built-and-written", SBool(ds is not None and ds.written is not None), kind="post")
                if ds is None:
                    return
                # lossless: the encoding handed to to_netcdf may compress but must not narrow or quantise
                enc = ds.written[1] if ds.written else None
                LOSSLESS = {"zlib", "complevel", "shuffle", "chunksizes", "fletcher32", "contiguous"}
                lossy = sorted({k for v in (enc or {}).values() for k in v if k not in LOSSLESS})
                run.oblige("encoding-is-lossless (compression only; no dtype/scale/quantisation)", SBool(not lossy), kind="post",
                           meta={"lossy_options": lossy})
                dims = ["time", "tower", "z", "y", "x"] if dim3 else ["time", "tower", "y", "x"]
                sp = [w.nzo, w.ny, w.nx] if dim3 else [w.ny, w.nx]
                axes = [Axis(w.nt), Axis(w.ntow)] + [Axis(s) for s in sp]
                for var, src in (("footprint", w.flx), ("concentration", w.conc)):
                    ok = var in ds.vars and list(ds.vars[var][0]) == dims
                    run.oblige("%s.dims-match-array-axes" % var, SBool(ok), kind="post")
                    if ok:
                        want = Arr(axes, (lambda src: lambda t, ti, *c: src(ti, t).at(*c))(src), "float")
                        loops.oblige_equal(run, "%s.placement: [time, tower] holds that tower's field at that step" % var,
                                           ds.vars[var][1], want, kind="post")
                # coordinates
                def coord(name):
                    c = ds.coords.get(name)
                    return c[1] if c is not None else None
                z0i = [Num(0)] * (len(sp) - 1)
                if dim3:
                    wx = Arr([Axis(w.nx)], lambda i: w.X.at(0, 0, i), "float")
                    wy = Arr([Axis(w.ny)], lambda j: w.Y.at(0, j, 0), "float")
                    wz = Arr([Axis(w.nzo)], lambda k: w.Z.at(k, 0, 0), "float")
                else:
                    wx = Arr([Axis(w.nx)], lambda i: w.X.at(0, i), "float")
                    wy = Arr([Axis(w.ny)], lambda j: w.Y.at(j, 0), "float")
                    wz = None
                for name, want in (("x", wx), ("y", wy), ("z", wz)):
                    got = coord(name)
                    if want is None:
                        continue
                    run.oblige("coord.%s.present" % name, SBool(isinstance(got, Arr)), kind="post")
                    if isinstance(got, Arr):
                        loops.oblige_equal(run, "coord." + name, got, want, kind="post")
                # labels
                tl = coord("time")
                run.oblige("labels.time", opaque.veq(tl, SList(w.nt, lambda t: w.ts(0, t), name="spec")), kind="post")
                run.oblige("labels.tower", opaque.veq(coord("tower"), SList(w.ntow, lambda k: w.name(k), name="spec")), kind="post")
                for var, attr in (("tower_lat", "lat"), ("tower_lon", "lon"), ("tower_z", "z_m")):
                    ok = var in ds.vars and list(ds.vars[var][0]) == ["tower"]
                    run.oblige("%s.dims" % var, SBool(ok), kind="post")
                    if ok:
                        run.oblige("%s: metadata of the tower NAMED by the label" % var,
                                   opaque.veq(ds.vars[var][1], SList(w.ntow, (lambda attr: lambda k: getattr(w.tower(k), attr))(attr), name="spec")),
                                   kind="post")
                # per-step meteorology
                keys = ["mol", "wind_speed", "wind_dir"] + (["ustar"] if forcing != "z0" else []) + (["z0"] if forcing != "ustar" else [])
                for k in keys:
                    ok = k in ds.vars and list(ds.vars[k][0]) == ["time"]
                    run.oblige("met.%s.exported-per-time" % k, SBool(ok), kind="post")
                    if ok:
                        loops.oblige_equal(run, "met.%s.values" % k, ds.vars[k][1],
                                           Arr([Axis(w.nt)], (lambda k: lambda t: w.met(k, 0, t))(k), "float"), kind="post")
                if forcing == "z0":
                    run.oblige("met.ustar-not-invented", SBool("ustar" not in ds.vars), kind="post")
                run.cover("path")
            ctx.explore(label, thunk, P)

    # load: existence check + xr.open_dataset
    def t_load(run):
        run.scope = "io.load_footprints_from_netcdf"
        ns = harness.namespace(MOD)
        opened = []
        ns.update({"Path": PathShim, "xr": values.Rec("xr", open_dataset=lambda p: opaque.Op("xr.open_dataset", {"path": p.p}))})
        f = harness.define(ctx, ns, MOD, "load_footprints_from_netcdf")
        path = opaque.Op("input.filepath", {})
        out = harness.call(run, f, path, raises=(FileNotFoundError, Exception))
        if out.raised:
            run.oblige("missing-file-raises-FileNotFoundError", SBool(isinstance(out.exc, FileNotFoundError)), kind="xpost")
            return
        run.oblige("returns-the-opened-dataset", opaque.veq(out.value, opaque.Op("xr.open_dataset", {"path": path})), kind="post")
    ctx.explore("io.load", t_load, P)
