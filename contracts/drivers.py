"""C14: run_bldfm_timeseries / run_bldfm_multitower / run_bldfm_parallel return, per tower
and per step, the corresponding single run, keyed by tower name in configuration order.

`run_bldfm_single` is the uninterpreted function single(config, tower, met_index, surface_flux,
cache) (its own contract: C13; its purity: C12/C15).  Executor.map is used under its
ordering contract (DESIGN 3.2): results in task order whatever the completion order and the
worker count.  Precondition (recorded): tower names pairwise distinct.
The `both` strategy is handled with a row-structured list (values.BList): row boundaries are ghost
offsets off(t) (off(0)=0, off(t+1)=off(t)+n_time), so the flattened position t*n_time+i never has to be
computed and all obligations stay linear.
"""
import z3

from pyvc import sym, harness, values, opaque, loops
from pyvc.sym import Num, SBool, SStr, num
from pyvc.opaque import Op, veq
from pyvc.values import SList, SDict

PROPS = {"C14"}
MOD = "bldfm.interface"


def single_stub(run, config, log):
    base = opaque.opaque_function(MOD, "run_bldfm_single")

    def run_bldfm_single(*a, **k):
        r = base(*a, **k)
        i = num(r.args["met_index"])
        # C16/C13 precondition of the single run: a valid step index
        run.oblige("single.call-pre.step-index-in-range", (i >= 0) & (i < config.met.n_timesteps), kind="call-pre",
                   props={"C14", "C16"})
        log.append(r)
        return r
    return run_bldfm_single


def make_world(run):
    n_time = sym.fresh_int("n_timesteps")
    n_tow = sym.fresh_int("n_towers")
    run.assume((n_time >= 0) & (n_tow >= 0))
    I = z3.IntSort()
    name_f = z3.Function("tower_name", I, SStr.sort())
    # recorded precondition: tower names are pairwise distinct (the naming function is
    # injective); used by instantiation in scalar_eq, never as a quantified hypothesis
    run.injective = {"tower_name"}

    def tower(t):
        t = num(t)
        return values.Rec("tower", name=SStr(name_f(t.z())), index=t, _key=t,
                          x=Num(z3.Function("tower_x", I, z3.RealSort())(t.z()), True),
                          y=Num(z3.Function("tower_y", I, z3.RealSort())(t.z()), True),
                          z_m=Num(z3.Function("tower_zm", I, z3.RealSort())(t.z()), True))
    cache_cache = {}

    def tower_memo(t):
        key = num(t).t if num(t).concrete else num(t).t.get_id()
        if key not in cache_cache:
            cache_cache[key] = tower(t)
        return cache_cache[key]
    towers = SList(n_tow, tower_memo, name="config.towers")
    met = values.Rec("met", n_timesteps=n_time)
    par = values.Rec("parallel", use_cache=sym.fresh_bool("use_cache"), max_workers=sym.fresh_int("cfg_max_workers"))
    sol = values.Rec("solver", footprint=sym.fresh_bool("footprint"))
    config = values.Rec("config", met=met, towers=towers, parallel=par, solver=sol)
    return config, n_time, n_tow, tower_memo


def tower_eq(a, b):
    return num(a.index) == num(b.index)


def spec_series(config, tower, flux, cache, n):
    """[single(config, tower, i, flux, cache) for i < n]"""
    return SList(n, lambda i: Op("interface.run_bldfm_single",
                                 {"config": config, "tower": tower, "met_index": i, "surface_flux": flux, "cache": cache}),
                 name="series")


# Rec equality inside veq is identity; towers are memoised per index term, and the loop
# contracts rebuild them through the same memo, so identity coincides with index equality.

class SeriesLoop(loops.Constructive):
    props = PROPS
    state_names = ("results",)

    def __init__(self, st):
        self.st = st

    def state_at(self, ctl, i):
        s = self.st
        return {"results": spec_series(s["config"], s["tower"], s["flux"], s["cache"](), i)}


def namespace(ctx):
    ns = harness.namespace(MOD)
    return ns


def generate_timeseries(ctx):
    if not ctx.wants(PROPS | {"C16"}):
        return
    for use_flux in (True, False):
        st = {}
        ns = namespace(ctx)
        harness.define(ctx, ns, MOD, "_make_cache")
        f = harness.define(ctx, ns, MOD, "run_bldfm_timeseries", loop_specs={"outer:results|nest:0": SeriesLoop(st)})

        def thunk(run, use_flux=use_flux, ns=ns, f=f, st=st):
            config, n_time, n_tow, tower = make_world(run)
            t = sym.fresh_int("t")
            run.assume((t >= 0) & (t < n_tow))
            tw = tower(t)
            flux = Op("input.surface_flux", {}) if use_flux else None
            log = []
            made = []

            def GreensFunctionCache(*a, **k):
                c = Op("cache.GreensFunctionCache()", {"n": len(made)})
                made.append(c)
                return c
            ns["__pyvc_imports__"][("cache", "GreensFunctionCache")] = GreensFunctionCache
            ns["run_bldfm_single"] = single_stub(run, config, log)
            st.update({"config": config, "tower": tw, "flux": flux, "cache": lambda: (made[0] if made else None)})
            run.scope = "interface.run_bldfm_timeseries[flux=%s]" % use_flux
            run.props = PROPS | {"C16"}
            out = harness.call(run, f, config, tw, surface_flux=flux)
            want = spec_series(config, tw, flux, made[0] if made else None, n_time)
            run.oblige("series-is-the-single-runs-in-time-order", veq(out.value, want), kind="post")
            run.oblige("at-most-one-cache-per-series", SBool(len(made) <= 1), kind="post", meta={"structural": True})
            # cache created iff use_cache and footprint
            if made:
                run.oblige("cache-only-when-enabled", config.parallel.use_cache & config.solver.footprint, kind="post")
            else:
                run.oblige("cache-when-enabled", sym.Not(config.parallel.use_cache & config.solver.footprint), kind="post")
            run.cover("path")
        ctx.explore("interface.run_bldfm_timeseries[flux=%s]" % use_flux, thunk, PROPS | {"C16"})


class TowerLoop(loops.Constructive):
    """for tower in config.towers: results[tower.name] = series(tower)"""
    props = PROPS
    state_names = ("results",)

    def __init__(self, st):
        self.st = st

    def state_at(self, ctl, t):
        s = self.st
        return {"results": SDict(t, lambda k: s["tower"](k).name, lambda k: s["series"](s["tower"](k)), name="results")}


def series_op(config, tower, flux):
    return Op("interface.run_bldfm_timeseries", {"config": config, "tower": tower, "surface_flux": flux})


def generate_multitower(ctx):
    if not ctx.wants(PROPS):
        return
    st = {}
    ns = namespace(ctx)
    f = harness.define(ctx, ns, MOD, "run_bldfm_multitower", loop_specs={"outer:results|nest:0": TowerLoop(st)})
    for use_flux in (True, False):
        def thunk(run, use_flux=use_flux):
            config, n_time, n_tow, tower = make_world(run)
            flux = Op("input.surface_flux", {}) if use_flux else None
            ns["run_bldfm_timeseries"] = opaque.opaque_function(MOD, "run_bldfm_timeseries")
            st.update({"tower": tower, "series": lambda tw: series_op(config, tw, flux)})
            run.scope = "interface.run_bldfm_multitower[flux=%s]" % use_flux
            run.props = set(PROPS)
            out = harness.call(run, f, config, surface_flux=flux)
            want = SDict(n_tow, lambda k: tower(k).name, lambda k: series_op(config, tower(k), flux), name="spec")
            run.oblige("towers-in-configuration-order-each-with-its-series", veq(out.value, want), kind="post")
            run.cover("path")
        ctx.explore("interface.run_bldfm_multitower[flux=%s]" % use_flux, thunk, PROPS)


class Future:
    """concurrent.futures.Future of a submitted call: result() is the call's return value."""

    def __init__(self, thunk):
        self._thunk = thunk

    def result(self, timeout=None):
        return self._thunk()


def as_completed(fs, timeout=None):
    """concurrent.futures.as_completed: the submitted futures in COMPLETION order, which is any order whatsoever -- an
    uninterpreted permutation of the submission order (a result assembled in this order is in configuration order only
    if the permutation happens to be the identity)."""
    run = sym.engine()
    if not isinstance(fs, SList):
        fs = SList(Num(len(fs)), (lambda lst: lambda k: lst[int(num(k).t)])(list(fs)), name="futures") if not isinstance(fs, SList) else fs
        raise sym.Undecided("as_completed over a concrete list of futures")
    perm = z3.Function(run.fresh("completion_order"), z3.IntSort(), z3.IntSort())
    n = fs.length

    def elem(k):
        k = num(k)
        j = Num(perm(k.z()))
        run.assume(((k >= 0) & (k < n)).implies((j >= 0) & (j < n)))
        return fs.elem(j)
    return SList(n, elem, name="as_completed")


class Pool:
    """concurrent.futures.ProcessPoolExecutor under its ordering contract."""
    made = None

    def submit(self, fn, *args, **kw):
        return Future(lambda: fn(*args, **kw))

    def __init__(self, max_workers=None):
        self.max_workers = max_workers
        if Pool.made is not None:
            Pool.made.append(self)

    def __enter__(self):
        return self

    def __exit__(self, *a):
        return False

    def map(self, fn, tasks):
        if isinstance(tasks, values.BList):
            run = sym.engine()
            t0, i0 = sym.fresh_int("task_row"), sym.fresh_int("task_col")
            run.ctx_assuming = [tasks.in_domain(t0, i0)]
            try:
                fn(tasks.elem2(t0, i0))
            finally:
                run.ctx_assuming = []

            def lazy2(t, i):
                run.quiet = getattr(run, "quiet", 0) + 1
                try:
                    return fn(tasks.elem2(t, i))
                finally:
                    run.quiet -= 1
            return values.BList(tasks.rows, tasks.ncols, tasks.partial, lazy2, name="pool.map")
        if isinstance(tasks, SList):
            run = sym.engine()
            # the mapped function's preconditions are checked once, at a generic task index
            k0 = sym.fresh_int("task")
            run.ctx_assuming = [(k0 >= 0) & (k0 < tasks.length)]
            try:
                fn(tasks.elem(k0))
            finally:
                run.ctx_assuming = []

            def lazy(k):
                run.quiet = getattr(run, "quiet", 0) + 1
                try:
                    return fn(tasks.elem(k))
                finally:
                    run.quiet -= 1
            return SList(tasks.length, lazy, name="pool.map")
        return SList(Num(len(tasks)), lambda k: fn(tasks[int(k.t)]), name="pool.map")


class TimeLoop(loops.Constructive):
    props = PROPS

    def __init__(self, st):
        self.st = st

    def state_at(self, ctl, t):
        s = self.st
        return {"results": SDict(t, lambda k: s["tower"](k).name, lambda k: s["series"](s["tower"](k)), name="results")}


def generate_parallel(ctx):
    if not ctx.wants(PROPS):
        return
    st = {}
    ns = namespace(ctx)
    harness.define(ctx, ns, MOD, "_worker_single")
    harness.define(ctx, ns, MOD, "_worker_timeseries")
    ns["ProcessPoolExecutor"] = Pool
    ns["as_completed"] = as_completed

    class BothOuter(loops.Constructive):
        """tasks after t towers: t complete rows (config, tower_t', i'), i' < n_time"""
        props = PROPS

        def state_at(self, ctl, t):
            st["both_t"] = t
            return {"tasks": values.BList(t, st["n_time"], 0, lambda tt, ii: (st["config"], st["tower"](tt), num(ii)), name="tasks")}

        def iter_state(self, ctl, t):
            s_ = self.state_at(ctl, t)
            st["both_t"] = t
            return s_

    class BothInner(loops.Constructive):
        props = PROPS

        def state_at(self, ctl, i):
            return {"tasks": values.BList(st["both_t"], st["n_time"], i, lambda tt, ii: (st["config"], st["tower"](tt), num(ii)), name="tasks")}

    class BothRegroup(loops.Constructive):
        """results after t towers: tower_k -> row k of the flat results; idx = off(t)"""
        props = PROPS

        def state_at(self, ctl, t):
            return {"results": SDict(t, lambda k: st["tower"](k).name, lambda k: st["series"](st["tower"](k)), name="results"),
                    "idx": values.BList.off(t, st["n_time"])}
    f = harness.define(ctx, ns, MOD, "run_bldfm_parallel", loop_specs={"outer:step_results": TimeLoop(st), "outer:tasks!step_results": BothOuter(), "inner:tasks": BothInner(), "outer:idx": BothRegroup()})

    def setup(run, strategy, workers_given):
        config, n_time, n_tow, tower = make_world(run)
        log = []
        Pool.made = []
        envs = {}
        cfgmod = values.Rec("bldfm.config", NUM_THREADS=sym.fresh_int("parent_threads"))
        resets = []
        ns["os"] = values.Rec("os", environ=envs)
        ns["__pyvc_imports__"][("bldfm", "config")] = cfgmod
        ns["__pyvc_imports__"][("fft_manager", "reset_fft_manager")] = lambda: resets.append(1)
        ns["run_bldfm_single"] = single_stub(run, config, log)
        ns["run_bldfm_timeseries"] = opaque.opaque_function(MOD, "run_bldfm_timeseries")
        mw = sym.fresh_int("max_workers") if workers_given else None
        return config, n_time, n_tow, tower, mw, cfgmod

    def worker_single_spec(config, tw, i):
        return Op("interface.run_bldfm_single", {"config": config, "tower": tw, "met_index": i, "surface_flux": None, "cache": None})

    for strategy in ("towers", "time", "both", "unknown"):
        for workers_given in (True, False):
            def thunk(run, strategy=strategy, workers_given=workers_given):
                config, n_time, n_tow, tower, mw, cfgmod = setup(run, strategy, workers_given)
                run.scope = "interface.run_bldfm_parallel[%s|max_workers=%s]" % (strategy, "given" if workers_given else "None")
                run.props = set(PROPS)
                if strategy == "towers":
                    st.update({"tower": tower})
                    want = SDict(n_tow, lambda k: tower(k).name, lambda k: series_op(config, tower(k), None), name="spec")
                elif strategy in ("time", "both"):
                    ser = lambda tw: SList(n_time, lambda i: worker_single_spec(config, tw, i), name="series")  # noqa: E731
                    st.update({"tower": tower, "series": ser, "n_time": n_time, "config": config})
                    want = SDict(n_tow, lambda k: tower(k).name, lambda k: ser(tower(k)), name="spec")
                flux = None
                out = harness.call(run, f, config, max_workers=mw, parallel_over=(strategy if strategy != "unknown" else "rows"),
                                   surface_flux=flux, raises=(ValueError,))
                if strategy == "unknown":
                    run.oblige("unknown-strategy-rejected", SBool(out.raised), kind="xpost")
                    return
                if out.raised:
                    run.oblige("known-strategy-accepted", SBool(False), kind="xpost")
                    return
                run.oblige("keyed-by-tower-in-configuration-order-with-the-single-runs-in-time-order", veq(out.value, want), kind="post")
                for p in Pool.made:
                    wantw = mw if workers_given else config.parallel.max_workers
                    run.oblige("pool-uses-requested-or-configured-workers", veq(p.max_workers, wantw), kind="post")
                run.cover("path")
            ctx.explore("interface.run_bldfm_parallel[%s|%s]" % (strategy, workers_given), thunk, PROPS)


def generate_cli(ctx):
    """bldfm.cli:cmd_run (anchor of C16: 'drivers iterate range(n_timesteps)', cli.py): without --dry-run the command
    performs exactly one single run per (tower, step) with step < n_timesteps, towers in configuration order and steps in
    time order, on the configuration load_config returned for the given path, after copying the parallel settings into the
    runtime configuration module; with --dry-run it performs none."""
    P = {"C16", "C14"}
    if not ctx.wants(P):
        return
    CLI = "bldfm.cli"
    st = {}

    def row(tt, ii):
        return Op("interface.run_bldfm_single", {"config": st["config"], "tower": st["tower"](tt), "met_index": num(ii),
                                                 "surface_flux": None, "cache": None})

    class CliOuter(loops.Constructive):
        props = P

        def state_at(self, ctl, t):
            st["cli_t"] = t
            return {"results": values.BList(t, st["n_time"], 0, row, name="results")}

        def iter_state(self, ctl, t):
            s_ = self.state_at(ctl, t)
            st["cli_t"] = t
            return s_

    class CliInner(loops.Constructive):
        props = P

        def state_at(self, ctl, i):
            return {"results": values.BList(st["cli_t"], st["n_time"], i, row, name="results")}
    ns = harness.namespace(CLI)
    f = harness.define(ctx, ns, CLI, "cmd_run", loop_specs={"outer:results": CliOuter(), "inner:results": CliInner()})
    for dry in (True, False):
        for plot in (True, False):
            def thunk(run, dry=dry, plot=plot):
                config, n_time, n_tow, tower = make_world(run)
                config.parallel.num_threads = sym.fresh_int("cfg_num_threads")
                config.domain = values.Rec("domain", nx=sym.fresh_int("nx"), ny=sym.fresh_int("ny"), nz=sym.fresh_int("nz"))
                log, plots, inits = [], [], []
                path = Op("input.config_path", {})
                cfgmod = values.Rec("bldfm.config", NUM_THREADS=sym.fresh_int("threads0"), MAX_WORKERS=sym.fresh_int("workers0"),
                                    USE_CACHE=sym.fresh_bool("cache0"))

                def load_config(p):
                    run.oblige("cli.loads-the-given-file", veq(p, path), kind="post", props=P)
                    return config
                ns.update({"initialize": lambda *a, **k: inits.append(1), "get_logger": lambda *a, **k: None,
                           "load_config": load_config, "run_bldfm_single": single_stub(run, config, log),
                           "_save_plots": lambda results, logger: plots.append(results)})
                ns["__pyvc_imports__"]["config"] = cfgmod
                st.update({"config": config, "tower": tower, "n_time": n_time})
                run.scope = "cli.cmd_run[dry_run=%s|plot=%s]" % (dry, plot)
                run.props = set(P)
                args = values.Rec("args", config=path, dry_run=dry, plot=plot)
                harness.call(run, f, args)
                if dry:
                    run.oblige("cli.dry-run-solves-nothing", SBool(len(log) == 0), kind="post")
                    run.cover("path")
                    return
                want = values.BList(n_tow, n_time, 0, row, name="spec")
                got = plots[0] if plots else None
                if plot:
                    run.oblige("cli.plots-every-result-once", SBool(len(plots) == 1), kind="post", meta={"structural": True})
                    if plots:
                        run.oblige("cli.one-single-run-per-tower-and-step-in-order", veq(got, want), kind="post")
                else:
                    run.oblige("cli.no-plots-unless-requested", SBool(len(plots) == 0), kind="post")
                run.oblige("cli.runtime-threads-from-config", veq(cfgmod.NUM_THREADS, config.parallel.num_threads), kind="post")
                run.oblige("cli.runtime-workers-from-config", veq(cfgmod.MAX_WORKERS, config.parallel.max_workers), kind="post")
                run.oblige("cli.runtime-cache-flag-from-config", veq(cfgmod.USE_CACHE, config.parallel.use_cache), kind="post")
                run.cover("path")
            ctx.explore("cli.cmd_run[dry_run=%s|plot=%s]" % (dry, plot), thunk, P)


def generate(ctx):
    generate_timeseries(ctx)
    generate_multitower(ctx)
    generate_parallel(ctx)
    generate_cli(ctx)
