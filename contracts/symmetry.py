"""C07: reflection, axis swap, similarity -- lemmas over the contract of S.

Code-level facts used: SC (contracts/solver.py: the code equals the specification Spec for all
inputs) and the invariances of the EXTRACTED step matrix (contracts/ivp.py: symmetry.*).
L-ind (below) lifts a step invariance to the ghost propagator Prop by induction (base: Prop(0)=I,
step: closure under products).  Then, for two runs A, B related as in the statement, the
specification of B at the related bin equals that of A (Hq, Hp, eigenvalue, retained set, pad
widths, phase, resistance); with the DFT reflection/transposition lemma D5 the returned
fields are mirrored / transposed / unchanged / divided by c.
"""
import z3

from pyvc import sym, arrays, loops, transc
from pyvc.sym import Num, Cx, SBool, num, ite
from pyvc.arrays import Arr, Axis
from contracts import solver as S, ivp as IVP, lemmas as L

P7 = {"C07"}


def scaled_prof(prof, which, factor):
    out = []
    for name, a in zip(("u", "v", "Kx", "Ky", "Kz"), prof):
        if name in which:
            out.append(Arr(a.axes, (lambda a: lambda k: a.at(k) * factor)(a), "float"))
        else:
            out.append(a)
    return tuple(out)


def generate(ctx):
    if not ctx.wants(P7):
        return

    # ---------------- L-ind: relations closed under products (2x2 complex matrices)
    def t_ind(run):
        run.scope = "lemma.L-ind"
        def M(n):
            return [[sym.fresh_cx("%s%d%d" % (n, a, b)) for b in (1, 2)] for a in (1, 2)]

        def mul(X, Y):
            return [[X[a][0] * Y[0][b] + X[a][1] * Y[1][b] for b in (0, 1)] for a in (0, 1)]
        St, Pr = M("S"), M("P")
        c = sym.fresh_real("c")
        run.assume(c > 0)
        D = lambda X: [[X[0][0], X[0][1] / c], [X[1][0] * c, X[1][1]]]  # noqa: E731   D^-1 X D, D = diag(c,1)
        lhs = D(mul(St, Pr))
        rhs = mul(D(St), D(Pr))
        for a in (0, 1):
            for b in (0, 1):
                L.eq(run, "similarity-closed-under-products[%d%d]" % (a + 1, b + 1), lhs[a][b], rhs[a][b], P7)
        I2 = [[Cx(1, 0), Cx(0, 0)], [Cx(0, 0), Cx(1, 0)]]
        DI = D(I2)
        for a in (0, 1):
            for b in (0, 1):
                L.eq(run, "similarity-base[%d%d]" % (a + 1, b + 1), DI[a][b], I2[a][b], P7)
        # equalities (mirror, swap, length) are closed under products by congruence; base Prop(0)=I both sides
        run.oblige("equality-relations-closed-under-products", SBool(True), kind="lemma", cls="lemma", props=P7)
    ctx.explore("lemma.L-ind", t_ind, P7)

    for fp in (True, False):
        for an in (False, True):
            tag = ("fp" if fp else "disp") + "|" + ("analytic" if an else "numeric")

            # ------------------------------------------------------------ axis swap
            def t_swap(run, fp=fp, an=an, tag=tag):
                run.scope = "lemma.swap[%s]" % tag
                cfg, A, spA = L.mk(run, fp, an, tag="A")
                B = S.SInputs(run, S.Config(fp, an, "value", "seq"), tag="B")
                u, v, Kx, Ky, Kz = A.prof
                B.prof = (v, u, Ky, Kx, Kz)
                B.nx, B.ny, B.xmx, B.ymx, B.nlx, B.nly, B.xm, B.ym = A.ny, A.nx, A.ymx, A.xmx, A.nly, A.nlx, A.ym, A.xm
                for a in ("nz", "z", "p000", "nlvls", "lev_at", "levels", "halo"):
                    setattr(B, a, getattr(A, a))
                spB = S.Spec(run, B, spA.py, spA.px)      # pad widths exchanged (lemma below)
                spB.prop = lambda a, b, l, kx, ky: IVP.prop_entry(a, b, l, ky, kx)   # L-ind with symmetry.swap
                k, j, i, rng = L.bins(run, spA, A)
                L.eq(run, "pad-width-x", spB.Hh / spB.dx, spA.Hh / spA.dy, P7)
                L.eq(run, "kx-of-B-is-ky-of-A", spB.kx(j), spA.ky(j), P7, rng)
                L.eq(run, "ky-of-B-is-kx-of-A", spB.ky(i), spA.kx(i), P7, rng)
                run.oblige("retained-transposed", spB.retained(i, j) == spA.retained(j, i), kind="lemma", cls="lemma", props=P7, assuming=rng)
                L.eq(run, "eigenvalue-argument", spB.lam_arg(i, j), spA.lam_arg(j, i), P7, rng)
                hb, ha = spB.H(A.lev_at(k), i, j), spA.H(A.lev_at(k), j, i)
                L.eq(run, "Hp-transposed", hb[0], ha[0], P7, rng)
                L.eq(run, "Hq-transposed", hb[1], ha[1], P7, rng)
                L.eq(run, "phase-transposed", spB.phase(i, j), spA.phase(j, i), P7, rng)
                L.eq(run, "resistance", spB.R(A.lev_at(k)), spA.R(A.lev_at(k)), P7, rng)
            ctx.explore("lemma.swap[%s]" % tag, t_swap, P7)

            # ------------------------------------------------------------ mirror in x
            def t_mirror(run, fp=fp, an=an, tag=tag):
                run.scope = "lemma.mirror-x[%s]" % tag
                cfg, A, spA = L.mk(run, fp, an, tag="A")
                B = S.SInputs(run, S.Config(fp, an, "value", "seq"), tag="B")
                u, v, Kx, Ky, Kz = A.prof
                B.prof = (Arr(u.axes, lambda k: -u.at(k), "float"), v, Kx, Ky, Kz)
                for a in ("nx", "ny", "xmx", "ymx", "nlx", "nly", "ym", "nz", "z", "p000", "nlvls", "lev_at", "levels", "halo"):
                    setattr(B, a, getattr(A, a))
                spB = S.Spec(run, B, spA.px, spA.py)
                spB.prop = lambda a, b, l, kx, ky: IVP.prop_entry(a, b, l, -kx, ky)   # L-ind with symmetry.mirror-x
                k, j, i, rng = L.bins(run, spA, A)
                im = ite(i == 0, Num(0), spA.nxe - i)            # mirrored bin
                nyq = (2 * i == spA.nxe)                          # Nyquist column: excepted by the statement
                rng2 = rng + [sym.Not(nyq)]
                run.oblige("mirror-bin: sf(n-i) = -sf(i) off Nyquist", S.sf(im, spA.nxe) == -S.sf(i, spA.nxe), kind="lemma",
                           cls="lemma", props=P7, assuming=rng2)
                L.eq(run, "kx-negated", spB.kx(im), -spA.kx(i), P7, rng2)
                run.oblige("retained-mirrored", sym.Implies(spA.retained(j, i) & spA.retained(j, im), spB.retained(j, im) == spA.retained(j, i)),
                           kind="lemma", cls="lemma", props=P7, assuming=rng2)
                L.eq(run, "eigenvalue-argument", spB.lam_arg(j, im), spA.lam_arg(j, i), P7, rng2)
                hb, ha = spB.H(A.lev_at(k), j, im), spA.H(A.lev_at(k), j, i)
                L.eq(run, "Hp-mirrored", hb[0], ha[0], P7, rng2)
                L.eq(run, "Hq-mirrored", hb[1], ha[1], P7, rng2)
            ctx.explore("lemma.mirror-x[%s]" % tag, t_mirror, P7)

            # ------------------------------------------------------------ similarity
            def t_sim(run, fp=fp, an=an, tag=tag):
                run.scope = "lemma.similarity[%s]" % tag
                cfg, A, spA = L.mk(run, fp, an, tag="A")
                s = sym.fresh_real("s")
                run.assume(s > 0)
                k, j, i, rng = L.bins(run, spA, A)
                # ---- lengths and diffusivities times s
                B = S.SInputs(run, S.Config(fp, an, "value", "seq"), tag="B")
                B.prof = scaled_prof(A.prof, ("Kx", "Ky", "Kz"), s)
                B.z = Arr(A.z.axes, lambda kk: A.z.at(kk) * s, "float")
                B.xmx, B.ymx, B.xm, B.ym, B.halo = A.xmx * s, A.ymx * s, A.xm * s, A.ym * s, A.halo * s
                for a in ("nx", "ny", "nlx", "nly", "nz", "p000", "nlvls", "lev_at", "levels"):
                    setattr(B, a, getattr(A, a))
                spB = S.Spec(run, B, spA.px, spA.py)
                spB.prop = lambda a, b, l, kx, ky: IVP.prop_entry(a, b, l, kx * s, ky * s)   # L-ind with symmetry.length
                L.eq(run, "length.pad-width-x-unchanged", spB.Hh / spB.dx, spA.Hh / spA.dx, P7)
                L.eq(run, "length.pad-width-y-unchanged", spB.Hh / spB.dy, spA.Hh / spA.dy, P7)
                L.eq(run, "length.wavenumber", spB.kx(i) * s, spA.kx(i), P7, rng)
                L.eq(run, "length.eigenvalue-argument: w_B = w_A / s^2", spB.lam_arg(j, i) * s * s, spA.lam_arg(j, i), P7, rng)
                # principal-root scaling (A8 instance): csqrt(w/s^2) = csqrt(w)/s for s > 0
                spB.lam_override = lambda jj, ii: spA.lam(jj, ii) / s
                hb, ha = spB.H(A.lev_at(k), j, i), spA.H(A.lev_at(k), j, i)
                L.eq(run, "length.Hq-unchanged", hb[1], ha[1], P7, rng)
                L.eq(run, "length.Hp-unchanged", hb[0], ha[0], P7, rng)
                L.eq(run, "length.phase-unchanged", spB.phase(j, i), spA.phase(j, i), P7, rng)
                if not an:
                    ii = sym.fresh_int("li")
                    L.eq(run, "length.resistance-term-unchanged", S._rterm(B, ii), S._rterm(A, ii), P7)
                # ---- winds and diffusivities times c
                C = S.SInputs(run, S.Config(fp, an, "value", "seq"), tag="C")
                C.prof = scaled_prof(A.prof, ("u", "v", "Kx", "Ky", "Kz"), s)
                for a in ("nx", "ny", "nlx", "nly", "nz", "z", "p000", "nlvls", "lev_at", "levels", "xmx", "ymx", "xm", "ym", "halo"):
                    setattr(C, a, getattr(A, a))
                spC = S.Spec(run, C, spA.px, spA.py)

                def propC(a, b, l, kx, ky):          # L-ind with symmetry.speed: D^-1 Prop D
                    e = IVP.prop_entry(a, b, l, kx, ky)
                    if (a, b) == (1, 2):
                        return e / s
                    if (a, b) == (2, 1):
                        return e * s
                    return e
                spC.prop = propC
                L.eq(run, "speed.eigenvalue-argument-unchanged", spC.lam_arg(j, i), spA.lam_arg(j, i), P7, rng)
                spC.lam_override = lambda jj, ii: spA.lam(jj, ii)
                hc = spC.H(A.lev_at(k), j, i)
                L.eq(run, "speed.Hq-unchanged", hc[1], ha[1], P7, rng)
                L.eq(run, "speed.Hp-divided-by-c", hc[0] * s, ha[0], P7, rng)
                if not an:
                    ii = sym.fresh_int("ci")
                    L.eq(run, "speed.resistance-divided-by-c", S._rterm(C, ii) * s, S._rterm(A, ii), P7)
            ctx.explore("lemma.similarity[%s]" % tag, t_sim, P7)
