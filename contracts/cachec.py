"""C15: contracts on the cache prologue/epilogue of S and on GreensFunctionCache.

Statement -> obligations
  complete     `key-determines-result`: every input symbol the footprint-mode result depends on
               is hashed into the key handed to cache.get (frame obligation over the symbolic
               result of S: dependency closure, DESIGN 5/C15);
  effective    `getkey-eq-putkey`: within one call the key arguments of get and put denote the
               same key (all halo paths); `hit-returns-without-solving`;
  transparent  a hit returns the stored triple unchanged; misses store exactly the returned
               result; dispersion mode never touches the cache;
  crash-safe   `get:xpost:corrupt-is-miss`: under the np.load contract (an unreadable entry
               raises one of OSError/ValueError/EOFError/KeyError/BadZipFile at load or member
               access) get() returns None and never raises; a well-formed entry is returned
               unchanged; `_compute_key:frame` the key is a function of its arguments only.
"""
import z3

from pyvc import sym, arrays, harness, loops, npshim, values, deps, engine
from pyvc.sym import Num, Cx, SBool, SStr, num, sbool, Undecided
from pyvc import sym
from contracts import solver as S

PROPS = {"C15"}
# the 2-safety completeness statement is also what every property of the solver needs of a solve that is handed a
# cache (the `cache=` argument is part of the public call each of them quantifies over): a request never receives the
# result of a different request, so the statement proved for the uncached solve carries over.  (First C02 "for every halo
# width" and C12 "history does not matter" only; seeded C04_10 -- background dropped from the key, entries stored with the
# first caller's background -- breaks "background only adds a uniform offset" through the cache alone.)
PROPS_REL = {"C15", "C12", "C01", "C02", "C03", "C04", "C05", "C06", "C07", "C10", "C11"}
MATH = {"pi", "csqrt_re", "csqrt_im", "cis_re", "cis_im", "cexp_re", "cexp_im", "exp", "log", "sqrt",
        "sin", "cos", "str_float", "str_int"}


class CacheStub:
    """Contract view of a GreensFunctionCache at the call sites in S."""
    CACHED = ("<stored grid>", "<stored conc>", "<stored flx>")

    def __init__(self, run, hit):
        self.run, self.hit = run, hit
        self.gets, self.puts = [], []
        self.transforms_at_get = None

    def get(self, z, profiles, domain, modes, meas_pt, halo, precision, extra=None):
        self.gets.append(dict(z=z, profiles=profiles, domain=domain, modes=modes, meas_pt=meas_pt,
                              halo=halo, precision=precision, extra=extra))
        return self.CACHED if self.hit else None

    def put(self, z, profiles, domain, modes, meas_pt, halo, precision, grid, conc, flx, extra=None):
        self.puts.append(dict(z=z, profiles=profiles, domain=domain, modes=modes, meas_pt=meas_pt,
                              halo=halo, precision=precision, extra=extra, result=(grid, conc, flx)))


def _flat(v, path=""):
    if isinstance(v, (tuple, list)):
        out = []
        for i, x in enumerate(v):
            out += _flat(x, "%s[%d]" % (path, i))
        return out
    return [(path, v)]


def key_args_equal(run, a, b):
    """Obligations: the two key-argument records denote the same key."""
    for name in ("z", "profiles", "domain", "modes", "meas_pt", "halo", "precision", "extra"):
        fa, fb = _flat(a[name], name), _flat(b[name], name)
        if len(fa) != len(fb):
            run.oblige("getkey-eq-putkey." + name + ".arity", SBool(False), kind="post")
            continue
        for (pa, x), (pb, y) in zip(fa, fb):
            if x is y:
                continue
            if isinstance(x, arrays.Arr) or isinstance(y, arrays.Arr):
                loops.oblige_equal(run, "getkey-eq-putkey." + pa, x, y, kind="post")
            else:
                run.oblige("getkey-eq-putkey." + pa, loops.scalar_eq(x, y), kind="post")


def dependency_defs(run, inp):
    d = {}
    for t in run.__dict__.get("transforms", []):
        d["T%d_%s_re" % (t.tid, t.op)] = deps.value_symbols(t.arg)
        d["T%d_%s_im" % (t.tid, t.op)] = d["T%d_%s_re" % (t.tid, t.op)]
    d["trunc"] = set()      # trunc(x) is an application: its argument's symbols are visited by the traversal
    profs = {"u", "v", "Kx", "Ky", "Kz", "z", "nz"}
    for a in (1, 2):
        for b in (1, 2):
            d["Prop%d%d_re" % (a, b)] = profs
            d["Prop%d%d_im" % (a, b)] = profs
    d["Rsum"] = {"z", "Kz", "nz"}
    return d


def generate_solver_level(ctx):
    if not ctx.wants(PROPS):
        return
    ns = S.make_namespace(ctx)
    st = {}
    f = harness.define(ctx, ns, "bldfm.solver", "steady_state_transport_solver",
                       loop_specs={S.MEAN_LOOP: S.MeanLoop(st)}, label=S.LABEL)
    for cfg in S.configs():
        for hit in (False, True):
            def thunk(run, cfg=cfg, hit=hit):
                inp = S.SInputs(run, cfg)
                st["inp"] = inp
                st["S00"] = lambda: S.S00_of(run, inp)
                run.scope = "solver.S+cache[%s|%s]" % (cfg.name(), "hit" if hit else "miss")
                run.props = set(PROPS)
                cache = CacheStub(run, hit)
                out, log, threads = S.run_S(ctx, ns, run, inp, f, cache=cache)
                if out.raised:
                    return  # argument errors are C11's business
                ntr = len(run.__dict__.get("transforms", []))
                if not cfg.footprint:
                    run.oblige("dispersion-never-touches-cache", SBool(not cache.gets and not cache.puts),
                               kind="post")
                    return
                run.oblige("lookup-before-solving", SBool(len(cache.gets) >= 1), kind="post")
                if not cache.gets:
                    return
                g = cache.gets[0]
                if hit:
                    run.oblige("hit-returns-stored-entry-unchanged", SBool(out.value is cache.CACHED), kind="post")
                    run.oblige("hit-returns-without-solving", SBool(ntr == 0 and not log and not cache.puts),
                               kind="post")
                    return
                run.oblige("miss-stores-the-result", SBool(len(cache.puts) >= 1), kind="post")
                if not cache.puts:
                    return
                p = cache.puts[-1]
                res = out.value
                same = all(x is y for (_, x), (_, y) in zip(_flat(p["result"]), _flat(res))) and \
                    len(_flat(p["result"])) == len(_flat(res))
                run.oblige("miss-stores-the-returned-result", SBool(same), kind="post")
                key_args_equal(run, g, p)
                # ---- completeness: dependency closure of the result within the hashed symbols
                defs = dependency_defs(run, inp)
                rdeps = deps.close_over(deps.value_symbols(res), defs) - MATH
                kd = set()
                for name in ("z", "profiles", "domain", "modes", "meas_pt", "halo", "extra"):
                    deps.value_symbols(g[name], kd)
                kdeps = deps.close_over(kd, defs) - MATH
                missing = sorted(s for s in rdeps - kdeps if not s.startswith(("dep", "ix", "mj", "mi", "fk", "kpre")))
                run.oblige("key-determines-result", SBool(not missing), kind="frame",
                           meta={"result_depends_on": sorted(rdeps), "hashed": sorted(kdeps),
                                 "not_hashed": missing})
                run.cover("path.miss")
            ctx.explore("solver.S+cache[%s|%s]" % (cfg.name(), "hit" if hit else "miss"), thunk, PROPS)


def generate_relational(ctx):
    """Completeness as a 2-safety statement on VALUES (not only symbols): two footprint requests whose
    lookup keys are equal return equal results.  Run A discovers which inputs enter the key as themselves;
    run B shares exactly those inputs with A, takes every other input fresh, and assumes the derived key
    components equal.  If the key is complete the two specification terms coincide."""
    if not ctx.wants(PROPS_REL):
        return
    ns = S.make_namespace(ctx)
    st = {}
    f = harness.define(ctx, ns, "bldfm.solver", "steady_state_transport_solver",
                       loop_specs={S.MEAN_LOOP: S.MeanLoop(st)}, label=S.LABEL)
    SCALARS = ("xmx", "ymx", "nlx", "nly", "xm", "ym", "p000", "halo", "nx", "ny", "nz", "nlvls", "level")
    for cfg in S.configs():
        if not cfg.footprint:
            continue

        def thunk(run, cfg=cfg):
            run.scope = "solver.S+cache.rel[%s]" % cfg.name()
            run.props = set(PROPS_REL)
            A = S.SInputs(run, cfg, tag="A")
            st["inp"] = A
            st["S00"] = lambda: S.S00_of(run, A)
            cacheA = CacheStub(run, False)
            outA, logA, _ = S.run_S(ctx, ns, run, A, f, cache=cacheA)
            if outA.raised or not cacheA.gets:
                return
            nA = len(run.int_defs)
            trA = list(run.__dict__.get("transforms", []))
            keyA = cacheA.gets[0]
            flatA = [v for nm in ("domain", "modes", "meas_pt", "halo", "extra") for _, v in _flat(keyA[nm], nm)]
            direct = set()
            for v in flatA:
                if isinstance(v, Num) and not v.concrete and z3.is_const(v.t):
                    direct.add(str(v.t))
            # run B: same arrays where the key hashes the whole array (z, profiles; levels via extra), scalars
            # shared iff they enter the key as themselves
            B = S.SInputs(run, cfg, tag="B")
            B.z, B.prof, B.nz = A.z, A.prof, A.nz
            kd = set()
            deps.value_symbols(keyA["extra"], kd)
            if any(s_.startswith("levels") or s_.startswith("level") for s_ in kd):
                B.levels, B.lev_at, B.nlvls = A.levels, A.lev_at, A.nlvls
                if hasattr(A, "level"):
                    B.level = A.level
            B.q0 = arrays.fresh_array("q0B", [B.ny, B.nx], "float")
            for nm in SCALARS:
                va = getattr(A, nm, None)
                if isinstance(va, Num) and not va.concrete and str(va.t) in direct:
                    setattr(B, nm, va)
            if A.halo is None:
                B.halo = None
            B.q0 = arrays.fresh_array("q0B", [B.ny, B.nx], "float")
            st["inp"] = B
            st["S00"] = lambda: S.S00_of_at(run, B, nA)
            run.transforms = []
            cacheB = CacheStub(run, False)
            outB, logB, _ = S.run_S(ctx, ns, run, B, f, cache=cacheB)
            if outB.raised or not cacheB.gets:
                return
            keyB = cacheB.gets[0]
            # assume the keys are equal, component by component (arrays hashed whole are shared objects)
            ok = True
            for nm in ("domain", "modes", "meas_pt", "halo", "precision", "extra"):
                fa, fb = _flat(keyA[nm], nm), _flat(keyB[nm], nm)
                if len(fa) != len(fb):
                    ok = False
                    continue
                for (_, x), (_, y) in zip(fa, fb):
                    if x is y:
                        continue
                    if isinstance(x, arrays.Arr) or isinstance(y, arrays.Arr):
                        if isinstance(x, arrays.Arr) and isinstance(y, arrays.Arr) and x.ndim == y.ndim:
                            for ax, ay in zip(x.axes, y.axes):
                                run.assume(ax.size == ay.size)
                        continue
                    run.assume(loops.scalar_eq(x, y))
            if not ok:
                return
            gA, cA, fA = outA.value
            gB, cB, fB = outB.value
            # results are real parts of the final transforms of the spectra: equal spectra and equal crops
            trB = run.transforms
            if len(trA) != len(trB) or not trA:
                run.oblige("rel.same-transform-structure", SBool(False), kind="rel", meta={"structural": True})
                return
            for nm, ta, tb in (("conc", trA[-2], trB[-2]), ("flx", trA[-1], trB[-1])):
                loops.oblige_equal(run, "rel.equal-keys-give-equal-spectrum." + nm, tb.arg, ta.arg, kind="rel")
            (pxA, _), (pyA, _) = run.int_defs[0], run.int_defs[1]
            (pxB, _), (pyB, _) = run.int_defs[nA], run.int_defs[nA + 1]
            run.oblige("rel.equal-keys-give-equal-crop", (pxA == pxB) & (pyA == pyB) & (A.nx == B.nx) & (A.ny == B.ny), kind="rel")
            for nm, x, y in (("X", gA[0], gB[0]), ("Y", gA[1], gB[1]), ("Z", gA[2], gB[2])):
                loops.oblige_equal(run, "rel.equal-keys-give-equal-grid." + nm, y, x, kind="rel")
        ctx.explore("solver.S+cache.rel[%s]" % cfg.name(), thunk, PROPS_REL)


# ===================================================================== the cache class itself
class Sha:
    def __init__(self):
        self.parts = []

    def update(self, b):
        self.parts.append(b)

    def hexdigest(self):
        return Key(tuple(self.parts))


class Key:
    """sha256 hex digest: injective image of the update sequence (A7)."""

    def __init__(self, parts):
        self.parts = parts

    def __getitem__(self, s):
        return self

    def __format__(self, spec):
        return "<key>"


class HashlibShim:
    @staticmethod
    def sha256():
        return Sha()


class PathShim:
    def __init__(self, fs, key=None):
        self.fs, self.key = fs, key

    def __truediv__(self, name):
        return PathShim(self.fs, self.fs.current_key)

    def exists(self):
        return bool(self.fs.exists)

    def mkdir(self, parents=False, exist_ok=False):
        pass


class Repr:
    def __init__(self, payload):
        self.payload = payload

    def encode(self):
        return arrays.Bytes("repr", self.payload)


def generate_class_level(ctx):
    if not ctx.wants(PROPS):
        return
    EXC = {}

    class BadZipFile(Exception):
        pass
    # np.load contract (DESIGN 3.2, widened after finding F17): an unreadable entry raises SOME exception at load or member
    # access -- OSError/ValueError/EOFError/KeyError/BadZipFile for truncations, NotImplementedError or RuntimeError for
    # a damaged archive directory (mangled version / compression / flag fields)
    EXC = {"OSError": OSError, "ValueError": ValueError, "EOFError": EOFError, "KeyError": KeyError,
           "BadZipFile": BadZipFile, "NotImplementedError": NotImplementedError, "RuntimeError": RuntimeError}

    class FS:
        pass

    def build(run, entry_state):
        fs = FS()
        fs.exists = sym.fresh_bool("entry_exists") if entry_state == "any" else SBool(entry_state != "absent")
        fs.current_key = None
        fs.saved = []
        stored = {k: arrays.fresh_array("stored_" + k, [sym.fresh_int("sn_" + k)], "float")
                  for k in ("X", "Y", "Z", "conc", "flx")}
        fs.stored = stored
        fs.state = entry_state

        class Npz:
            # NpzFile is a context manager (closing the archive); entering / leaving it reads nothing
            def __enter__(self):
                return self

            def __exit__(self, *a):
                return False

            def close(self):
                return None

            def __getitem__(self, k):
                if entry_state == "corrupt":
                    # any member access of an unreadable entry may raise any listed exception
                    for nm, ex in EXC.items():
                        if run.choice("member-%s-raises-%s" % (k, nm)):
                            raise ex("corrupt member")
                if k not in stored:
                    raise KeyError(k)
                return stored[k]

        class NPX(npshim.NP):
            def load(self, path):
                if entry_state == "corrupt":
                    for nm, ex in EXC.items():
                        if nm != "KeyError" and run.choice("load-raises-" + nm):
                            raise ex("corrupt file")
                    fs.load_ok_on_corrupt = True
                return Npz()

            def savez(self, path, **kw):
                fs.saved.append((path.key, kw))
        ns = harness.namespace("bldfm.cache")
        ns.update({"np": NPX(), "hashlib": HashlibShim, "Path": lambda p: PathShim(fs),
                   "zipfile": values.Rec("zipfile", BadZipFile=BadZipFile), "repr": Repr})
        cls = harness.define(ctx, ns, "bldfm.cache", "GreensFunctionCache")
        # the key text is spliced into the file name by an f-string: route it through the FS
        orig_ck = cls._compute_key

        def ck(self, *a, **k):
            key = orig_ck(self, *a, **k)
            fs.current_key = key
            return key
        cls._compute_key = ck
        return ns, cls, fs, stored

    def key_inputs(run):
        nz = sym.fresh_int("nz")
        run.assume(nz >= 1)
        z = arrays.fresh_array("z", [nz], "float")
        prof = tuple(arrays.fresh_array(n, [nz], "float") for n in ("u", "v", "Kx", "Ky", "Kz"))
        domain = (sym.fresh_real("xmx"), sym.fresh_real("ymx"))
        modes = (sym.fresh_int("nlx"), sym.fresh_int("nly"))
        meas = (sym.fresh_real("xm"), sym.fresh_real("ym"))
        halo = sym.fresh_real("halo")
        extra = (arrays.fresh_array("levels", [sym.fresh_int("nlvls")], "int"),
                 (sym.fresh_int("ny"), sym.fresh_int("nx")), True, sym.fresh_real("p000"))
        return dict(z=z, profiles=prof, domain=domain, modes=modes, meas_pt=meas, halo=halo,
                    precision="double", extra=extra)

    ARGS = ("z", "profiles", "domain", "modes", "meas_pt", "halo", "precision", "extra")

    def t_key(run):
        ns, cls, fs, stored = build(run, "absent")
        run.scope = "cache.GreensFunctionCache._compute_key"
        ka = key_inputs(run)
        c = cls("dir")
        key = c._compute_key(*[ka[a] for a in ARGS])
        run.oblige("returns-digest", SBool(isinstance(key, Key)), kind="post")
        if not isinstance(key, Key):
            return
        got = set()
        for p in key.parts:
            deps.value_symbols(p, got)
        want = set()
        for a in ARGS:
            deps.value_symbols(ka[a], want)
        miss = sorted(s for s in want - got if not s.startswith("dep"))
        extra_syms = sorted(s for s in got - want - MATH if not s.startswith("dep"))
        run.oblige("frame.every-argument-hashed", SBool(not miss), kind="frame", meta={"not_hashed": miss})
        run.oblige("frame.nothing-else-hashed", SBool(not extra_syms), kind="frame", meta={"extra": extra_syms})
        key2 = c._compute_key(*[ka[a] for a in ARGS])
        run.oblige("frame.deterministic", SBool(len(key.parts) == len(key2.parts)), kind="frame")
    ctx.explore("cache._compute_key", t_key, PROPS)

    for state in ("absent", "wellformed", "corrupt"):
        def t_get(run, state=state):
            ns, cls, fs, stored = build(run, state)
            run.scope = "cache.GreensFunctionCache.get[%s]" % state
            ka = key_inputs(run)
            c = cls("dir")
            # the classes the np.load contract may raise are named explicitly: NotImplementedError from the stub is behaviour
            # of the library under its contract here, not a modelling gap
            out = harness.call(run, c.get, *[ka[a] for a in ARGS], raises=(Exception, NotImplementedError, RuntimeError))
            if out.raised:
                run.oblige("xpost.never-raises[%s]" % type(out.exc).__name__, SBool(False), kind="xpost",
                           meta={"exception": repr(out.exc)})
                return
            v = out.value
            if state == "absent":
                run.oblige("absent-is-miss", SBool(v is None), kind="post")
            elif state == "wellformed":
                ok = isinstance(v, tuple) and len(v) == 3 and isinstance(v[0], tuple) and \
                    v[0][0] is stored["X"] and v[0][1] is stored["Y"] and v[0][2] is stored["Z"] and \
                    v[1] is stored["conc"] and v[2] is stored["flx"]
                run.oblige("hit-returns-stored-arrays", SBool(ok), kind="post")
            else:
                # np.load contract: an unreadable entry raises before all members are read; the
                # path on which nothing raised does not exist for a corrupt entry
                if getattr(fs, "load_ok_on_corrupt", False) and v is not None:
                    run.notes.append("all-reads-succeeded path (not a corrupt entry)")
                    return
                run.oblige("xpost.corrupt-is-miss", SBool(v is None), kind="xpost")
        ctx.explore("cache.get[%s]" % state, t_get, PROPS, max_paths=4000)

    def t_put_over(run):
        # an unreadable entry is a miss; the solve that follows must REPLACE it, or the request never hits
        ns, cls, fs, stored = build(run, "corrupt")
        run.scope = "cache.GreensFunctionCache.put[entry exists]"
        ka = key_inputs(run)
        c = cls("dir")
        grid = (stored["X"], stored["Y"], stored["Z"])
        c.put(*[ka[a] for a in ARGS[:-1]], grid, stored["conc"], stored["flx"], extra=ka["extra"])
        run.oblige("overwrites-an-existing-entry", SBool(len(fs.saved) >= 1), kind="post")
    ctx.explore("cache.put[exists]", t_put_over, PROPS)

    def t_put(run):
        ns, cls, fs, stored = build(run, "absent")
        run.scope = "cache.GreensFunctionCache.put"
        ka = key_inputs(run)
        c = cls("dir")
        kget = c._compute_key(*[ka[a] for a in ARGS])
        grid = (stored["X"], stored["Y"], stored["Z"])
        c.put(*[ka[a] for a in ARGS[:-1]], grid, stored["conc"], stored["flx"], extra=ka["extra"])
        run.oblige("saves-the-entry", SBool(len(fs.saved) >= 1), kind="post")
        if not fs.saved:
            return
        key, kw = fs.saved[-1]
        ok = set(kw) == {"X", "Y", "Z", "conc", "flx"} and all(kw[k] is stored[k] for k in kw)
        run.oblige("saves-the-five-arrays-under-their-names", SBool(ok), kind="post")
        same = isinstance(key, Key) and len(key.parts) == len(kget.parts)
        run.oblige("put-key-is-the-lookup-key", SBool(same), kind="post")
    ctx.explore("cache.put", t_put, PROPS)


def generate(ctx):
    generate_solver_level(ctx)
    generate_relational(ctx)
    generate_class_level(ctx)
