"""Contracts on bldfm.config_parser: MetConfig.{validate, n_timesteps, get_step},
BLDFMConfig.__post_init__  (property C16; reused by C13/C14).

Top-level postconditions are written from the statement of C16:
  * steps = common length of the list-valued fields among (ustar, mol, wind_speed, wind_dir),
    or 1 if all are scalars;
  * step i takes entry i of every list and the value of every scalar, the i-th timestamp or
    else the index i (and z0 iff configured);
  * rejected at construction (ValueError) iff (neither ustar nor z0) or two lists differ in
    length or timestamps are given with a length different from the number of steps.
The 3*2*2*2 list/scalar/None patterns x z0 x timestamps are enumerated (discrete
configurations); list LENGTHS and ELEMENTS are symbolic, so every length >= 0 is covered.
"""
import itertools

import z3

from pyvc import sym, values, harness
from pyvc.sym import Num, SBool, And, Or, Not, Implies

FIELDS = ("ustar", "mol", "wind_speed", "wind_dir")
PROPS = {"C16"}


def patterns():
    for us, mo, ws, wd, z0, ts in itertools.product(("none", "scalar", "list"), ("scalar", "list"),
                                                    ("scalar", "list"), ("scalar", "list"),
                                                    ("none", "scalar"), ("none", "list")):
        yield {"ustar": us, "mol": mo, "wind_speed": ws, "wind_dir": wd, "z0": z0, "timestamps": ts}


def cfg_name(p):
    ab = {"none": "N", "scalar": "s", "list": "L"}
    return "".join(ab[p[f]] for f in FIELDS) + "|z0=" + ab[p["z0"]] + "|ts=" + ab[p["timestamps"]]


def make_field(run, name, kind):
    if kind == "none":
        return None
    if kind == "scalar":
        return sym.fresh_real(name)
    n = sym.fresh_int("len_" + name)
    run.assume(n >= 0)
    f = z3.Function("el_" + name, z3.IntSort(), z3.RealSort())
    return values.SList(n, lambda i, f=f: Num(f(i.z()), True), name=name)


def make_met(run, ns, p):
    kw = {f: make_field(run, f, p[f]) for f in FIELDS}
    kw["z0"] = make_field(run, "z0", p["z0"])
    if p["timestamps"] == "list":
        n = sym.fresh_int("len_timestamps")
        run.assume(n >= 0)
        f = z3.Function("el_timestamps", z3.IntSort(), sym.SStr.sort())
        kw["timestamps"] = values.SList(n, lambda i, f=f: sym.SStr(f(i.z())), name="timestamps")
    else:
        kw["timestamps"] = None
    me = ns["MetConfig"](**kw)
    me.__dict__["_pyvc_given"] = dict(kw)      # the values handed to the constructor: the specification speaks of these
    return me


def given(me):
    return me.__dict__["_pyvc_given"]


# ---- specification (from the statement, over the values GIVEN at construction)
def spec_steps(me, p):
    lists = [given(me)[f] for f in FIELDS if p[f] == "list"]
    return lists[0].length if lists else Num(1)


def spec_rejected(me, p):
    lists = [given(me)[f] for f in FIELDS if p[f] == "list"]
    r = SBool(p["ustar"] == "none" and p["z0"] == "none")
    for a, b in itertools.combinations(lists, 2):
        r = r | (a.length != b.length)
    if p["timestamps"] == "list":
        r = r | (given(me)["timestamps"].length != spec_steps(me, p))
    return r


REPLAY_TMPL = r'''
from bldfm.config_parser import MetConfig, BLDFMConfig, DomainConfig, TowerConfig
P = %(pattern)r
L = %(lengths)r
def mk(f, kind):
    if kind == "none": return None
    if kind == "scalar": return 0.3
    return [0.1 * (k + 1) for k in range(L.get(f, 0))]
kw = {f: mk(f, P[f]) for f in ("ustar", "mol", "wind_speed", "wind_dir")}
kw["z0"] = None if P["z0"] == "none" else 0.1
kw["timestamps"] = None if P["timestamps"] == "none" else ["t%%d" %% k for k in range(L.get("timestamps", 0))]
lists = [len(v) for f, v in kw.items() if f in ("ustar", "mol", "wind_speed", "wind_dir") and isinstance(v, list)]
steps = lists[0] if lists else 1
rejected = (kw["ustar"] is None and kw["z0"] is None) or len(set(lists)) > 1 or \
    (kw["timestamps"] is not None and len(kw["timestamps"]) != steps)
met = MetConfig(**kw)
try:
    BLDFMConfig(domain=DomainConfig(nx=4, ny=4, xmax=1.0, ymax=1.0, nz=2),
                towers=[TowerConfig("T", 0.0, 0.0, 2.0)], met=met)
    raised = False
except ValueError:
    raised = True
ok = raised == rejected
detail = "pattern=%%s lengths=%%s rejected_expected=%%s raised=%%s" %% (P, L, rejected, raised)
if ok and not rejected:
    if met.n_timesteps != steps:
        ok = False; detail += " n_timesteps=%%s expected=%%s" %% (met.n_timesteps, steps)
    else:
        for i in range(steps):
            st = met.get_step(i)
            for f in ("ustar", "mol", "wind_speed", "wind_dir"):
                exp = kw[f][i] if isinstance(kw[f], list) else kw[f]
                if st[f] != exp:
                    ok = False; detail += " step %%d field %%s=%%r expected %%r" %% (i, f, st[f], exp)
            exp_ts = kw["timestamps"][i] if kw["timestamps"] is not None else i
            if st["timestamp"] != exp_ts:
                ok = False; detail += " step %%d timestamp=%%r expected %%r" %% (i, st["timestamp"], exp_ts)
            if ("z0" in st) != (kw["z0"] is not None):
                ok = False; detail += " z0 presence"
print(("REPLAY-PASS " if ok else "REPLAY-FAIL ") + detail)
raise SystemExit(0 if ok else 1)
'''


def make_replay(p):
    def replay(model):
        lengths = {}
        for k, v in model.items():
            if k.startswith("len_"):
                try:
                    lengths[k[4:]] = max(0, min(int(v), 6))
                except ValueError:
                    pass
        return {"code": REPLAY_TMPL % {"pattern": p, "lengths": lengths}}
    return replay


def generate(ctx):
    """ctx: harness.Context (props filter, tier).  Emits obligations into ctx."""
    ns = harness.namespace("bldfm.config_parser")
    harness.define(ctx, ns, "bldfm.config_parser", "MetConfig")
    for p in patterns():
        cfg = cfg_name(p)
        rp = make_replay(p)

        # ---------------- validate: exceptional postcondition
        def t_validate(run, p=p, cfg=cfg, rp=rp):
            me = make_met(run, ns, p)
            rej = spec_rejected(me, p)
            run.scope = "config_parser.MetConfig.validate[%s]" % cfg
            out = harness.call(run, me.validate, raises=(ValueError,))
            if out.raised:
                run.oblige("raises-only-if-rejected", rej, kind="xpost", replay=rp)
            else:
                run.oblige("returns-only-if-accepted", Not(rej), kind="xpost", replay=rp)
        ctx.explore("config_parser.MetConfig.validate[%s]" % cfg, t_validate, PROPS)

        # ---------------- n_timesteps: postcondition under validate's success
        def t_nsteps(run, p=p, cfg=cfg, rp=rp):
            me = make_met(run, ns, p)
            rej = spec_rejected(me, p)
            if rej.concrete and rej.t:
                return  # pattern rejected for every length: no accepted instance exists
            run.assume(Not(rej))
            run.scope = "config_parser.MetConfig.n_timesteps[%s]" % cfg
            run.cover("pre")
            n = me.n_timesteps
            run.oblige("steps-eq-common-length", sym.num(n) == spec_steps(me, p), kind="post", replay=rp)
        ctx.explore("config_parser.MetConfig.n_timesteps[%s]" % cfg, t_nsteps, PROPS | {"C14"})

        # ---------------- history: the count follows the CURRENT fields of the instance
        def t_hist(run, p=p, cfg=cfg, rp=rp):
            if not any(p[f] == "list" for f in FIELDS):
                return
            me = make_met(run, ns, p)
            rej = spec_rejected(me, p)
            if rej.concrete and rej.t:
                return
            run.assume(Not(rej))
            run.scope = "config_parser.MetConfig.n_timesteps[%s|after-reassignment]" % cfg
            n1 = me.n_timesteps
            n2 = sym.fresh_int("new_len")
            run.assume(n2 >= 0)
            for f in FIELDS:
                if p[f] == "list":
                    g = z3.Function("el2_" + f, z3.IntSort(), z3.RealSort())
                    setattr(me, f, values.SList(n2, lambda i, g=g: Num(g(i.z()), True), name=f))
            if p["timestamps"] == "list":
                me.timestamps = None
            me.validate()
            run.oblige("steps-follow-reassigned-fields", sym.num(me.n_timesteps) == n2, kind="post")
        ctx.explore("config_parser.MetConfig.n_timesteps[%s|history]" % cfg, t_hist, PROPS)

        # ---------------- get_step: postcondition, index preconditions
        def t_step(run, p=p, cfg=cfg, rp=rp):
            me = make_met(run, ns, p)
            rej = spec_rejected(me, p)
            if rej.concrete and rej.t:
                return
            run.assume(Not(rej))
            i = sym.fresh_int("i")
            run.assume((i >= 0) & (i < spec_steps(me, p)))
            run.scope = "config_parser.MetConfig.get_step[%s]" % cfg
            run.cover("pre")
            run.props = PROPS | {"C13"}
            st = me.get_step(i)
            for f in FIELDS:
                v = given(me)[f]
                if p[f] == "none":
                    run.oblige("field-" + f, SBool(st[f] is None), kind="post", replay=rp)
                elif p[f] == "scalar":
                    run.oblige("field-" + f, st[f] == v, kind="post", replay=rp)
                else:
                    run.oblige("field-" + f, st[f] == v.elem(i), kind="post", replay=rp)
            if p["z0"] == "none":
                run.oblige("z0-absent", SBool("z0" not in st), kind="post", replay=rp)
            else:
                run.oblige("z0-present", SBool("z0" in st) & (st.get("z0", Num(0)) == given(me)["z0"]), kind="post",
                           replay=rp)
            if p["timestamps"] == "none":
                run.oblige("timestamp-is-index", sym.num(st["timestamp"]) == i, kind="post", replay=rp)
            else:
                run.oblige("timestamp-ith", st["timestamp"] == given(me)["timestamps"].elem(i), kind="post", replay=rp)
            run.oblige("keys", SBool(set(st.keys()) == set(FIELDS) | {"timestamp"} |
                                     ({"z0"} if p["z0"] != "none" else set())), kind="post", replay=rp)
        ctx.explore("config_parser.MetConfig.get_step[%s]" % cfg, t_step, PROPS | {"C13"})

    # ---------------- BLDFMConfig.__post_init__ calls validate at construction
    for c in ("SolverConfig", "OutputConfig", "ParallelConfig"):
        harness.define(ctx, ns, "bldfm.config_parser", c)
    harness.define(ctx, ns, "bldfm.config_parser", "BLDFMConfig")

    def t_post_init(run):
        called = []

        class Met(values.Rec):
            def validate(self):
                called.append(1)
        dom = values.Rec("domain", ref_lat=None, ref_lon=None)
        run.scope = "config_parser.BLDFMConfig.__post_init__"
        ns["BLDFMConfig"](domain=dom, towers=[], met=Met("met"))
        run.oblige("validate-called-at-construction", SBool(len(called) >= 1), kind="post")
    ctx.explore("config_parser.BLDFMConfig.__post_init__", t_post_init, PROPS)
