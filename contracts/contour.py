"""C20: bldfm.plotting.footprint.extract_percentile_contour, plotting._common._maybe_slice_level."""
import z3

from pyvc import sym, arrays, harness, loops, npshim
from pyvc.sym import Num, SBool, num, ite
from pyvc.arrays import Arr, Axis

P = {"C20"}


def generate(ctx):
    if not ctx.wants(P):
        return
    ns = harness.namespace("bldfm.plotting.footprint")
    ns["np"] = npshim.NP()
    msl = harness.define(ctx, ns, "bldfm.plotting._common", "_maybe_slice_level")
    f = harness.define(ctx, ns, "bldfm.plotting.footprint", "extract_percentile_contour")

    for dim, cdim in (("2d", "2d"), ("2d", "1d"), ("3d", "3d"), ("3d", "2d")):
        def thunk(run, dim=dim, cdim=cdim):
            run.scope = "plotting.extract_percentile_contour[field=%s|coords=%s]" % (dim, cdim)
            ny, nx, nzl = sym.fresh_int("ny"), sym.fresh_int("nx"), sym.fresh_int("nlev")
            run.assume((ny >= 2) & (nx >= 2) & (nzl >= 1))
            lvl = sym.fresh_int("level")
            run.assume((lvl >= 0) & (lvl < nzl))
            if dim == "3d":
                F = arrays.fresh_array("flx", [nzl, ny, nx], "float")
                slab = Arr([Axis(ny), Axis(nx)], lambda j, i: F.at(lvl, j, i), "float")
            else:
                F = arrays.fresh_array("flx", [ny, nx], "float")
                slab = F
            if cdim == "3d":
                X, Y = arrays.fresh_array("X", [nzl, ny, nx], "float"), arrays.fresh_array("Y", [nzl, ny, nx], "float")
                dx = abs(X.at(lvl, 0, 1) - X.at(lvl, 0, 0))
                dy = abs(Y.at(lvl, 1, 0) - Y.at(lvl, 0, 0))
            elif cdim == "2d":
                X, Y = arrays.fresh_array("X", [ny, nx], "float"), arrays.fresh_array("Y", [ny, nx], "float")
                dx = abs(X.at(0, 1) - X.at(0, 0))
                dy = abs(Y.at(1, 0) - Y.at(0, 0))
            else:
                X, Y = arrays.fresh_array("X", [nx], "float"), arrays.fresh_array("Y", [ny], "float")
                dx = abs(X.at(1) - X.at(0))
                dy = abs(Y.at(1) - Y.at(0))
            Z = arrays.fresh_array("Z", [nzl, ny, nx] if cdim == "3d" else [ny, nx], "float")
            pct = sym.fresh_real("pct")
            run.assume((pct > 0) & (pct <= 1))
            # footprint non-negative (precondition from the statement): instantiated where read
            rawF = F._fn

            def nonneg(*c):
                v = rawF(*c)
                run.assume(num(v) >= 0)
                return v
            F._fn = nonneg
            out = harness.call(run, f, F, (X, Y, Z), pct=pct, level=lvl).value
            level, area = out
            perms = run.__dict__.get("perms", [])
            ghosts = run.__dict__.get("prefix_ghosts", [])
            searches = run.__dict__.get("searches", [])
            ok = len(perms) == 1 and len(ghosts) == 1 and len(searches) == 1
            run.oblige("one-sort-one-cumulative-sum-one-search", SBool(ok), kind="post", props=P, meta={"structural": True})
            if not ok:
                return
            pi, gh, se = perms[0], ghosts[0], searches[0]
            n = pi.axes[0].size
            flat = slab.ravel()
            A = dx * dy
            ordr = lambda r: pi.at(n - 1 - num(r))  # noqa: E731
            # the values searched are the descending cumulative sums times the cell area
            loops.oblige_equal(run, "sorted-values-are-the-slab-in-descending-order", gh["array"],
                               Arr([Axis(n)], lambda t: flat.at(ordr(t)), "float"), kind="post", props=P)
            loops.oblige_equal(run, "searched-array-is-cumulative-sum-times-cell-area", se["a"],
                               Arr([Axis(n)], lambda t: gh["prefix"](num(t) + 1) * A, "float"), kind="post", props=P)
            total = gh["prefix"](n) * A
            run.oblige("target-is-fraction-of-total", loops.scalar_eq(se["v"], pct * total), kind="post", props=P, view="value")
            k = se["k"]
            # k = least index with cumulative(k+1)*A >= p*total  (searchsorted contract) ; k+1 cells
            run.oblige("area-is-count-times-cell-area", loops.scalar_eq(area, (k + 1) * A), kind="post", props=P, view="value")
            run.oblige("level-is-smallest-of-the-selected-cells", loops.scalar_eq(level, flat.at(ordr(sym.smin(k, n - 1)))), kind="post",
                       props=P, view="value")
            run.oblige("search-finds-the-FEWEST-cells-reaching-the-fraction (least index, side=left)", SBool(se.get("side") == "left"),
                       kind="post", props=P)
            run.cover("path")
        ctx.explore("plotting.extract_percentile_contour[%s|%s]" % (dim, cdim), thunk, P)
