"""C12: a solve is a function of its arguments (the part contracts can decide, in real
arithmetic): frame obligations on module state, argument mutation, precision, the FFT
manager singleton and the kernel wrapper."""
import ast
import builtins

import z3

from pyvc import sym, arrays, harness, frontend, values, npshim
from pyvc.sym import Num, SBool, num
from contracts import solver as S

PROPS = {"C12"}

ALLOWED_GLOBALS = {
    "bldfm.solver:steady_state_transport_solver": {
        "np", "fftshift", "ifftshift", "fftfreq", "fft2", "ifft2", "get_fft_manager", "set_num_threads",
        "logger", "config", "ivp_solver"},
    "bldfm.solver:ivp_solver": {"np"},
}
# module-level names whose effect on VALUES is declared neutral by the library contracts
NEUTRAL_STATE = {"config (NUM_THREADS only selects thread set-up calls)", "get_fft_manager/set_num_threads (no value effect: DFT contract)",
                 "logger"}


def global_reads(modname, qualname):
    mod = frontend.module(modname)
    node = mod.find(qualname)
    params = {a.arg for a in node.args.args + node.args.kwonlyargs}
    if node.args.vararg:
        params.add(node.args.vararg.arg)
    if node.args.kwarg:
        params.add(node.args.kwarg.arg)
    stored, loaded, glob, attr_store = set(), set(), set(), []
    for n in (x for st in node.body for x in ast.walk(st)):
        if isinstance(n, ast.Name):
            if isinstance(n.ctx, ast.Store):
                stored.add(n.id)
            elif isinstance(n.ctx, ast.Load):
                loaded.add(n.id)
        elif isinstance(n, (ast.Global, ast.Nonlocal)):
            glob.update(n.names)
        elif isinstance(n, ast.Attribute) and isinstance(n.ctx, ast.Store):
            b = n.value
            while isinstance(b, ast.Attribute):
                b = b.value
            if isinstance(b, ast.Name):
                attr_store.append(b.id + "." + n.attr)
        elif isinstance(n, (ast.Import, ast.ImportFrom)):
            for a in n.names:
                stored.add((a.asname or a.name).split(".")[0])
    free = {x for x in loaded - stored - params if not hasattr(builtins, x)}
    mutable_defaults = [ast.dump(d)[:40] for d in node.args.defaults + [k for k in node.args.kw_defaults if k]
                        if isinstance(d, (ast.List, ast.Dict, ast.Set, ast.Call, ast.ListComp, ast.DictComp))]
    return free, glob, attr_store, mutable_defaults


STATIC = {
    # function -> properties whose statement says "depends only on its arguments / equals the pipeline"
    "bldfm.solver:steady_state_transport_solver": {"C01", "C02", "C03", "C04", "C05", "C06", "C07", "C10", "C11", "C12", "C15"},
    "bldfm.solver:ivp_solver": {"C01", "C02", "C03", "C04", "C05", "C06", "C07", "C10", "C11", "C12"},
    "bldfm.fft_manager:fft2": {"C02", "C06", "C10", "C12"},
    "bldfm.fft_manager:ifft2": {"C02", "C06", "C10", "C12"},
    "bldfm.config_parser:load_config": {"C13"},
    "bldfm.config_parser:parse_config_dict": {"C13"},
    "bldfm.config_parser:latlon_to_xy": {"C17"},
    "bldfm.io:save_footprints_to_netcdf": {"C18"},
    "bldfm.ffm_kormann_meixner:estimateFootprint": {"C19"},
    "bldfm.utils:get_source_area": {"C20"},
    "bldfm.interface:run_bldfm_single": {"C13", "C12"},
    "bldfm.interface:run_bldfm_timeseries": {"C14"},
    "bldfm.interface:run_bldfm_multitower": {"C14"},
    "bldfm.interface:run_bldfm_parallel": {"C14"},
    "bldfm.utils:ideal_source": {"C13"},
    "bldfm.utils:compute_wind_fields": {"C13", "C08"},
    "bldfm.pbl_model:vertical_profiles": {"C13", "C09"},
    "bldfm.pbl_model:psi": {"C09"},
    "bldfm.pbl_model:phi": {"C09"},
}


# helpers that have their own contract (the FFT-manager singleton: generate_fft_manager) are not followed
UNDER_OWN_CONTRACT = {"get_fft_manager", "reset_fft_manager", "get_logger"}


def reachable_helpers(modname, qualname, limit=40):
    """qualname plus the module-level functions of the same module it (transitively) refers to by name."""
    from pyvc.harness import module_level_binding
    seen, todo = [], [qualname]
    while todo and len(seen) < limit:
        q = todo.pop()
        if q in seen:
            continue
        seen.append(q)
        try:
            free = global_reads(modname, q)[0]
        except Exception:
            continue
        for n in sorted(free):
            b = module_level_binding(modname, n)
            if b and b[0] == "function" and n not in seen and n not in UNDER_OWN_CONTRACT:
                todo.append(n)
    return seen


def generate_static(ctx, only=None):
    """AST-level frame: the function reads no MUTABLE module-level state (a memo dict, an
    accumulator list, a rebinding through `global`), writes no module attribute and has no
    mutable default argument.  Module-level functions, classes, imports and constants are fine."""
    from pyvc.harness import module_level_binding
    for fq, props in STATIC.items():
        if only and fq not in only:
            continue
        if not ctx.wants(props):
            continue

        def thunk(run, fq=fq, props=props):
            modname, qual = fq.split(":")
            free, glob, attr_store, mdef = set(), set(), [], []
            helpers = reachable_helpers(modname, qual) if "." not in qual else [qual]
            for q in helpers:      # the function and the module-level helpers it reaches (same module)
                f_, g_, a_, m_ = global_reads(modname, q)
                free |= f_
                glob |= g_
                attr_store += [x for x in a_ if x.split(".")[0] in f_ and (module_level_binding(modname, x.split(".")[0]) or ("", None))[0] not in ("", None)] if q != qual else a_
                mdef += m_
            run.scope = fq.replace("bldfm.", "")
            mutable = sorted(n for n in free if (module_level_binding(modname, n) or ("", None))[0] == "mutable")
            # SUFFICIENT conditions for "the result is a function of the arguments": a module-level memo with a complete
            # key would break them without breaking the property, so they are structural premises (a violation only
            # together with a native failing history from the bounded stand-in)
            st = {"structural": True, "functions_examined": helpers}
            if fq.startswith("bldfm.solver"):
                # a refuted frame obligation of the solver triggers the native witness search over call histories
                st["history_search"] = True
            run.oblige("frame.reads-no-mutable-module-state", SBool(not mutable), kind="frame", props=props,
                       meta=dict(st, mutable_module_level_names_read=mutable))
            run.oblige("frame.declares-no-global", SBool(not glob), kind="frame", props=props, meta=dict(st, **{"global": sorted(glob)}))
            if fq.startswith("bldfm.solver"):
                run.oblige("frame.writes-no-module-attribute", SBool(not attr_store), kind="frame", props=props, meta=dict(st, stores=attr_store))
            run.oblige("frame.no-mutable-default-argument", SBool(not mdef), kind="frame", props=props, meta=dict(st, defaults=mdef))
            info = frontend.FuncInfo(modname, qual, frontend.module(modname).find(qual), frontend.module(modname))
            ctx.add_function(info)
        ctx.explore("static-frames:" + fq, thunk, props)


def generate_solver(ctx):
    """SC/TC/GEO hold for both thread branches and both storage precisions with ONE spec:
    the spec mentions neither NUM_THREADS nor precision, hence neither can influence the result."""
    if not ctx.wants(PROPS):
        return
    ns = S.make_namespace(ctx)
    st = {}
    f = harness.define(ctx, ns, "bldfm.solver", "steady_state_transport_solver",
                       loop_specs={S.MEAN_LOOP: S.MeanLoop(st)}, label=S.LABEL)
    for cfg in S.configs(("single", "double", "other")):
        if cfg.halo != "value" or cfg.levels != "seq":
            continue

        def thunk(run, cfg=cfg):
            inp = S.SInputs(run, cfg, symbolic_threads=True)
            st["inp"] = inp
            st["S00"] = lambda: S.S00_of(run, inp)
            run.scope = "solver.S[%s|threads=symbolic]" % cfg.name()
            run.props = set(PROPS)
            inputs = [inp.q0, inp.z] + list(inp.prof) + ([inp.levels] if isinstance(inp.levels, arrays.Arr) else [])
            before = [(a._fn, len(a.axes)) for a in inputs]
            out, log, threads = S.run_S(ctx, ns, run, inp, f)
            if cfg.precision == "other":
                run.oblige("unknown-precision-rejected", SBool(out.raised and isinstance(out.exc, ValueError)), kind="xpost")
                return
            if out.raised:
                return
            S.check_return(run, inp, out)
            for ob in run.obligations:
                ob.props = set(ob.props) | PROPS
            after = [(a._fn, len(a.axes)) for a in inputs]
            run.oblige("frame.arguments-not-mutated", SBool(all(x[0] is y[0] for x, y in zip(before, after))), kind="frame")
            # thread set-up: what the stubs saw
            nt = inp.num_threads
            many = (nt > 1)
            want_fft = [t for t in threads if t[0] == "fft"]
            run.oblige("fft-manager-set-up-called", SBool(len(want_fft) >= (0 if cfg.analytic else 1)), kind="post")
            run.cover("path")
        ctx.explore("solver.S[%s|threads=symbolic]" % cfg.name(), thunk, PROPS)


def generate_fft_manager(ctx):
    if not ctx.wants(PROPS | {"C02", "C06"}):
        return

    def build(run, prev):
        """The REAL FFTManager class and module functions, compiled against stubs of what they import:
        pyfftw (config, interfaces.cache, wisdom import/export), pyfftw.interfaces.numpy_fft (the library
        transforms: opaque, recorded), pickle, atexit, pathlib.Path, open."""
        made, lib_calls, registered = [], [], []

        class _Cfg:
            NUM_THREADS = None

        class _Cache:
            @staticmethod
            def enable():
                lib_calls.append(("cache.enable",))

            @staticmethod
            def disable():
                lib_calls.append(("cache.disable",))

            @staticmethod
            def set_keepalive_time(t):
                lib_calls.append(("cache.keepalive", t))

        class _Interfaces:
            cache = _Cache

        class pyfftw:
            config = _Cfg
            interfaces = _Interfaces

            @staticmethod
            def import_wisdom(w):
                return (True, True, True)

            @staticmethod
            def export_wisdom():
                return ("wisdom",)

        class pyfftw_fft:
            @staticmethod
            def fft2(x, norm="backward", **kw):
                return ("pyfftw.fft2", x, norm, kw)

            @staticmethod
            def ifft2(x, norm="backward", **kw):
                return ("pyfftw.ifft2", x, norm, kw)

        class Path:
            def __init__(self, p):
                self.p = p

            def exists(self):
                return bool(sym.fresh_bool("wisdom_file_exists"))

        class _File:
            def __enter__(self):
                return self

            def __exit__(self, *a):
                return False

        class pickle:
            @staticmethod
            def load(f):
                return ("wisdom",)

            @staticmethod
            def dump(w, f):
                lib_calls.append(("pickle.dump",))

        class atexit:
            @staticmethod
            def register(fn):
                registered.append(fn)
        ns = harness.namespace("bldfm.fft_manager")
        ns.update({"pyfftw": pyfftw, "pyfftw_fft": pyfftw_fft, "Path": Path, "pickle": pickle, "atexit": atexit,
                   "open": lambda *a, **k: _File()})
        ns["__builtins__"] = dict(ns["__builtins__"], open=lambda *a, **k: _File(), all=all, Exception=Exception)
        real = harness.define(ctx, ns, "bldfm.fft_manager", "FFTManager")

        class FFTManager(real):
            def __init__(self, *a, **k):
                real.__init__(self, *a, **k)
                made.append(self)
        ns["FFTManager"] = FFTManager
        for fn in ("get_fft_manager", "reset_fft_manager", "fft2", "ifft2"):
            harness.define(ctx, ns, "bldfm.fft_manager", fn)
        if prev == "none":
            ns["_fft_manager"] = None
        else:
            m = FFTManager(num_threads=sym.fresh_int("prev_threads"))
            made.clear()
            ns["_fft_manager"] = m
        ns["__lib_calls__"] = lib_calls
        return ns, made

    for prev in ("none", "some"):
        def t_get(run, prev=prev):
            ns, made = build(run, prev)
            run.scope = "fft_manager.get_fft_manager[prev=%s]" % prev
            n = sym.fresh_int("n_threads")
            run.assume(n >= 1)
            m = ns["get_fft_manager"](num_threads=n)
            run.oblige("returns-manager-with-requested-threads", num(m.num_threads) == n, kind="post",
                       props=PROPS)
            run.oblige("singleton-updated", SBool(ns["_fft_manager"] is m), kind="post", props=PROPS)
            m2 = ns["get_fft_manager"](num_threads=n)
            run.oblige("idempotent", SBool(m2 is m), kind="post", props=PROPS)
            ns["reset_fft_manager"]()
            run.oblige("reset-clears", SBool(ns["_fft_manager"] is None), kind="post", props=PROPS)
        ctx.explore("fft_manager.get_fft_manager[%s]" % prev, t_get, PROPS)

        def t_fft(run, prev=prev):
            ns, made = build(run, prev)
            run.scope = "fft_manager.fft2/ifft2[prev=%s]" % prev
            x = object()
            for name, lib in (("fft2", "pyfftw.fft2"), ("ifft2", "pyfftw.ifft2")):
                for norm in ("forward", "backward"):
                    r = ns[name](x, norm=norm)
                    ok = isinstance(r, tuple) and r[0] == lib and r[1] is x and r[2] == norm and not r[3]
                    run.oblige("%s[%s]-is-the-library-transform-of-its-argument" % (name, norm), SBool(ok), kind="post",
                               props=PROPS | {"C02", "C06"})
                r = ns[name](x)
                run.oblige("%s-default-norm-backward" % name, SBool(isinstance(r, tuple) and r[2] == "backward"), kind="post",
                           props=PROPS)
        ctx.explore("fft_manager.fft2[%s]" % prev, t_fft, PROPS | {"C02", "C06"})


def generate_parallelize(ctx):
    if not ctx.wants(PROPS):
        return

    def thunk(run):
        calls = []

        class numba:
            @staticmethod
            def jit(nopython=True, parallel=False, cache=True):
                def deco(func):
                    def kernel(*a, **k):
                        calls.append(("kernel", parallel))
                        return ("jit-result", func(*a, **k))
                    return kernel
                return deco
        cfg = values.Rec("config", NUM_THREADS=sym.fresh_int("NUM_THREADS"))
        ns = harness.namespace("bldfm.utils")
        ns.update({"numba": numba, "config": cfg})
        par = harness.define(ctx, ns, "bldfm.utils", "parallelize")
        run.scope = "utils.parallelize"
        body = lambda a, b: ("body", a, b)  # noqa: E731
        w = par(body)
        x, y = object(), object()
        r1 = w(x, y)
        cfg.NUM_THREADS = sym.fresh_int("NUM_THREADS2")
        r2 = w(x, y)
        ok = r1 == ("jit-result", ("body", x, y)) and r2 == r1
        run.oblige("wrapper-returns-kernel-of-the-decorated-body-on-the-same-arguments", SBool(ok), kind="post")
        run.oblige("kernel-called-once-per-call", SBool(len(calls) == 2), kind="post", meta={"structural": True})
    ctx.explore("utils.parallelize", thunk, PROPS)


def generate(ctx):
    generate_static(ctx)
    generate_solver(ctx)
    generate_fft_manager(ctx)
    generate_parallelize(ctx)
