#!/bin/bash
# usage: tools/mutQ.sh <modules> <prop> <file-relative-to-src/bldfm> <old> <new>   (mutates a scratch copy of /repo HEAD)
M=/verif/.work/mut$$
rm -rf $M; mkdir -p $M; cp -r /repo/src $M/src
python3 - "$M/src/bldfm/$3" "$4" "$5" <<'PY' || { rm -rf $M; exit 1; }
import sys
p,old,new=sys.argv[1:4]
s=open(p).read()
assert old in s, "pattern not found: "+old
s=s.replace(old,new,1)
open(p,'w').write(s)
PY
PYVC_REPO=$M python3-vt tools/try.py $1 $2 200 2>&1 | grep -vE "^WARNING" | cut -c1-260 | tail -${TOP:-6}
rm -rf $M
