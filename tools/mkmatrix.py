"""Builds the markdown catch matrix for DESIGN.md from seeded_eval logs and seeded/*/meta.json (dev tool)."""
import glob, json, os, re, sys
rows = {}
for log in sys.argv[1:]:
    cur = None
    for line in open(log):
        m = re.match(r"(\S+) (C\d+) rc=(\d) viol=(\d+) (\[.*?\]) und=(\d+) chk=(\d+)", line)
        if m:
            cur = m.group(1)
            rows[(cur, m.group(2))] = {"rc": int(m.group(3)), "viol": int(m.group(4)), "kinds": m.group(5), "und": int(m.group(6)), "first": []}
        elif cur and line.startswith("       VIOLATION"):
            k = [k for k in rows if k[0] == cur][-1]
            name = re.sub(r".*replay=/verif/replays/C\d+-", "", line.strip()).replace(".json", "")
            rows[k]["first"].append(name[:90])
print("| change | property | what it does (author's words) | verdict | caught by |")
print("|---|---|---|---|---|")
for (name, prop), r in sorted(rows.items()):
    d = "/verif/seeded/" + name
    desc = ""
    if os.path.exists(d + "/notes.md"):
        txt = [l.strip() for l in open(d + "/notes.md") if l.strip() and not l.startswith("#")]
        desc = re.sub(r"\*\*", "", " ".join(txt[:2]))[:150].replace("|", "/")
    by = "contract obligation + bounded witness" if "contract" in r["kinds"] and "bounded" in r["kinds"] else ("contract obligation (regression of a discharged obligation)" if "contract" in r["kinds"] else ("bounded stand-in (contract part undecided)" if r["viol"] else "MISSED"))
    ex = "; ".join(r["first"][:2])
    print("| %s | %s | %s | %s | %s: %s |" % (name, prop, desc, "VIOLATION" if r["rc"] == 1 else "rc=%d" % r["rc"], by, ex))
