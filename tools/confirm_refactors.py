"""Confirms behaviour-preserving refactorings written by sub-agents: each applies to a clean scratch worktree of /repo
and the unedited test suite passes; copies them to /verif/tools/refactors3/<name>.diff (+notes) with a PROPS.json that
maps each to the properties whose contracts read the changed files.  (dev tool)
usage: confirm_refactors.py <dir with */R_*/patch.diff> <dest dir>"""
import glob, json, os, re, shutil, subprocess, sys
SRC, DST = sys.argv[1], sys.argv[2]
FILEPROPS = {"solver.py": ["C01", "C02", "C03", "C04", "C05", "C06", "C07", "C10", "C11", "C12", "C15"], "pbl_model.py": ["C08", "C09"],
             "interface.py": ["C08", "C10", "C13", "C14", "C16"], "config_parser.py": ["C08", "C13", "C16", "C17"], "io.py": ["C18"],
             "ffm_kormann_meixner.py": ["C19", "C09"], "utils.py": ["C02", "C08", "C12", "C20"], "cache.py": ["C15"],
             "fft_manager.py": ["C12", "C02", "C06"], "_geo.py": ["C17"], "footprint.py": ["C20"], "_common.py": ["C20"]}
os.makedirs(DST, exist_ok=True)
props = {}
wt = "/tmp/confirm_wt_r"
subprocess.run("git -C /repo worktree remove --force %s; git -C /repo worktree add --detach %s HEAD" % (wt, wt), shell=True, capture_output=True)
for d in sorted(glob.glob(os.path.join(SRC, "*", "R_*"))):
    name = os.path.basename(d)
    subprocess.run("git checkout -- . && git clean -fdxq", shell=True, cwd=wt, capture_output=True)
    a = subprocess.run("git apply %s/patch.diff" % d, shell=True, cwd=wt, capture_output=True, text=True)
    t = subprocess.run("/venv/bin/python -m pytest -q -p no:cacheprovider --timeout=900 tests", shell=True, cwd=wt, capture_output=True, text=True,
                       env=dict(os.environ, PYTHONPATH=wt + "/src", PYTHONDONTWRITEBYTECODE="1"))
    summ = [l for l in (t.stdout or "").splitlines() if re.search(r"\d+ passed", l)]
    ok = a.returncode == 0 and t.returncode == 0 and summ and "failed" not in summ[-1]
    print(name, "applies" if a.returncode == 0 else "DOES-NOT-APPLY", summ[-1] if summ else (t.stdout or "")[-200:], flush=True)
    if ok:
        shutil.copy(os.path.join(d, "patch.diff"), os.path.join(DST, name + ".diff"))
        if os.path.exists(os.path.join(d, "notes.md")):
            shutil.copy(os.path.join(d, "notes.md"), os.path.join(DST, name + ".notes.md"))
        files = re.findall(r"^diff --git a/(\S+)", open(os.path.join(d, "patch.diff")).read(), flags=re.M)
        ps = []
        for f in files:
            for p in FILEPROPS.get(os.path.basename(f), []):
                if p not in ps:
                    ps.append(p)
        own = name.split("_")[1]
        if own not in ps:
            ps.insert(0, own)
        props[name] = sorted(ps)
subprocess.run("git -C /repo worktree remove --force %s" % wt, shell=True, capture_output=True)
json.dump(props, open(os.path.join(DST, "PROPS.json"), "w"), indent=1)
print("confirmed", len(props))
