import sys, importlib, time
sys.path.insert(0, '/verif')
import z3
from pyvc import harness, valueview
ctx = harness.Context({"C19"})
importlib.import_module('contracts.km').generate(ctx)
o = [o for o in ctx.obligations if "zm:float|wd=given]:post:downwind" in o.name][0]
g = o.goal
lhs = g.arg(1) if g.arg(0).num_args()==0 else g.arg(0)
print(z3.is_eq(g), lhs.decl().name(), lhs.num_args())
cond = lhs.arg(0)
s = z3.Solver(); si = z3.Solver()
for c in o.pc:
    s.add(c)
case = valueview.Case(s, {"queries":0,"cases":0,"atoms":0}, int_solver=si)
case.assumptions = list(o.pc)
case.deadline = time.time()+60
print("COND", cond.sexpr()[:300])
q = case.norm(cond.arg(0)) - case.norm(cond.arg(1))
print("q terms", len(q.n.d), len(q.d.d))
for e, op in case.known_signs():
    print("known", op, len(e.n.d), len(e.d.d), case.rf_equal(q, e))
print([ (case.atom_names.get(a[1]), k) for m,c in list(q.n.d.items())[:3] for a,k in m])
print("---- known[-1]")
e,op = case.known_signs()[-1]
print([ (case.atom_names.get(a[1]), k) for m,c in list(e.n.d.items())[:3] for a,k in m])
def show(p):
    for m,c in p.d.items():
        print("   ", c, [ (case.atom_names.get(a[1], a)[-90:], k) for a,k in m])
print("Q.n"); show(q.n); print("Q.d"); show(q.d)
R = z3.RealSort()
wd, pi = z3.Real("wd"), z3.Real("pi")
cosf = z3.Function("cos", R, R)
t = cosf(wd*pi/180 - pi*z3.RealVal("1/2"))
r = case.norm(t)
print("cos(wd pi/180 - pi/2) ->"); show(r.n); show(r.d)
a = case.norm(wd*pi/180 - pi*z3.RealVal("1/2"))
print("ARG"); show(a.n); show(a.d)
pr = case.norm(z3.Real("pi")); print("PI"); show(pr.n)
print(list(a.n.d.keys()), list(pr.n.d.keys()))
print(case.trig_rules("cos", a))
