#!/bin/bash
# usage: tools/runall.sh [tier] [props...]
tier=${1:-quick}; shift
props=${@:-C01 C02 C03 C04 C05 C06 C07 C08 C09 C10 C11 C12 C13 C14 C15 C16 C17 C18 C19 C20}
for p in $props; do
  s=$(date +%s)
  out=$(./check $p --tier $tier 2>&1); rc=$?
  e=$(date +%s)
  echo "$p rc=$rc $((e-s))s :: $(echo "$out" | grep -E '^property' | cut -c1-150)"
  echo "$out" | grep -E "^(VIOLATION|UNDECIDED|CHECKER-FAILURE|KNOWN-FINDING)" | cut -c1-260 | head -6
done
