import sys, time
sys.path.insert(0, '/verif')
from pyvc import harness, engine, smt
from contracts import solver
ctx = harness.Context({"C11"})
t0 = time.time()
import itertools
sel = sys.argv[1:] 
cfgs = [c for c in solver.configs() if not sel or any(s in c.name() for s in sel)]
solver.explore_paths(ctx, cfgs)
for o in ctx.obligations: o.props.add("C11")
print("gen time", round(time.time() - t0, 2), "paths", ctx.paths, "obligations", len(ctx.obligations), "undecided", [(u['obligation'], u['reason'][:600]) for u in ctx.undecided[:3]])
t0 = time.time()
res = smt.discharge(ctx.obligations, timeout_s=30)
print("solve time", round(time.time() - t0, 2))
from collections import Counter
print(Counter((o.expect, r['result']) for o, r in zip(ctx.obligations, res)))
shown = set()
for o, r in zip(ctx.obligations, res):
    if (o.expect == 'unsat') != (r['result'] == 'unsat') and o.name not in shown:
        shown.add(o.name)
        print(r['result'], o.name, r.get('reason', '')[:300], str(r.get('value_failure', ''))[:700], r.get('stats'))
slow = sorted(zip(ctx.obligations, res), key=lambda x: -x[1].get('time_s', 0))[:5]
for o, r in slow: print('slow', round(r.get('time_s', 0), 2), o.name, r.get('stats'))
import json
for o, r in zip(ctx.obligations, res):
    if 'value_failure' in r and 'fftp' in o.name:
        vf = r['value_failure']
        print("CASE", vf['case']); print("MODEL", vf['model']); print("RESID", json.dumps(vf['residual'])[:3000]); break
