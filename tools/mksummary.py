"""Dev tool: per-property summary table of seeded/CATCH_MATRIX.md (for DESIGN.md 8.7)."""
import re, collections, os
V = os.path.dirname(os.path.dirname(os.path.abspath(__file__)))
rows = []
for l in open(os.path.join(V, "seeded", "CATCH_MATRIX.md")):
    m = re.match(r"\| (C\d\d_\d+) \| (C\d\d) \| (.*?) \| (VIOLATION|rc=\d) \| (.*?) \| (.*) \|", l)
    if m:
        rows.append(m.groups())
by = collections.defaultdict(collections.Counter)
for name, prop, title, verdict, how, first in rows:
    k = "missed" if verdict != "VIOLATION" else ("both" if how.startswith("contract obligation + bounded") else ("contract" if how.startswith("contract obligation") else "bounded"))
    by[prop][k] += 1
print("| property | changes | contract obligation + bounded native witness | contract obligation alone | bounded stand-in alone | missed |")
print("|---|---|---|---|---|---|")
t = collections.Counter()
for p in sorted(by):
    c = by[p]
    t.update(c)
    print("| %s | %d | %d | %d | %d | %d |" % (p, sum(c.values()), c["both"], c["contract"], c["bounded"], c["missed"]))
print("| all | %d | %d | %d | %d | %d |" % (sum(t.values()), t["both"], t["contract"], t["bounded"], t["missed"]))
