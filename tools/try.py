import sys, time, importlib
sys.path.insert(0, '/verif')
from pyvc import harness, smt
mod, prop = sys.argv[1], sys.argv[2]
ctx = harness.Context({prop})
t0=time.time()
m = importlib.import_module('contracts.'+mod)
m.generate(ctx)
print('generated', len(ctx.obligations), 'obligations in', round(time.time()-t0,2), 's; paths', ctx.paths, 'undecided', len(ctx.undecided))
for u in ctx.undecided[:5]: print('UNDECIDED', u['obligation'], u['reason'][:1500])
t0=time.time()
res = smt.discharge(ctx.obligations, timeout_s=20)
print('solved in', round(time.time()-t0,2))
from collections import Counter
print(Counter((o.expect, r['result']) for o,r in zip(ctx.obligations,res)))
bad=[(o,r) for o,r in zip(ctx.obligations,res) if (o.expect=='unsat' and r['result']!='unsat') or (o.expect=='sat' and r['result']!='sat')]
for o,r in bad[:40]:
    print(r['result'], o.name, o.where, {k:v for k,v in r.get('model',{}).items() if k.startswith('len_')}, r.get('reason'))
print(len(bad),'bad')
for o,r in bad[:6]:
    if 'value_failure' in r: print('   FAIL', o.name, str(r['value_failure'])[:1200])
