import sys, time, importlib, json
sys.path.insert(0, '/verif')
from pyvc import harness, smt
mod, prop = sys.argv[1], sys.argv[2]
ctx = harness.Context({prop})
t0=time.time()
for m in mod.split(','):
    importlib.import_module('contracts.'+m).generate(ctx)
print('generated', len(ctx.obligations), 'obligations in', round(time.time()-t0,2), 's; paths', ctx.paths, 'undecided', len(ctx.undecided))
for u in ctx.undecided[:5]: print('UNDECIDED', u['obligation'], u['reason'][:1500])
t0=time.time()
res = smt.discharge(ctx.obligations, timeout_s=20)
print('solved in', round(time.time()-t0,2))
from collections import Counter
print(Counter((o.expect, r['result']) for o,r in zip(ctx.obligations,res)))
bad=[(o,r) for o,r in zip(ctx.obligations,res) if (o.expect=='unsat' and r['result']!='unsat') or (o.expect=='sat' and r['result']!='sat')]
seen=set()
for o,r in bad:
    if o.name in seen: continue
    seen.add(o.name)
    print(r['result'], o.name, o.where, r.get('reason','')[:200], json.dumps(r.get('value_failure',''),default=str)[:int(sys.argv[3]) if len(sys.argv)>3 else 300])
print(len(bad),'bad')
