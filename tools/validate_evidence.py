"""Dev tool: validates MANIFEST.json and every evidence file against the schemas in /root/.vp and checks the
level-specific consistency the harness applies (proof: discharged == obligations; no refuted / unknown)."""
import glob, json, os, sys
import jsonschema
V = os.path.dirname(os.path.dirname(os.path.abspath(__file__)))
ms = json.load(open("/root/.vp/MANIFEST.schema.json"))
es = json.load(open("/root/.vp/EVIDENCE.schema.json"))
m = json.load(open(os.path.join(V, "MANIFEST.json")))
jsonschema.validate(m, ms)
bad = 0
for c in m["checks"]:
    f = c["evidence_file"]
    try:
        e = json.load(open(f))
        jsonschema.validate(e, es)
        cov = e["coverage"]
        ok = cov["discharged"] == cov["obligations"] and cov.get("refuted", 0) == 0 and cov.get("unknown", 0) == 0 and e.get("violations", 0) == 0
        if not ok:
            bad += 1
            print("INCONSISTENT", c["property_id"], cov["obligations"], cov["discharged"], cov.get("refuted"), cov.get("unknown"))
    except Exception as ex:
        bad += 1
        print("INVALID", c["property_id"], str(ex)[:300])
print("manifest ok;", len(m["checks"]), "evidence files,", bad, "problems")
sys.exit(1 if bad else 0)
