#!/bin/bash
# usage: tools/mut.sh <module> <prop> <file-relative-to-src/bldfm> <python-regex-old> <new>   (scratch copy of the fixed tree)
set -e
M=/verif/.work/mut$$
rm -rf $M; mkdir -p $M; cp -r /repo/src $M/src
python3 - "$M/src/bldfm/$3" "$4" "$5" <<'PY'
import sys,re
p,old,new=sys.argv[1:4]
s=open(p).read()
assert old in s, "pattern not found"
s=s.replace(old,new,1)
open(p,'w').write(s)
PY
PYVC_REPO=$M python3-vt tools/try.py $1 $2 2>&1 | tail -${6:-12}
rm -rf $M
