import sys, importlib, faulthandler, time
sys.path.insert(0, '/verif')
faulthandler.dump_traceback_later(45, exit=True)
from pyvc import harness, valueview
ctx = harness.Context({sys.argv[2]})
importlib.import_module('contracts.'+sys.argv[1]).generate(ctx)
obs = [o for o in ctx.obligations if sys.argv[3] in o.name]
o = obs[0]
r = valueview.prove(o.pc, o.hyps, o.goal, timeout_s=30)
print(r['result'], r.get('reason'), r.get('stats'))
