import sys, importlib
sys.path.insert(0, '/verif')
from pyvc import harness, smt
ctx = harness.Context({sys.argv[2]})
importlib.import_module('contracts.'+sys.argv[1]).generate(ctx)
import z3
for o in ctx.obligations:
    if sys.argv[3] in o.name:
        s = z3.Solver(); s.add(*o.pc); s.add(*o.hyps); s.add(z3.Not(o.goal))
        print(o.name, s.check())
        print("GOAL", o.goal)
        print("PC", o.pc[-4:])
        if s.check()==z3.sat: print(s.model())
        break
