#!/bin/bash
# usage: tools/mutS.sh <old> <new> [cfg filter...]
M=/verif/.work/mut$$
rm -rf $M; mkdir -p $M; cp -r /repo/src $M/src
python3 - "$M/src/bldfm/solver.py" "$1" "$2" <<'PY' || { rm -rf $M; exit 1; }
import sys
p,old,new=sys.argv[1:4]
s=open(p).read()
assert old in s, "pattern not found: "+old
s=s.replace(old,new,1)
open(p,'w').write(s)
PY
shift; shift
PYVC_REPO=$M python3-vt tools/paths.py "$@" 2>&1 | grep -E "^(Counter|sat|unknown|gen time)" | cut -c1-180 | sort | uniq -c | sort -rn | head -${TOP:-8}
rm -rf $M
