import sys, time
sys.path.insert(0, '/verif')
from pyvc import harness, engine, smt, valueview
from contracts import solver
ctx = harness.Context({"C11"})
cfgs = [c for c in solver.configs() if sys.argv[1] in c.name()]
solver.explore_paths(ctx, cfgs)
obs = [o for o in ctx.obligations if sys.argv[2] in o.name]
print(len(obs))
for o in obs[:3]:
    r = valueview.prove(o.pc, o.hyps, o.goal)
    print(r['result'], r.get('stats'), [str(c)[:80] for c in o.pc[-8:]])
