"""Evaluate candidate changes against the checks WITHOUT touching /repo: a scratch copy of the tree is
patched and the checks are pointed at it (PYVC_REPO for the verifier, PYTHONPATH for native runs). (dev tool)
usage: seeded_eval.py <dir with */C*_*/patch.diff | refactors dir> [--all-props] [filters...]"""
import json, os, subprocess, sys, glob, time, shutil
SRC = sys.argv[1]
args = sys.argv[2:]
allprops = "--all-props" in args
only = [a for a in args if not a.startswith("--")]
ALL = ["C%02d" % i for i in range(1, 21)]
items = sorted(glob.glob(os.path.join(SRC, "*", "C*_*", "patch.diff")) + glob.glob(os.path.join(SRC, "C*_*", "patch.diff")) + glob.glob(os.path.join(SRC, "*.diff")))
CHK = os.environ.get("PYVC_SNAP", "/verif")   # a snapshot of /verif (git archive) so that edits in /verif do not disturb a long evaluation
scratch = "/verif/.work/evalrepo%d" % os.getpid()
rows = []
for patch in items:
    name = os.path.basename(os.path.dirname(patch)) if patch.endswith("patch.diff") else os.path.basename(patch)[:-5]
    if only and not any(o in name for o in only):
        continue
    shutil.rmtree(scratch, ignore_errors=True)
    os.makedirs(scratch)
    subprocess.run("cp -r /repo/src %s/src && find %s -name __pycache__ -prune -exec rm -rf {} +" % (scratch, scratch), shell=True, check=True)
    r = subprocess.run(["patch", "-p1", "-s", "-i", patch], cwd=scratch, capture_output=True, text=True)
    if r.returncode != 0:
        print(name, "patch-does-not-apply", r.stdout[:200]); continue
    props = ALL if (allprops or not name.startswith("C")) else [name.split("_")[0]]
    pm = os.path.join(os.path.dirname(patch), "PROPS.json")
    if os.path.exists(pm) and not allprops:
        props = json.load(open(pm)).get(name, props)
    if os.environ.get("EVAL_PROPS_ONLY"):
        props = [q for q in props if q in os.environ["EVAL_PROPS_ONLY"].split(",")]
        if not props:
            continue
    env = dict(os.environ, PYVC_REPO=scratch, PYTHONPATH=scratch + "/src", PYTHONDONTWRITEBYTECODE="1")
    for prop in props:
        t0 = time.time()
        p = subprocess.run(["./check", prop, "--tier", "quick"], cwd=CHK, capture_output=True, text=True, timeout=3600, env=env)
        out = p.stdout
        viol = [l for l in out.splitlines() if l.startswith("VIOLATION")]
        und = [l for l in out.splitlines() if l.startswith("UNDECIDED")]
        chk = [l for l in out.splitlines() if l.startswith("CHECKER-FAILURE")]
        kinds = sorted({("bounded" if "bounded-" in v else "contract") + ("" if "no-failing" not in v else "(nfi)") for v in viol})
        rows.append((name, prop, p.returncode, len(viol), kinds, len(und), len(chk)))
        flag = "" if (p.returncode == 0 and not viol) else "   <<<<"
        print("%s %s rc=%d viol=%d %s und=%d chk=%d %.0fs%s" % (name, prop, p.returncode, len(viol), kinds, len(und), len(chk), time.time() - t0, flag), flush=True)
        vb = [v for v in viol if 'bounded-' in v][:1]
        vc = [v for v in viol if 'bounded-' not in v][:2]
        for l in (vb + vc + und[:2] + chk[:1]):
            print("      ", l[:240], flush=True)
shutil.rmtree(scratch, ignore_errors=True)
json.dump(rows, open("/verif/.work/seeded_eval_%d.json" % os.getpid(), "w"), indent=1)
