"""Regenerates MANIFEST.json from contracts/registry.py (dev tool)."""
import json, os, sys
sys.path.insert(0, os.path.dirname(os.path.dirname(os.path.abspath(__file__))))
from contracts import registry

ALL = ["C%02d" % i for i in range(1, 21)]
checks = []
for pid in ALL:
    e = registry.PROPERTIES.get(pid)
    if not e:
        continue
    checks.append({
        "property_id": pid,
        "quick_cmd": "./check %s --tier quick" % pid,
        "thorough_cmd": "./check %s --tier thorough" % pid,
        "evidence_file": "/verif/evidence/%s.json" % pid,
        "replay_cmd_template": "./check %s --replay {path}" % pid,
        "engine": "pyvc",
        "level_claimed": {"category": e["level"], "text": e["level_text"], "design_ref": e.get("design_ref", "DESIGN.md section 5, " + pid)},
        "level_note": e["level_note"],
        "technique": e["technique"],
    })
na = [{"property_id": pid, "reason": registry.NOT_APPLICABLE.get(pid, "check not built yet in this session (see DESIGN.md section 5 for the plan); not claimed until its obligations are generated and discharged")}
      for pid in ALL if pid not in registry.PROPERTIES]
m = {
    "version": 1,
    "setup_cmd": "./check selfcheck",
    "hooks": {
        "guard": "BLDFM_VERIF",
        "enable": "no source hooks: contracts are sidecar files under /verif/contracts and the verifier re-reads /repo/src on every run; the guard variable is unused",
        "baseline_off_cmd": "cd /repo && /venv/bin/python -m pytest -ra -q -p no:cacheprovider --timeout=900 --continue-on-collection-errors",
        "source_commits": [],
        "add_only": True,
    },
    "engines": [{"name": "pyvc", "path": "/verif/pyvc", "serves_properties": [c["property_id"] for c in checks],
                 "kind_free_text": "contract-based deductive verification: real function bodies of /repo executed on symbolic proxies, VCs discharged by z3 (cvc5 second opinion); bounded native stand-ins reported separately"}],
    "checks": checks,
    "not_applicable": na,
    "notes": "exit 0: nothing explored violated the property (obligations left undecided are printed as UNDECIDED lines and listed in the evidence; exit 2 instead with PYVC_STRICT=1) / 1: VIOLATION line(s) with a replay file / 3: checker failure. Defect repairs are 'fix:' commits in /repo listed in /verif/known_findings.json (F1-F12, F15, F17: all fixed, so no KNOWN-FINDING line is printed). Catch matrix of the 260 independently written property-breaking changes (seven rounds) and 92 behaviour-preserving refactorings (five rounds): /verif/seeded/CATCH_MATRIX.md; DESIGN.md 8.7 and 8.8 say which of them the checks first missed and what was built.",
}
json.dump(m, open(os.path.join(os.path.dirname(os.path.dirname(os.path.abspath(__file__))), "MANIFEST.json"), "w"), indent=1)
print("checks:", [c["property_id"] for c in checks], "n/a:", len(na))
