import sys, importlib, cProfile, pstats, time
sys.path.insert(0, '/verif')
from pyvc import harness, valueview
ctx = harness.Context({sys.argv[2]})
importlib.import_module('contracts.'+sys.argv[1]).generate(ctx)
obs = [o for o in ctx.obligations if sys.argv[3] in o.name]
print(len(obs), obs[0].name)
o = obs[0]
pr = cProfile.Profile()
pr.enable()
t0 = time.time()
r = valueview.prove(o.pc, o.hyps, o.goal, timeout_s=float(sys.argv[4]))
pr.disable()
print(r['result'], r.get('reason'), r.get('stats'), round(time.time()-t0,1))
pstats.Stats(pr).sort_stats('cumulative').print_stats(18)
import json
print(json.dumps(r.get('value_failure',{}), default=str)[:3500])
