"""Confirms each candidate change in scratch worktrees of /repo: applies, existing tests pass, demo exits 1
with the change and 0 without; copies confirmed ones to /verif/seeded/<id>/ with meta.json.  (dev tool)"""
import glob, json, os, shutil, subprocess, sys, re
from concurrent.futures import ThreadPoolExecutor

SRC = sys.argv[1] if len(sys.argv) > 1 else "/tmp/mut_out"
cands = sorted(glob.glob(os.path.join(SRC, "*", "C*_*")))
NW = 5
props = {json.loads(l)["id"]: json.loads(l) for l in open("/verif/properties.jsonl")}


def sh(cmd, cwd=None, env=None, timeout=3600):
    e = dict(os.environ)
    if env:
        e.update(env)
    p = subprocess.run(cmd, shell=True, cwd=cwd, env=e, capture_output=True, text=True, timeout=timeout)
    return p.returncode, (p.stdout or "") + (p.stderr or "")


def work(args):
    k, items = args
    wt = "/tmp/confirm_wt_%d_%d" % (os.getpid(), k)
    out = []
    for d in items:
        name = os.path.basename(d)
        env = {"PYTHONPATH": wt + "/src", "PYTHONDONTWRITEBYTECODE": "1"}
        scratch = "/tmp/confirm_scratch_%d" % k
        shutil.rmtree(scratch, ignore_errors=True)
        os.makedirs(scratch)
        if not os.path.isdir(os.path.join(wt, "tests")):
            sh("git -C /repo worktree prune; rm -rf %s; git -C /repo worktree add --detach %s HEAD" % (wt, wt))
        sh("git checkout -- . && git clean -fdxq", cwd=wt)
        rc0, o0 = sh("/venv/bin/python %s/demo.py" % d, cwd=scratch, env=env, timeout=900)
        rca, oa = sh("git apply %s/patch.diff" % d, cwd=wt)
        rc1, o1 = sh("/venv/bin/python %s/demo.py" % d, cwd=scratch, env=env, timeout=900)
        rct, ot = sh("/venv/bin/python -m pytest -q -p no:cacheprovider --timeout=900 tests", cwd=wt, env=env, timeout=3000)
        summ = [l for l in ot.splitlines() if re.search(r"\d+ passed", l)]
        ok = rca == 0 and rc0 == 0 and rc1 == 1 and rct == 0 and bool(summ) and "failed" not in summ[-1]
        res = {"id": name, "property": name.split("_")[0], "applies": rca == 0, "demo_exit_without_change": rc0, "demo_exit_with_change": rc1,
               "tests_exit_with_change": rct, "tests_summary": summ[-1] if summ else ot[-300:], "confirmed": ok}
        if ok:
            dst = "/verif/seeded/" + name
            os.makedirs(dst, exist_ok=True)
            for f in ("patch.diff", "demo.py", "notes.md"):
                if os.path.exists(os.path.join(d, f)):
                    shutil.copy(os.path.join(d, f), dst)
            notes = open(os.path.join(d, "notes.md")).read() if os.path.exists(os.path.join(d, "notes.md")) else ""
            meta = {"id": name, "breaks_property": res["property"], "property_title": props[res["property"]]["title"],
                    "needs_to_manifest": "see notes.md (written by the independent author of the change)",
                    "what_i_ran": {"worktree": "scratch git worktree of /repo HEAD (removed afterwards)",
                                   "demo_without_change": "PYTHONPATH=<wt>/src /venv/bin/python demo.py -> exit %d" % rc0,
                                   "demo_with_change": "git apply patch.diff; same command -> exit %d" % rc1,
                                   "tests_with_change": "PYTHONPATH=<wt>/src /venv/bin/python -m pytest -q -p no:cacheprovider tests -> " + (summ[-1] if summ else "?")},
                    "origin": "fresh sub-agent given only the property text and its own worktree"}
            json.dump(meta, open(os.path.join(dst, "meta.json"), "w"), indent=1)
        out.append(res)
        print(json.dumps(res), flush=True)
    sh("git -C /repo worktree remove --force %s" % wt)
    shutil.rmtree("/tmp/confirm_scratch_%d" % k, ignore_errors=True)
    return out


chunks = [(k, cands[k::NW]) for k in range(NW)]
for k in range(NW):      # worktrees are created one after the other (concurrent `git worktree add` calls collide on the lock)
    wt = "/tmp/confirm_wt_%d_%d" % (os.getpid(), k)
    sh("git -C /repo worktree remove --force %s; git -C /repo worktree prune; git -C /repo worktree add --detach %s HEAD" % (wt, wt))
with ThreadPoolExecutor(NW) as ex:
    allres = [r for part in ex.map(work, chunks) for r in part]
json.dump(allres, open("/verif/.work/confirm_seeded_%d.json" % os.getpid(), "w"), indent=1)
print("confirmed", sum(r["confirmed"] for r in allres), "of", len(allres))
