"""Dev tool (never run by the checks): records, per property, the obligations discharged on the
reference tree, from the evidence files of the last run of every check."""
import json, os, glob
V = os.path.dirname(os.path.dirname(os.path.abspath(__file__)))
out = {}
for f in sorted(glob.glob(os.path.join(V, "evidence", "C*.json"))):
    ev = json.load(open(f))
    names = sorted({o["name"] for o in ev["coverage"]["obligation_list"] if o["result"] == "unsat" and o["kind"] != "cover"})
    out[ev["property_id"]] = names
json.dump(out, open(os.path.join(V, "baseline_obligations.json"), "w"), indent=0)
print({k: len(v) for k, v in out.items()})
