"""C09 - closure profiles are self-consistent with similarity theory and the grid.

Native replay oracle for pbl_model.vertical_profiles / psi / phi.  Oracle = the statement, with
the textbook Businger-Dyer forms written here independently of the code:

    phi_m(x) = (1-16x)^(-1/4)  (x<0),  1+5x (x>0)        momentum flux-gradient function
    phi_c(x) = (1-16x)^(-1/2)  (x<0),  1+5x (x>0)        scalar flux-gradient function (K)
    psi(x)   = int_0^x (phi_m(t)-1)/t dt                 stability correction in the convention
                                                         |U|(z) = u*/k (ln(z/z0) + psi(z/L))
    K(z)     = k u* z / (phi_c(z/L) Pr)                  similarity formula

Sign convention: both this module (``log(z/z0) + psi(z/L)``) and the reference model
(``log(zm/z0) + psi_m`` in U and in estimateZ0) ADD the correction inside the log law, so
"agree" means ``psi(zm/L) == _psiM(zm, L)`` and ``phi(zm/L) == _phiC(zm, L)`` with the same sign.

Inputs are generated physically consistent: z0 < zm is chosen first and u* follows from the
diabatic log law (computed with the oracle psi above), so that the roughness length the code
derives from u* must come back as the chosen z0.
"""
import math
import os
import sys

sys.path.insert(0, os.path.dirname(__file__))
from _common import Suite, Verdict, relerr  # noqa: E402

S = Suite(
    "C09",
    what="vertical_profiles (MOST, MOSTM, CONSTANT, OAAHOC), psi, phi; scipy.integrate.quad as "
         "quadrature oracle; ffm_kormann_meixner._psiM/_phiC as the reference copies",
    bound="zm 1..100 m, z0/zm 1e-4..0.2, |U| 0.5..15 m/s in any direction incl. axis-aligned, "
          "|L| 5..1e9 m of both signs with |zm/L| <= 20 and ln(zm/z0)+psi >= 0.5, n 1..40, Pr in "
          "{0.7,1,1.3}, domain height default (also 1.5zm/3zm when n >= 4), default stretch; x = z/L in "
          "+-[1e-12, 50] for psi/phi; L = +-inf (exact neutrality) in a few profile cases; array-valued tke, "
          "domain_height <= zm not examined; custom stretch 2.5 / 3 / 4 zm with the default domain height (n >= 4); call histories: a base forcing followed by 10 near-twins "
          "differing in one argument (z0 by 0.2 % / 2e-5, zm, L, wind, n, Pr, closure, given quantity)",
    rule="1e-9 relative for wind at z[n] and K; 1e-12*zm for z[0], z[n]; 1e-10 for the z0<->ustar "
         "round trip; quad abs 1e-10 + rel 1e-9 for psi; 1e-12 for the reference copies",
)

KAP = 0.4


# ----------------------------------------------------------------------------- oracle
def phi_m(x):
    if x < 0:
        return math.exp(-0.25 * math.log1p(-16.0 * x))
    return 1.0 + 5.0 * x


def phi_c(x):
    if x < 0:
        return math.exp(-0.5 * math.log1p(-16.0 * x))
    return 1.0 + 5.0 * x


def _integrand(t):
    if t == 0.0:
        return 4.0
    if t < 0:
        return math.expm1(-0.25 * math.log1p(-16.0 * t)) / t
    return 5.0


def psi_quad(x):
    from scipy.integrate import quad
    if x == 0:
        return 0.0, 0.0
    val, err = quad(_integrand, 0.0, x, epsabs=1e-13, epsrel=1e-12, limit=200)
    return val, err


def psi_closed(x):
    """Paulson's closed form of the integral above (used only to prepare inputs)."""
    if x > 0:
        return 5.0 * x
    xi = (1.0 - 16.0 * x) ** 0.25
    return (-2.0 * math.log(0.5 * (1 + xi)) - math.log(0.5 * (1 + xi * xi))
            + 2.0 * math.atan(xi) - 0.5 * math.pi)


# ----------------------------------------------------------------------------- profiles
@S.kind("profiles")
def profiles(closure, n, zm, z0, um, vm, mol, prsc, dh_factor, given, stretch_factor=0, wind_form="tuple"):
    import numpy as np
    from bldfm.pbl_model import vertical_profiles as _vp
    # "the supplied wind vector": a tuple, a list, or a float64 array the caller keeps and uses again (the call must not
    # change it, and the second call with the same array is the one judged)
    wind_obj = {"tuple": (um, vm), "list": [um, vm], "array": np.array([um, vm], dtype=np.float64)}[wind_form]

    def vertical_profiles(n_, zm_, _wind, **k_):
        if wind_form != "array":
            return _vp(n_, zm_, wind_obj, **k_)
        _vp(n_, zm_, wind_obj, **k_)
        if not (wind_obj[0] == um and wind_obj[1] == vm):
            raise _WindChanged("vertical_profiles changed the wind array it was given: (%r, %r) -> %r" % (um, vm, wind_obj.tolist()))
        return _vp(n_, zm_, wind_obj, **k_)
    try:
        return _profiles(vertical_profiles, closure, n, zm, z0, um, vm, mol, prsc, dh_factor, given, stretch_factor)
    except _WindChanged as e:
        return Verdict(False, str(e), key="argument-changed")


class _WindChanged(Exception):
    pass


def _profiles(vertical_profiles, closure, n, zm, z0, um, vm, mol, prsc, dh_factor, given, stretch_factor=0):
    import numpy as np
    absum = math.hypot(um, vm)
    ustar = absum * KAP / (math.log(zm / z0) + psi_closed(zm / mol))
    kw = dict(mol=mol, prsc=prsc, closure=closure)
    if dh_factor:
        kw["domain_height"] = dh_factor * zm
    if stretch_factor:
        # a custom stretching scale with the domain height left at its documented default 2*zm (the grid still has to
        # reach it and to contain zm at index n)
        kw["stretch"] = stretch_factor * zm
    zmx = (dh_factor or 2.0) * zm
    if given == "ustar":
        z, prof = vertical_profiles(n, zm, (um, vm), ustar=ustar, **kw)
    else:
        z, prof = vertical_profiles(n, zm, (um, vm), z0=z0, **kw)
    u, v, Kx, Ky, Kz = [np.asarray(a, dtype=float) for a in prof]
    z = np.asarray(z, dtype=float)
    tag = "%s n=%d zm=%r z0=%r L=%r given=%s" % (closure, n, zm, z0, mol, given)
    # ---- grid
    if not (len(z) > n and all(len(a) == len(z) for a in (u, v, Kx, Ky, Kz))):
        return Verdict(False, "%s: len(z)=%d, n=%d, profile lengths %r"
                       % (tag, len(z), n, [len(a) for a in (u, v, Kx, Ky, Kz)]), key="grid-length")
    if not np.all(np.isfinite(z)) or not np.all(np.diff(z) > 0):
        return Verdict(False, "%s: z not finite / strictly increasing: %r" % (tag, z),
                       key="z-not-increasing")
    tol0 = 1e-12 * zm if given == "z0" else 1e-9 * z0 + 1e-12 * zm
    if abs(z[0] - z0) > tol0:
        return Verdict(False, "%s: z[0]=%r, roughness length %r (diff %.3e)"
                       % (tag, z[0], z0, z[0] - z0), key="z-first-not-z0")
    if abs(z[n] - zm) > 1e-12 * zm:
        return Verdict(False, "%s: z[n]=%r, measurement height %r" % (tag, z[n], zm),
                       key="z-n-not-zm")
    if not (z[-1] >= zmx * (1 - 1e-12) and z[-2] < zmx * (1 + 1e-12)):
        return Verdict(False, "%s: top z[-2:]=%r, domain height %r" % (tag, z[-2:], zmx),
                       key="z-top")
    # ---- wind
    if abs(u[n] - um) > 1e-9 * absum or abs(v[n] - vm) > 1e-9 * absum:
        return Verdict(False, "%s: wind at z[n] = (%r,%r), supplied (%r,%r)"
                       % (tag, u[n], v[n], um, vm), key="wind-at-zm")
    cross = np.abs(u * vm - v * um)
    scale = np.maximum(np.hypot(u, v) * absum, 1e-300)
    if not np.all(np.isfinite(u)) or not np.all(np.isfinite(v)) or np.any(cross > 1e-12 * scale):
        k = int(np.argmax(cross / scale))
        return Verdict(False, "%s: wind not parallel to the supplied vector at level %d: (%r,%r)"
                       % (tag, k, u[k], v[k]), key="direction-not-constant")
    # ---- diffusivities
    if not (np.all(np.isfinite(Kz)) and np.all(Kz > 0)):
        return Verdict(False, "%s: Kz not strictly positive: min %r" % (tag, np.min(Kz)),
                       key="Kz-not-positive")
    if not (np.all(Kx >= 0) and np.all(Ky >= 0)):
        return Verdict(False, "%s: Kx/Ky negative or NaN: %r %r" % (tag, Kx[:3], Ky[:3]),
                       key="Kxy-negative")
    if closure in ("MOST", "MOSTM"):
        Kor = np.array([KAP * ustar * zz / (phi_c(zz / mol) * prsc) for zz in z])
        if relerr(Kz, Kor) > 1e-9 or np.any(np.abs(Kz - Kor) > 1e-9 * Kor + 1e-300):
            k = int(np.argmax(np.abs(Kz - Kor) / Kor))
            return Verdict(False, "%s: Kz[%d]=%r, similarity formula k u* z/(phi Pr) = %r"
                           % (tag, k, Kz[k], Kor[k]), key="K-not-similarity")
        if closure == "MOST":
            if not (np.array_equal(Kx, Kz) and np.array_equal(Ky, Kz)):
                return Verdict(False, "%s: Kx,Ky differ from Kz" % tag, key="K-not-similarity")
        else:
            if np.any(np.abs(Kx + Ky - Kz) > 1e-12 * Kz):
                return Verdict(False, "%s: Kx+Ky != K" % tag, key="K-not-similarity")
    elif closure == "CONSTANT":
        if np.ptp(Kz) > 1e-12 * Kz[0] or np.ptp(u) > 0 or np.ptp(v) > 0:
            return Verdict(False, "%s: CONSTANT closure not constant" % tag, key="constant-varies")
        want = KAP * ustar * zm / prsc
        # the statement does not say whether phi(zm/L) enters the constant; both are accepted
        if min(abs(Kz[0] - want), abs(Kz[0] - want / phi_c(zm / mol))) > 1e-9 * want:
            return Verdict(False, "%s: K=%r, similarity value at zm %r (/phi: %r)"
                           % (tag, Kz[0], want, want / phi_c(zm / mol)), key="K-not-similarity")
    return Verdict(True, tag)


@S.kind("profiles-history")
def profiles_history(base, variants):
    """One process, several calls: the base forcing first, then near-twin forcings that differ from it in ONE argument by
    a small amount (roughness length by 0.2 %, measurement height, stability, wind, layer count, closure).  Every call is
    judged by the per-call oracle of `profiles`: what an earlier call computed must not show in a later one."""
    import numpy as np
    import bldfm.pbl_model as _pbl
    real = _pbl.vertical_profiles

    def scribbling(*a, **k):
        """The caller of every call of this history edits the arrays it got in place (a sensitivity run: `Kz *= 0.5`): the
        oracle judges copies taken at return time, the returned objects themselves are overwritten."""
        z, prof = real(*a, **k)
        zc, pc = np.array(z, copy=True), tuple(np.array(p, copy=True) for p in prof)
        for arr in (z,) + tuple(prof):
            if isinstance(arr, np.ndarray) and arr.flags.writeable:
                arr *= 0.5
                arr += 0.125
        return zc, pc
    _pbl.vertical_profiles = scribbling
    try:
        return _profiles_history(base, variants)
    finally:
        _pbl.vertical_profiles = real


def _profiles_history(base, variants):
    v0 = profiles(**base)
    if not v0.ok:
        return v0
    for k, var in enumerate(variants):
        v = profiles(**dict(base, **var))
        if not v.ok:
            return Verdict(False, "call %d after the base call (%r changed): %s" % (k + 1, var, v.detail), key="history-" + (v.key or "profiles"))
    # and the base forcing again after its neighbours
    v = profiles(**base)
    if not v.ok:
        return Verdict(False, "base forcing repeated after its neighbours: %s" % v.detail, key="history-" + (v.key or "profiles"))
    return Verdict(True, "%d calls" % (len(variants) + 2))


@S.kind("oaahoc")
def oaahoc(n, zm, um, vm, ustar, tke, mol):
    """OAAHOC takes (ustar, tke); wind at z[n], direction, positivity and the grid."""
    import numpy as np
    from bldfm.pbl_model import vertical_profiles
    absum = math.hypot(um, vm)
    z, prof = vertical_profiles(n, zm, (um, vm), ustar=ustar, mol=mol, closure="OAAHOC", tke=tke)
    z = np.asarray(z, dtype=float)
    u, v, Kx, Ky, Kz = [np.asarray(a, dtype=float).reshape(-1) for a in prof]
    z = z.reshape(-1)
    tag = "OAAHOC n=%d zm=%r ustar=%r tke=%r" % (n, zm, ustar, tke)
    if not (len(z) > n and np.all(np.isfinite(z)) and np.all(np.diff(z) > 0)):
        return Verdict(False, "%s: grid %r" % (tag, z), key="z-not-increasing")
    if not (0 < z[0] < zm):
        return Verdict(True, "derived z0 not below zm; outside the quantifier", nontrivial=False)
    if abs(z[n] - zm) > 1e-12 * zm:
        return Verdict(False, "%s: z[n]=%r != zm" % (tag, z[n]), key="z-n-not-zm")
    if not (z[-1] >= 2 * zm * (1 - 1e-12) and z[-2] < 2 * zm * (1 + 1e-12)):
        return Verdict(False, "%s: top %r" % (tag, z[-2:]), key="z-top")
    if abs(u[n] - um) > 1e-9 * absum or abs(v[n] - vm) > 1e-9 * absum:
        return Verdict(False, "%s: wind at z[n] = (%r,%r), supplied (%r,%r)"
                       % (tag, u[n], v[n], um, vm), key="wind-at-zm")
    cross = np.abs(u * vm - v * um)
    if np.any(cross > 1e-12 * np.maximum(np.hypot(u, v) * absum, 1e-300)):
        return Verdict(False, "%s: direction varies" % tag, key="direction-not-constant")
    if not (np.all(Kz > 0) and np.all(Kx >= 0) and np.all(Ky >= 0)):
        return Verdict(False, "%s: K not positive" % tag, key="Kz-not-positive")
    return Verdict(True, tag)


@S.kind("roundtrip")
def roundtrip(closure, n, zm, z0, um, vm, mol, prsc):
    """ustar -> z0 (the grid's first node) -> ustar returns identical grid and profiles."""
    import numpy as np
    from bldfm.pbl_model import vertical_profiles
    absum = math.hypot(um, vm)
    ustar = absum * KAP / (math.log(zm / z0) + psi_closed(zm / mol))
    zA, pA = vertical_profiles(n, zm, (um, vm), ustar=ustar, mol=mol, prsc=prsc, closure=closure)
    zB, pB = vertical_profiles(n, zm, (um, vm), z0=float(zA[0]), mol=mol, prsc=prsc,
                               closure=closure)
    if len(zA) != len(zB):
        return Verdict(False, "grid lengths %d vs %d" % (len(zA), len(zB)), key="z0-ustar-roundtrip")
    worst = max([relerr(zB, zA)] + [relerr(b, a) for a, b in zip(pA, pB)])
    if not worst <= 1e-10:
        return Verdict(False, "%s zm=%r z0=%r L=%r: profiles differ by %.3e after ustar->z0->ustar"
                       % (closure, zm, z0, mol, worst), key="z0-ustar-roundtrip")
    # and the other way round: z0 -> (ustar read off the K profile is not public) -> skip
    return Verdict(True, "worst %.2e" % worst)


# ----------------------------------------------------------------------------- psi, phi
@S.kind("psi-integral")
def psi_integral(x, as_array):
    import numpy as np
    from bldfm.pbl_model import psi, phi
    if as_array:
        got = float(np.asarray(psi(np.array([x, 2 * x])))[0])
        gph = float(np.asarray(phi(np.array([x, 2 * x])))[0])
    else:
        got = float(psi(x))
        gph = float(phi(x))
    val, err = psi_quad(x)
    tol = 1e-10 + 1e-9 * abs(val) + 10 * err
    if not abs(got - val) <= tol:
        return Verdict(False, "psi(%r)=%r but int_0^x (phi_m-1)/t dt = %r (quad err %.1e)"
                       % (x, got, val, err), key="psi-not-integral-of-phi")
    want = phi_c(x)
    if not abs(gph - want) <= 1e-12 * want:
        return Verdict(False, "phi(%r)=%r, flux-gradient function %r" % (x, gph, want),
                       key="phi-formula")
    return Verdict(True, "psi(%r)=%r" % (x, got))


@S.kind("continuity")
def continuity(k):
    """Both one-sided limits at neutral stratification agree: psi -> 0, phi -> 1."""
    from bldfm.pbl_model import psi, phi
    eps = 10.0 ** (-k)
    vals = {s: (float(psi(s * eps)), float(phi(s * eps))) for s in (-1.0, 1.0)}
    p0, f0 = float(psi(0.0)), float(phi(0.0))
    if abs(p0) > 1e-15 or abs(f0 - 1.0) > 1e-15:
        return Verdict(False, "psi(0)=%r phi(0)=%r" % (p0, f0), key="neutral-value")
    for s, (p, f) in vals.items():
        if not (abs(p) <= 6.0 * eps + 1e-15 and abs(f - 1.0) <= 10.0 * eps + 1e-15):
            return Verdict(False, "x=%r: psi=%r phi=%r; not continuous through neutral"
                           % (s * eps, p, f), key="discontinuous-at-neutral")
    return Verdict(True, "eps=1e-%d" % k)


@S.kind("reference-copies")
def reference_copies(zm, mol):
    import numpy as np
    from bldfm.pbl_model import psi, phi
    from bldfm.ffm_kormann_meixner import _psiM, _phiC
    a_zm, a_L = np.array([float(zm)]), np.array([float(mol)])
    x = float(zm) / float(mol)
    p, pr = float(psi(x)), float(_psiM(a_zm, a_L)[0])
    f, fr = float(phi(x)), float(_phiC(a_zm, a_L)[0])
    if abs(p - pr) > 1e-12 * max(1.0, abs(pr)):
        return Verdict(False, "psi(zm/L)=%r vs reference _psiM=%r at zm=%r L=%r" % (p, pr, zm, mol),
                       key="psi-vs-reference")
    if abs(f - fr) > 1e-12 * abs(fr):
        return Verdict(False, "phi(zm/L)=%r vs reference _phiC=%r at zm=%r L=%r" % (f, fr, zm, mol),
                       key="phi-vs-reference")
    return Verdict(True, "x=%r" % x)


# ----------------------------------------------------------------------------- generator
def _consistent(rng):
    """(zm, z0, um, vm, mol) with z0 < zm and a positive diabatic log-law bracket."""
    while True:
        zm = math.exp(rng.uniform(0.0, math.log(100.0)))
        z0 = zm * math.exp(rng.uniform(math.log(1e-4), math.log(0.2)))
        sp = rng.uniform(0.5, 15.0)
        r = rng.random()
        if r < 0.1:
            um, vm = rng.choice([(sp, 0.0), (-sp, 0.0), (0.0, sp), (0.0, -sp)])
        else:
            a = rng.uniform(0, 2 * math.pi)
            um, vm = sp * math.cos(a), sp * math.sin(a)
        r = rng.random()
        if r < 0.2:
            mol = rng.choice([1e9, -1e9, 1e6, -1e6])
        else:
            mol = rng.choice([-1.0, 1.0]) * math.exp(rng.uniform(math.log(5.0), math.log(1e5)))
        x = zm / mol
        if abs(x) > 20.0:
            continue
        if math.log(zm / z0) + psi_closed(x) < 0.5:
            continue
        return zm, z0, um, vm, mol


def generate(tier, rng):
    q = tier == "quick"
    nprof = 60 if q else 600
    for closure in ("MOST", "MOSTM", "CONSTANT"):
        for k in range(nprof):
            zm, z0, um, vm, mol = _consistent(rng)
            n = rng.choice([1, 2, 3, 5, 8, 16, 32, 40]) if k % 3 else rng.randint(1, 40)
            dh = rng.choice([0, 0, 0, 1.5, 3.0])
            if n < 4:
                # a non-default domain height is outside the property's quantifier; with fewer
                # than 2 layers and domain_height = 3 zm the last node of the stretched grid
                # overshoots the asymptote of the map (z[-1] = NaN) - reported as a note, not
                # examined here
                dh = 0
            yield "profiles", dict(closure=closure, n=n, zm=zm, z0=z0, um=um, vm=vm, mol=mol,
                                   prsc=rng.choice([1.0, 1.0, 0.7, 1.3]), dh_factor=dh,
                                   given=("ustar", "z0")[k % 2], wind_form=("tuple", "array", "tuple", "list", "tuple")[k % 5])
            if k % 6 == 0 and n >= 4:
                # stretching scale given (2.5 / 3 / 4 zm: the whole default column stays below the asymptote of the map),
                # domain height at its default
                yield "profiles", dict(closure=closure, n=n, zm=zm, z0=z0, um=um, vm=vm, mol=mol, prsc=1.0, dh_factor=0,
                                       given=("z0", "ustar")[k % 2], stretch_factor=(2.5, 3.0, 4.0)[(k // 6) % 3])
        for k in range(2 if q else 10):      # exact neutrality: L = +inf / -inf
            zm, z0, um, vm, mol = _consistent(rng)
            yield "profiles", dict(closure=closure, n=rng.choice([2, 5, 16]), zm=zm, z0=z0, um=um, vm=vm, mol=(float("inf"), float("-inf"))[k % 2],
                                   prsc=1.0, dh_factor=0, given=("ustar", "z0")[k % 2])
        for k in range(6 if q else 40):
            zm, z0, um, vm, mol = _consistent(rng)
            n = rng.choice([2, 3, 5, 8, 16])
            base = dict(closure=closure, n=n, zm=zm, z0=z0, um=um, vm=vm, mol=mol, prsc=1.0, dh_factor=0, given=("z0", "ustar")[k % 2])
            other = {"MOST": "MOSTM", "MOSTM": "CONSTANT", "CONSTANT": "MOST"}[closure]
            yield "profiles-history", dict(base=base, variants=[dict(z0=z0 * 1.002), dict(z0=z0 * (1 + 2e-5)), dict(zm=zm * (1 + 1e-4)), dict(mol=mol * 1.003),
                                                                dict(um=um * 1.001), dict(vm=vm + 0.01), dict(n=n + 1), dict(prsc=1.3), dict(closure=other),
                                                                dict(given=("ustar", "z0")[k % 2])])
        for k in range(nprof // 3):
            zm, z0, um, vm, mol = _consistent(rng)
            yield "roundtrip", dict(closure=closure, n=rng.randint(1, 40), zm=zm, z0=z0, um=um,
                                    vm=vm, mol=mol, prsc=rng.choice([1.0, 0.7, 1.3]))
    for k in range(nprof // 2):
        zm, z0, um, vm, mol = _consistent(rng)
        tke = rng.uniform(0.2, 3.0)
        # choose ustar so that the derived roughness length is the sampled z0 (< zm)
        absum = math.hypot(um, vm)
        ustar = math.sqrt(0.0856 * 0.845 * absum * math.sqrt(tke) / math.log(zm / z0))
        yield "oaahoc", dict(n=rng.randint(1, 40), zm=zm, um=um, vm=vm, ustar=ustar, tke=tke,
                             mol=mol)
    xs = []
    for k in range(12 if q else 60):
        xs.append(-math.exp(rng.uniform(math.log(1e-6), math.log(50.0))))
        xs.append(math.exp(rng.uniform(math.log(1e-6), math.log(50.0))))
    xs += [-1e-12, 1e-12, -1e-9, 1e-9, -0.0625, -1.0, 1.0, -50.0, 50.0, -0.5, 0.2]
    for i, x in enumerate(xs):
        yield "psi-integral", dict(x=x, as_array=bool(i % 2))
    for k in range(2, 15):
        yield "continuity", dict(k=k)
    for k in range(40 if q else 400):
        zm = math.exp(rng.uniform(0.0, math.log(100.0)))
        mol = rng.choice([-1.0, 1.0]) * math.exp(rng.uniform(math.log(2.0), math.log(1e9)))
        yield "reference-copies", dict(zm=zm, mol=mol)
    for zm, mol in ((10.0, 1e9), (10.0, -1e9), (2.0, -50.0), (2.0, 100.0), (30.0, 7.5)):
        yield "reference-copies", dict(zm=zm, mol=mol)


if __name__ == "__main__":
    S.main(generate)
