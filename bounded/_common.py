"""Shared harness for the *bounded* native stand-ins and replay oracles.

Runs under /venv/bin/python (the repository's own interpreter, editable install => the
current working tree of /repo).  Nothing here is counted as proved: every suite states its
bound and reports measured counts; the ./check driver copies them into
evidence.coverage.bounded.

Protocol
--------
A suite module defines case kinds (pure functions of JSON-serialisable parameters that call
the REAL code and return a verdict) and a generator that enumerates the bounded family:

    S = Suite("C02", what="...", bound="...", rule="...")

    @S.kind("reciprocity")
    def reciprocity(nx, ny, ...):
        ...
        return Verdict(ok, detail="...", nontrivial=True, key="short-stable-witness-class")

    def generate(tier, rng):          # tier in {"quick","thorough"}; rng = random.Random(seed)
        yield "reciprocity", dict(nx=..., ...)

    if __name__ == "__main__":
        S.main(generate)

CLI:  <module>.py --tier quick --seed 0 --out result.json
      <module>.py --replay '{"kind":..., "params":{...}}'     (exit 0 pass / 1 fail)
"""
import argparse
import atexit
import json
import os
import random
import shutil
import sys
import time
import traceback

_HERE = os.path.dirname(os.path.abspath(__file__))
_VERIF = os.path.dirname(_HERE)


def _scratch():
    """Private cwd: the FFT manager writes fftw_wisdom.pkl and the default cache writes
    .bldfm_cache into the cwd.  Removed at exit; never under /tmp."""
    d = os.path.join(_VERIF, ".work", "b%d" % os.getpid())
    os.makedirs(d, exist_ok=True)
    os.chdir(d)
    atexit.register(lambda: (os.chdir(_VERIF), shutil.rmtree(d, ignore_errors=True)))
    return d


class Verdict:
    def __init__(self, ok, detail="", nontrivial=True, key=None, measured=None):
        self.ok = bool(ok)
        self.detail = str(detail)
        self.nontrivial = bool(nontrivial)
        self.key = key
        self.measured = measured


class Suite:
    # solver suites: every `thread_every`-th case is run a second time with bldfm.config.NUM_THREADS = 2 / 4 (the
    # properties quantify over every solve, whatever the runtime thread setting; the numba kernel has a serial and a
    # parallel variant).  The case parameter "_threads" is consumed here, never seen by the kind.
    SOLVER_PROPS = ("C01", "C02", "C03", "C04", "C05", "C06", "C07", "C10", "C11")

    def __init__(self, prop, what, bound, rule):
        self.prop = prop
        self.what = what
        self.bound = bound
        self.rule = rule
        self.kinds = {}
        self.thread_every = 6 if prop in self.SOLVER_PROPS else 0
        if self.thread_every:
            self.bound += "; every %dth case repeated with bldfm.config.NUM_THREADS = 2 or 4 (parallel kernel variant)" % self.thread_every

    def kind(self, name):
        def deco(fn):
            self.kinds[name] = fn
            return fn
        return deco

    def run_case(self, kind, params):
        params = dict(params)
        threads = params.pop("_threads", None)
        try:
            if threads:
                import bldfm.config as _cfg
                _cfg.NUM_THREADS = int(threads)
            v = self.kinds[kind](**params)
            if not isinstance(v, Verdict):
                v = Verdict(bool(v))
            if threads and not v.ok:
                v.detail = "[NUM_THREADS=%d] %s" % (threads, v.detail)
            return v, None
        except Exception:  # a crash of the real code on an admitted input is reported apart
            return None, traceback.format_exc(limit=8)
        finally:
            if threads:
                import bldfm.config as _cfg
                _cfg.NUM_THREADS = 1

    def main(self, generate):
        ap = argparse.ArgumentParser()
        ap.add_argument("--tier", default=os.environ.get("VERIF_TIER", "quick"))
        ap.add_argument("--seed", type=int, default=int(os.environ.get("VERIF_SEED", "0")))
        ap.add_argument("--out", default=None)
        ap.add_argument("--replay", default=None)
        ap.add_argument("--max-seconds", type=float, default=None)
        a = ap.parse_args()
        _scratch()
        import logging
        logging.disable(logging.CRITICAL)
        if a.replay:
            spec = json.loads(a.replay)
            v, err = self.run_case(spec["kind"], spec["params"])
            if err:
                print("REPLAY-ERROR\n" + err)
                sys.exit(1)
            print(("REPLAY-PASS " if v.ok else "REPLAY-FAIL ") + v.detail)
            sys.exit(0 if v.ok else 1)
        t0 = time.time()
        rng = random.Random(a.seed)
        n = 0
        seen = set()
        nontrivial = 0
        failures = []
        errors = []
        samples = []
        per_kind = {}
        def with_threads():
            k = 0
            for kind, params in generate(a.tier, rng):
                yield kind, params
                k += 1
                if self.thread_every and k % self.thread_every == 0 and "_threads" not in params:
                    yield kind, dict(params, _threads=(2, 4)[(k // self.thread_every) % 2])
        for kind, params in with_threads():
            if a.max_seconds and time.time() - t0 > a.max_seconds:
                break
            n += 1
            sig = kind + json.dumps(params, sort_keys=True, default=str)
            v, err = self.run_case(kind, params)
            per_kind[kind] = per_kind.get(kind, 0) + 1
            if err:
                errors.append({"kind": kind, "params": params, "traceback": err})
                continue
            if v.nontrivial and sig not in seen:
                nontrivial += 1
            seen.add(sig)
            if len(samples) < 4 or (n % 37 == 0 and len(samples) < 8):
                samples.append({"kind": kind, "params": params, "ok": v.ok,
                                "detail": v.detail[:200]})
            if not v.ok:
                failures.append({"kind": kind, "params": params, "detail": v.detail[:600],
                                 "key": v.key or kind})
        res = {
            "property": self.prop,
            "what": self.what,
            "bound": self.bound,
            "rule": self.rule,
            "tier": a.tier,
            "seed": a.seed,
            "evaluations": n,
            "distinct_nontrivial": nontrivial,
            "per_kind": per_kind,
            "samples": samples,
            "failures": failures,
            "errors": errors,
            "wall_s": round(time.time() - t0, 3),
        }
        txt = json.dumps(res, indent=1, default=str)
        if a.out:
            with open(a.out, "w") as f:
                f.write(txt)
        else:
            print(txt)
        sys.exit(0)


# ----------------------------------------------------------------------------- helpers
def default_profiles(n=8, zm=5.0, wind=(3.0, 1.0), ustar=0.4, mol=-50.0, closure="MOST", **kw):
    from bldfm.pbl_model import vertical_profiles
    return vertical_profiles(n, zm, wind, ustar=ustar, mol=mol, closure=closure, **kw)


def relerr(a, b):
    import numpy as np
    a = np.asarray(a, dtype=float)
    b = np.asarray(b, dtype=float)
    if a.shape != b.shape:
        return float("inf")
    den = max(float(np.max(np.abs(b))), 1e-300)
    return float(np.max(np.abs(a - b))) / den
