"""Shared harness for the *bounded* native stand-ins and replay oracles.

Runs under /venv/bin/python (the repository's own interpreter, editable install => the
current working tree of /repo).  Nothing here is counted as proved: every suite states its
bound and reports measured counts; the ./check driver copies them into
evidence.coverage.bounded.

Protocol
--------
A suite module defines case kinds (pure functions of JSON-serialisable parameters that call
the REAL code and return a verdict) and a generator that enumerates the bounded family:

    S = Suite("C02", what="...", bound="...", rule="...")

    @S.kind("reciprocity")
    def reciprocity(nx, ny, ...):
        ...
        return Verdict(ok, detail="...", nontrivial=True, key="short-stable-witness-class")

    def generate(tier, rng):          # tier in {"quick","thorough"}; rng = random.Random(seed)
        yield "reciprocity", dict(nx=..., ...)

    if __name__ == "__main__":
        S.main(generate)

CLI:  <module>.py --tier quick --seed 0 --out result.json
      <module>.py --replay '{"kind":..., "params":{...}}'     (exit 0 pass / 1 fail)
"""
import argparse
import atexit
import json
import os
import random
import shutil
import sys
import time
import traceback

_HERE = os.path.dirname(os.path.abspath(__file__))
_VERIF = os.path.dirname(_HERE)


def _scratch():
    """Private cwd: the FFT manager writes fftw_wisdom.pkl and the default cache writes
    .bldfm_cache into the cwd.  Removed at exit; never under /tmp."""
    d = os.path.join(_VERIF, ".work", "b%d" % os.getpid())
    os.makedirs(d, exist_ok=True)
    os.chdir(d)
    atexit.register(lambda: (os.chdir(_VERIF), shutil.rmtree(d, ignore_errors=True)))
    return d


class Verdict:
    def __init__(self, ok, detail="", nontrivial=True, key=None, measured=None):
        self.ok = bool(ok)
        self.detail = str(detail)
        self.nontrivial = bool(nontrivial)
        self.key = key
        self.measured = measured


class Suite:
    # solver suites: every `thread_every`-th case is run a second time with bldfm.config.NUM_THREADS = 2 / 4 (the
    # properties quantify over every solve, whatever the runtime thread setting; the numba kernel has a serial and a
    # parallel variant).  The case parameter "_threads" is consumed here, never seen by the kind.
    SOLVER_PROPS = ("C01", "C02", "C03", "C04", "C05", "C06", "C07", "C10", "C11")

    def __init__(self, prop, what, bound, rule):
        self.prop = prop
        self.what = what
        self.bound = bound
        self.rule = rule
        self.kinds = {}
        self.thread_every = 6 if prop in self.SOLVER_PROPS else 0
        if self.thread_every:
            self.bound += "; every %dth case repeated with bldfm.config.NUM_THREADS = 2 or 4 (parallel kernel variant)" % self.thread_every
        # ... and every `cache_every`-th case is run a second time with a result cache attached to each footprint solve
        # (the `cache=` argument belongs to the call the properties quantify over): before the request itself the same
        # cache serves near-twin requests (background, level order / another level, halo, tower, grid shape, precision,
        # one profile component), then the request is made twice and the answer served from the cache is what the case
        # judges.  The case parameter "_cache" is consumed here, never seen by the kind.
        self.repeat_every = 5 if prop in self.REPEAT_TARGETS else 0
        if self.repeat_every:
            self.bound += "; every %dth case run twice in one process with the results of %s handed to the caller as copies and the returned objects overwritten" % (
                self.repeat_every, ", ".join(sorted({n for _, n in self.REPEAT_TARGETS[prop]})))
        self.cache_every = 7 if prop in self.SOLVER_PROPS else 0
        if self.cache_every:
            self.bound += "; every %dth case repeated with a GreensFunctionCache attached to its footprint solves after near-twin requests through the same cache" % self.cache_every

    # "repeat" variant: every `repeat_every`-th case is run twice in this process while the package functions the suite
    # calls (REPEAT_TARGETS[prop]) hand their results to the caller as copies and the objects they actually returned
    # are overwritten -- a caller that edits what it got in place.  On a tree where no function keeps what it returned,
    # nothing changes; a result kept in a memo and handed out again shows in the second run.  The case parameter
    # "_repeat" is consumed here.
    REPEAT_TARGETS = {
        "C09": [("bldfm.pbl_model", "vertical_profiles"), ("bldfm.pbl_model", "psi"), ("bldfm.pbl_model", "phi")],
        "C13": [("bldfm.interface", "run_bldfm_single"), ("bldfm.pbl_model", "vertical_profiles"), ("bldfm.utils", "compute_wind_fields"),
                ("bldfm.utils", "ideal_source")],
        "C17": [("bldfm.plotting._geo", "xy_to_latlon"), ("bldfm.config_parser", "latlon_to_xy")],
        "C19": [("bldfm.ffm_kormann_meixner", "estimateFootprint"), ("bldfm.ffm_kormann_meixner", "estimateZ0")],
        "C20": [("bldfm.utils", "get_source_area"), ("bldfm.plotting.footprint", "extract_percentile_contour"),
                ("bldfm.plotting", "extract_percentile_contour"), ("bldfm.utils", "source_area_contribution"),
                ("bldfm.utils", "source_area_circular"), ("bldfm.utils", "source_area_upwind"), ("bldfm.utils", "source_area_crosswind"),
                ("bldfm.utils", "source_area_sector")],
    }
    for _p in SOLVER_PROPS:
        REPEAT_TARGETS[_p] = [("bldfm.solver", "steady_state_transport_solver")]
    del _p

    def kind(self, name):
        def deco(fn):
            self.kinds[name] = fn
            return fn
        return deco

    def run_case(self, kind, params):
        params = dict(params)
        threads = params.pop("_threads", None)
        cached = params.pop("_cache", None)
        repeat = params.pop("_repeat", None)
        undo = None
        undo_r = None
        try:
            if repeat:
                undo_r = _scribble_results(self.REPEAT_TARGETS.get(self.prop, []))
                first = self.kinds[kind](**params)
                if isinstance(first, Verdict) and not first.ok:
                    return first, None
            if threads:
                import bldfm.config as _cfg
                _cfg.NUM_THREADS = int(threads)
            if cached:
                undo = _attach_cache(int(cached))
            v = self.kinds[kind](**params)
            if not isinstance(v, Verdict):
                v = Verdict(bool(v))
            if threads and not v.ok:
                v.detail = "[NUM_THREADS=%d] %s" % (threads, v.detail)
            if cached and not v.ok:
                v.detail = "[footprint solves served through a cache after near-twin requests] %s" % v.detail
            if repeat and not v.ok:
                v.detail = "[second run of the case in one process; the caller of the first run edited the arrays it was handed in place] %s" % v.detail
                v.key = "repeat-" + (v.key or kind)
            return v, None
        except CacheChangesResult as e:
            return Verdict(False, str(e), key="result-through-a-cache-differs"), None
        except ArgumentChanged as e:
            return Verdict(False, str(e), key="argument-changed-or-call-not-repeatable"), None
        except Exception:  # a crash of the real code on an admitted input is reported apart
            return None, traceback.format_exc(limit=8)
        finally:
            if threads:
                import bldfm.config as _cfg
                _cfg.NUM_THREADS = 1
            if undo:
                undo()
            if undo_r:
                undo_r()

    def main(self, generate):
        ap = argparse.ArgumentParser()
        ap.add_argument("--tier", default=os.environ.get("VERIF_TIER", "quick"))
        ap.add_argument("--seed", type=int, default=int(os.environ.get("VERIF_SEED", "0")))
        ap.add_argument("--out", default=None)
        ap.add_argument("--replay", default=None)
        ap.add_argument("--max-seconds", type=float, default=None)
        a = ap.parse_args()
        _scratch()
        import logging
        logging.disable(logging.CRITICAL)
        if a.replay:
            spec = json.loads(a.replay)
            v, err = self.run_case(spec["kind"], spec["params"])
            if err:
                print("REPLAY-ERROR\n" + err)
                sys.exit(1)
            print(("REPLAY-PASS " if v.ok else "REPLAY-FAIL ") + v.detail)
            sys.exit(0 if v.ok else 1)
        t0 = time.time()
        rng = random.Random(a.seed)
        n = 0
        seen = set()
        nontrivial = 0
        failures = []
        errors = []
        samples = []
        per_kind = {}
        nmulti = [0]

        def with_threads():
            k = 0
            for kind, params in generate(a.tier, rng):
                yield kind, params
                k += 1
                if self.thread_every and k % self.thread_every == 0 and "_threads" not in params:
                    yield kind, dict(params, _threads=(2, 4)[(k // self.thread_every) % 2])
                multi = isinstance(params.get("levels"), (list, tuple)) and len(params["levels"]) > 1
                if multi:
                    nmulti[0] += 1
                # every 7th case, and (whatever its position) every 2nd case that requests several output levels: the
                # level-order twins of the history need a request whose order matters
                if self.repeat_every and k % self.repeat_every == 0 and not any(x in params for x in ("_repeat", "_threads", "_cache")):
                    yield kind, dict(params, _repeat=1)
                if self.cache_every and (k % self.cache_every == 0 or (multi and nmulti[0] % 2 == 1)) and "_cache" not in params and "_threads" not in params:
                    yield kind, dict(params, _cache=k)
        for kind, params in with_threads():
            if a.max_seconds and time.time() - t0 > a.max_seconds:
                break
            n += 1
            sig = kind + json.dumps(params, sort_keys=True, default=str)
            v, err = self.run_case(kind, params)
            per_kind[kind] = per_kind.get(kind, 0) + 1
            if err:
                errors.append({"kind": kind, "params": params, "traceback": err})
                continue
            if v.nontrivial and sig not in seen:
                nontrivial += 1
            seen.add(sig)
            if len(samples) < 4 or (n % 37 == 0 and len(samples) < 8):
                samples.append({"kind": kind, "params": params, "ok": v.ok,
                                "detail": v.detail[:200]})
            if not v.ok:
                failures.append({"kind": kind, "params": params, "detail": v.detail[:600],
                                 "key": v.key or kind})
        res = {
            "property": self.prop,
            "what": self.what,
            "bound": self.bound,
            "rule": self.rule,
            "tier": a.tier,
            "seed": a.seed,
            "evaluations": n,
            "distinct_nontrivial": nontrivial,
            "per_kind": per_kind,
            "samples": samples,
            "failures": failures,
            "errors": errors,
            "wall_s": round(time.time() - t0, 3),
        }
        txt = json.dumps(res, indent=1, default=str)
        if a.out:
            with open(a.out, "w") as f:
                f.write(txt)
        else:
            print(txt)
        sys.exit(0)


# ----------------------------------------------------------------------------- repeat variant
def _scribble_results(targets):
    import importlib
    import numpy as np

    def arrays_in(x, out, depth=0):
        if isinstance(x, np.ndarray):
            out.append(x)
        elif isinstance(x, (tuple, list)) and depth < 4:
            for y in x:
                arrays_in(y, out, depth + 1)
        elif isinstance(x, dict) and depth < 4:
            for y in x.values():
                arrays_in(y, out, depth + 1)
        return out

    def copied(x, depth=0):
        if isinstance(x, np.ndarray):
            return np.array(x, copy=True, subok=True)
        if isinstance(x, tuple) and depth < 4 and type(x) is tuple:
            return tuple(copied(y, depth + 1) for y in x)
        if isinstance(x, list) and depth < 4 and type(x) is list:
            return [copied(y, depth + 1) for y in x]
        if isinstance(x, dict) and depth < 4 and type(x) is dict:
            return {k: copied(y, depth + 1) for k, y in x.items()}
        return x

    def _array_args(args):
        out = []
        for nm in ("srf_flx", "z", "levels", "meas_pt", "domain", "modes"):
            if isinstance(args.get(nm), np.ndarray):
                out.append((nm, args[nm]))
        for i, pr in enumerate(args.get("profiles") or ()):
            if isinstance(pr, np.ndarray):
                out.append(("profiles[%d]" % i, pr))
        return out

    saved = []
    for modname, name in targets:
        try:
            mod = importlib.import_module(modname)
            real = getattr(mod, name)
        except Exception:
            continue
        if getattr(real, "_pyvc_scribbling", False):
            continue

        def make(real, name=name):
            def wrapper(*a, **k):
                if name == "steady_state_transport_solver":
                    # ... and the tower position is handed over as a float64 array (a row of a table of towers) that the
                    # caller keeps: the call must leave every array argument as it was, and the same call made again with
                    # the same objects must return the same fields
                    import inspect
                    b = inspect.signature(real).bind(*a, **k)
                    b.apply_defaults()
                    args = dict(b.arguments)
                    if isinstance(args.get("meas_pt"), (tuple, list)) and len(args["meas_pt"]) == 2:
                        args["meas_pt"] = np.array([float(args["meas_pt"][0]), float(args["meas_pt"][1])], dtype=np.float64)
                    before = [(nm, np.array(v, copy=True)) for nm, v in _array_args(args)]
                    res = real(**args)
                    for (nm, old), (_, new) in zip(before, _array_args(args)):
                        if old.shape != np.shape(new) or not np.array_equal(old, new, equal_nan=True):
                            raise ArgumentChanged("the solver call changed its argument %s in place (%r -> %r)" % (
                                nm, old.ravel()[:4].tolist(), np.asarray(new).ravel()[:4].tolist()))
                    again = real(**args)
                    for x, y in zip(arrays_in(res, []), arrays_in(again, [])):
                        # (to rounding: the FFT layer is not bit-reproducible for every memory layout of the source)
                        if x.shape != y.shape or not np.allclose(x, y, rtol=0.0, atol=1e-9 * max(float(np.max(np.abs(np.nan_to_num(y)))) if y.size else 0.0, 1e-300), equal_nan=True):
                            raise ArgumentChanged("the same solver call on the same argument objects returned different fields the second time")
                    a, k = (), args
                else:
                    res = real(*a, **k)
                given = arrays_in((a, k), [])
                out = copied(res)
                for arr in arrays_in(res, []):
                    # never what the caller handed in (or a view of it): that is the caller's own data
                    if arr.flags.writeable and arr.dtype.kind in "fciu" and not any(np.may_share_memory(arr, g) for g in given):
                        try:
                            if arr.dtype.kind in "iu":
                                arr[...] = arr // 2 + 1
                            else:
                                arr *= 0.5
                                arr += 0.125
                        except Exception:
                            pass
                return out
            wrapper._pyvc_scribbling = True
            wrapper.__wrapped__ = real
            wrapper.__name__ = getattr(real, "__name__", "f")
            wrapper.__doc__ = getattr(real, "__doc__", None)
            return wrapper
        setattr(mod, name, make(real))
        saved.append((mod, name, real))

    def undo():
        for mod, name, real in saved:
            setattr(mod, name, real)
    return undo


# ----------------------------------------------------------------------------- cache-history variant
class ArgumentChanged(BaseException):      # see CacheChangesResult
    pass


class CacheChangesResult(BaseException):     # not an Exception: the suites treat Exception as behaviour of the solver
    pass


def _attach_cache(salt):
    """Replace bldfm.solver.steady_state_transport_solver (the suites import it at call time) by a wrapper that serves
    every footprint solve WITHOUT a caller-supplied cache through one GreensFunctionCache per case: three near-twin
    requests first (rotating through the menu below), then the request twice; the second answer is returned.  On a tree
    where the cache is transparent the case sees exactly the arrays of the uncached solve."""
    import inspect
    import tempfile
    import numpy as np
    import bldfm.solver as _sol
    from bldfm.cache import GreensFunctionCache
    real = _sol.steady_state_transport_solver
    sig = inspect.signature(real)
    d = tempfile.mkdtemp(prefix="cache", dir=os.getcwd())
    cache = GreensFunctionCache(cache_dir=d)
    state = {"n": salt, "last": []}

    def twins(b):
        a = b.arguments
        q0, z, prof, dom = a["srf_flx"], a["z"], a["profiles"], a["domain"]
        ny, nx = np.shape(q0)
        dx, dy = dom[0] / nx, dom[1] / ny
        lv = a["levels"]
        nz = len(z)
        out = [dict(srf_bg_conc=float(a["srf_bg_conc"]) + 1.7)]
        if np.ndim(lv) > 0 and len(lv) > 1:
            l = [int(x) for x in np.asarray(lv).tolist()]
            out += [dict(levels=l[::-1]), dict(levels=l[1:] + l[:1]), dict(levels=np.asarray(sorted(l)))]
        else:
            l0 = int(np.asarray(lv).ravel()[0])
            out += [dict(levels=l0 - 1 if l0 >= 1 else min(l0 + 1, nz - 1)), dict(levels=[l0]), dict(levels=[l0, max(l0 - 1, 0)])]
        h = a["halo"]
        if h is not None:
            out += [dict(halo=float(h) + dy), dict(halo=float(h) + dx), dict(halo=float(h) + 0.5 * min(dx, dy)), dict(halo=None)]
        else:
            out += [dict(halo=float(max(dom)) + min(dx, dy)), dict(halo=float(max(dom)) - 0.5 * min(dx, dy))]
        xm, ym = a["meas_pt"]
        out += [dict(meas_pt=(float(xm) + dx, float(ym))), dict(meas_pt=(float(xm), float(ym) + dy))]
        out += [dict(srf_flx=np.zeros((ny, nx + 2))), dict(srf_flx=np.zeros((ny + 2, nx)))]
        out += [dict(precision="single" if a["precision"] == "double" else "double")]
        for c in (0, 1, 2, 3, 4):
            if all(prof[c] is not prof[o] for o in range(5) if o != c) or c == 4:
                pr = [np.array(x, copy=True) for x in prof]
                pr[c] = pr[c] * 1.25
                out.append(dict(profiles=tuple(pr)))
        out += [dict(domain=(dom[0] * 1.5, dom[1])), dict(domain=(dom[1], dom[0]))]
        return out

    def solve(*args, **kw):
        b = sig.bind(*args, **kw)
        b.apply_defaults()
        if not b.arguments["footprint"] or b.arguments["cache"] is not None:
            return real(*args, **kw)
        menu = twins(b)
        # always: the other background and, for a request of several levels, the same level set in the other orders;
        # three more, rotating through the rest of the menu
        always = [t for t in menu if "srf_bg_conc" in t or ("levels" in t and np.ndim(b.arguments["levels"]) > 0 and len(b.arguments["levels"]) > 1)]
        rest = [t for t in menu if not any(t is a_ for a_ in always)]
        chosen = list(always)
        for j in range(3):
            chosen.append(rest[(state["n"] + 5 * j) % len(rest)])
            state["n"] += 1
        for t in chosen:
            state.setdefault("hist", []).append(sorted(t))
            state["last"] = state["hist"][-3:]
            try:
                real(**dict(b.arguments, cache=cache, **t))
            except Exception:
                pass            # a near-twin the solver rejects is simply not part of the history
        real(**dict(b.arguments, cache=cache))
        got = real(**dict(b.arguments, cache=cache))
        # what the property was judged on elsewhere in this suite is the uncached solve; a solve through a cache must
        # return the same fields on the same grid (the kind's own oracle cannot always see a difference: a stale
        # background cancels in "conc(bg) - conc(0) = bg")
        ref = real(**dict(b.arguments, cache=None))
        tol = 1e-9 if b.arguments["precision"] == "double" else 1e-4
        names = ("X", "Y", "Z", "conc", "flx")
        for nm, x, y in zip(names, list(got[0]) + [got[1], got[2]], list(ref[0]) + [ref[1], ref[2]]):
            x, y = np.asarray(x), np.asarray(y)
            if x.shape == y.shape and x.dtype.kind in "fc":
                both_nan = np.isnan(x) & np.isnan(y)            # a non-finite cell that is non-finite in both is no difference
                x, y = np.where(both_nan, 0.0, x), np.where(both_nan, 0.0, y)
            if x.shape != y.shape or not np.all(np.abs(x - y) <= tol * max(float(np.max(np.abs(y))), 1e-300)):
                dev = "shape %s vs %s" % (x.shape, y.shape) if x.shape != y.shape else "max deviation %.3e of the maximum" % (
                    float(np.max(np.abs(x - y))) / max(float(np.max(np.abs(y))), 1e-300))
                raise CacheChangesResult("%s of a footprint solve served through a cache differs from the same solve without one (%s); "
                                         "earlier requests through that cache differed from it by %s" % (nm, dev, state["last"]))
        return got

    _sol.steady_state_transport_solver = solve

    def undo():
        _sol.steady_state_transport_solver = real
        shutil.rmtree(d, ignore_errors=True)
    return undo


# ----------------------------------------------------------------------------- helpers
def default_profiles(n=8, zm=5.0, wind=(3.0, 1.0), ustar=0.4, mol=-50.0, closure="MOST", **kw):
    from bldfm.pbl_model import vertical_profiles
    return vertical_profiles(n, zm, wind, ustar=ustar, mol=mol, closure=closure, **kw)


def relerr(a, b):
    import numpy as np
    a = np.asarray(a, dtype=float)
    b = np.asarray(b, dtype=float)
    if a.shape != b.shape:
        return float("inf")
    den = max(float(np.max(np.abs(b))), 1e-300)
    return float(np.max(np.abs(a - b))) / den
