"""C04 -- bounded stand-in: superposition in (surface flux, background concentration).

Oracle: the statement itself.  For inputs (q1, c1), (q2, c2) and coefficients a, b the run on
(a q1 + b q2, a c1 + b c2) must equal a*out1 + b*out2 for concentration and flux at every
level; the background only offsets the concentration by its own value and never changes the
flux; in footprint mode only the SHAPE of the surface-flux array matters.

Observation: public API, precision='double', three (resp. two) solver calls per case.
"""
import os
import sys
import warnings

sys.path.insert(0, os.path.dirname(os.path.abspath(__file__)))
from _common import Suite, Verdict, CacheChangesResult  # noqa: E402

import numpy as np  # noqa: E402

warnings.filterwarnings("ignore")

S = Suite(
    "C04",
    what="three-call superposition test in (srf_flx, srf_bg_conc); background-only "
         "difference test; footprint-mode independence of the source values",
    bound="grids 5..16 x 5..12 cells (odd/even, dx != dy), halo in {0, commensurate, "
          "incommensurate, None}, modes full / truncated / clamped, MOST / MOSTM / CONSTANT "
          "closures and a formula profile, scalar and list levels, numerical and analytic mode, "
          "random / sparse / single-cell / smooth / sign-changing / zero / exactly-zero-mean (dipole, "
          "balanced integers) sources, seeded random coefficients "
          "in [-3, 3] incl. negative and zero, backgrounds in [-2, 5] and integer-TYPED backgrounds 400 / -3 / 1, "
          "integer-typed count fields as source, meas_pt on/off grid",
    rule="superposition to 1e-9 * max(1, e^(G-8)) of (|a| max|out1| + |b| max|out2|), G = "
         "shooting growth max sum Re(lambda)dz (rounding of the numerical mode); background offset to 1e-9 "
         "of (|bg| + max|conc - bg|); flux under a background change and footprint under a "
         "change of source values: identical to 1e-12 of the field maximum",
)

TOL = 1e-9
TOL_SAME = 1e-12


class SolverCrash(Exception):
    pass


def _quiet_exit():
    try:
        import atexit
        from bldfm import fft_manager
        m = fft_manager._fft_manager
        if m is not None:
            atexit.unregister(m._cleanup)
    except Exception:
        pass


def _solve(q0, z, prof, domain, levels, **kw):
    from bldfm.solver import steady_state_transport_solver
    lv = int(levels) if np.ndim(levels) == 0 else [int(l) for l in levels]
    prof = tuple(np.ascontiguousarray(a, dtype=float) for a in prof)
    try:
        _, conc, flx = steady_state_transport_solver(
            (np.array(q0) if np.asarray(q0).dtype.kind in "iub" else np.array(q0, dtype=float)),   # integer count fields and masks keep their type
            np.ascontiguousarray(z, dtype=float), prof, domain, lv,
            precision="double", **kw)
    except CacheChangesResult:
        raise
    except Exception as e:
        raise SolverCrash("%s: %s" % (type(e).__name__, e))
    finally:
        _quiet_exit()
    nl = 1 if np.ndim(levels) == 0 else len(levels)
    ny, nx = np.shape(q0)
    conc, flx = np.asarray(conc), np.asarray(flx)
    if conc.size != nl * ny * nx or flx.size != nl * ny * nx:
        raise SolverCrash("output shape %s for source %s, %d level(s)"
                          % (conc.shape, np.shape(q0), nl))
    return conc.reshape(nl, ny, nx), flx.reshape(nl, ny, nx)


def _crash(e, analytic, levels):
    multi = np.ndim(levels) != 0 and len(levels) > 1
    return Verdict(False, "crash: %s" % e,
                   key="analytic-multilevel-crash" if (analytic and multi) else "solver-crash")


# ------------------------------------------------------------------ inputs
def make_source(kind, ny, nx, rng):
    if kind == "random":
        return rng.random((ny, nx))
    if kind == "signed":
        return rng.standard_normal((ny, nx))
    if kind == "negative":
        return -rng.random((ny, nx)) - 0.1
    if kind == "sparse":
        q = np.zeros((ny, nx))
        for _ in range(3):
            q[rng.integers(ny), rng.integers(nx)] = rng.uniform(-1.0, 2.0)
        return q
    if kind == "smooth":
        y, x = np.mgrid[0:ny, 0:nx]
        cx, cy = rng.uniform(0, nx), rng.uniform(0, ny)
        return 0.1 + np.exp(-((x - cx) ** 2 / (0.1 * nx ** 2 + 1) + (y - cy) ** 2 / (0.1 * ny ** 2 + 1)))
    if kind == "zero":
        return np.zeros((ny, nx))
    if kind == "single":           # one emitting cell (a point source), anywhere on the grid
        q = np.zeros((ny, nx))
        q[int(rng.integers(ny)), int(rng.integers(nx))] = rng.uniform(0.5, 2.0)
        return q
    # sign-changing sources WITHOUT net emission: the horizontal mean (the (0,0) Fourier
    # coefficient) is exactly 0.0 - small integers, so every partial sum is exact
    if kind == "dipole":
        q = np.zeros((ny, nx))
        j, i = int(rng.integers(ny)), int(rng.integers(nx - 1))
        q[j, i], q[j, i + 1] = 1.0, -1.0
        return q
    if kind == "balanced":
        q = rng.integers(-3, 4, (ny, nx)).astype(float)
        q[0, 0] -= q.sum()
        return q
    if kind == "huge":
        return 1e6 * rng.standard_normal((ny, nx))
    if kind == "counts":          # an integer-TYPED field (animal counts, class map): "any surface-flux field"
        return rng.integers(0, 6, (ny, nx))
    raise ValueError(kind)


def make_profiles(spec):
    if spec["type"] == "closure":
        from bldfm.pbl_model import vertical_profiles
        kw = dict(ustar=spec["ustar"], mol=spec["mol"], closure=spec["closure"])
        if spec.get("stretch") is not None:
            kw["stretch"] = spec["stretch"]
        z, prof = vertical_profiles(spec["n"], spec["zm"], tuple(spec["wind"]), **kw)
        return np.asarray(z, dtype=float), tuple(np.asarray(a, dtype=float) * np.ones(len(z))
                                                 for a in prof)
    if spec["type"] == "formula":
        n = spec["n"]
        z = spec["z0"] * (spec["zt"] / spec["z0"]) ** (np.arange(n + 1) / float(n))
        s = spec["uref"] * (z / 5.0) ** 0.2
        th = np.deg2rad(spec["dir"])
        k = spec["a"] * z + spec["b"]
        return z, (s * np.cos(th), s * np.sin(th), 2.0 * k, 0.5 * k, k)
    raise ValueError(spec["type"])


G_REF = 8.0


def shooting_growth(z, prof, nxe, nye, dx, dy, modes):
    """max over retained components of sum_i Re(lambda_i) dz_i.  The numerical mode combines
    two growing auxiliary solutions, so double-precision rounding in its result is of the
    order eps*exp(G); identities between two different runs are held to TOL*max(1, e^(G-8))
    (measured: <= 12 eps e^G, i.e. <= 1% of this tolerance)."""
    nlx, nly = modes
    if nlx > nxe or nly > nye:
        nlx, nly = nxe, nye
    KX, KY = np.meshgrid(2.0 * np.pi * np.fft.fftfreq(nlx, 1.0 / nlx) / (nxe * dx),
                         2.0 * np.pi * np.fft.fftfreq(nly, 1.0 / nly) / (nye * dy))
    u, v, Kx, Ky, Kz = prof
    dz = np.diff(z)
    G = np.zeros(KX.shape)
    for i in range(len(dz)):
        T = -(Kx[i] * KX ** 2 + Ky[i] * KY ** 2) - 1j * (u[i] * KX + v[i] * KY)
        G += np.sqrt(-T / Kz[i] + 0j).real * dz[i]
    return float(G.max())


def rounding_tol(G, analytic):
    return TOL if analytic else TOL * max(1.0, float(np.exp(G - G_REF)))


def _tag(footprint, analytic):
    return "%s-%s" % ("footprint" if footprint else "dispersion",
                      "analytic" if analytic else "numeric")


# ------------------------------------------------------------------ kinds
@S.kind("superposition")
def superposition(nx, ny, X, Y, halo, profile, levels, modes, meas_pt, footprint, analytic,
                  src1, src2, a, b, c1, c2, seed):
    z, prof = make_profiles(profile)
    rng = np.random.default_rng(seed)
    q1 = make_source(src1, ny, nx, rng)
    q2 = make_source(src2, ny, nx, rng)
    kw = dict(modes=tuple(modes), meas_pt=tuple(meas_pt), footprint=footprint,
              analytic=analytic, halo=halo)
    try:
        p1, f1 = _solve(q1, z, prof, (X, Y), levels, srf_bg_conc=c1, **kw)
        p2, f2 = _solve(q2, z, prof, (X, Y), levels, srf_bg_conc=c2, **kw)
        p3, f3 = _solve(a * q1 + b * q2, z, prof, (X, Y), levels, srf_bg_conc=a * c1 + b * c2,
                        **kw)
    except SolverCrash as e:
        return _crash(e, analytic, levels)
    tag = _tag(footprint, analytic)
    px, py = _pads(nx, ny, X, Y, halo)
    G = shooting_growth(z, prof, nx + 2 * px, ny + 2 * py, X / nx, Y / ny, modes)
    tol = rounding_tol(G, analytic)
    if footprint:
        # the fields do not depend on the source; only the background part is linear:
        # conc = G + bg  ->  the combination (a, b) is only meaningful for the bg offset
        ep = float(np.max(np.abs((p3 - (a * c1 + b * c2)) - (p1 - c1)))) / \
            (float(np.max(np.abs(p1 - c1))) + 1e-300)
        ef = float(np.max(np.abs(f3 - f1))) / (float(np.max(np.abs(f1))) + 1e-300)
    else:
        sp = abs(a) * float(np.max(np.abs(p1))) + abs(b) * float(np.max(np.abs(p2))) + 1e-300
        sf = abs(a) * float(np.max(np.abs(f1))) + abs(b) * float(np.max(np.abs(f2))) + 1e-300
        ep = float(np.max(np.abs(p3 - (a * p1 + b * p2)))) / sp
        ef = float(np.max(np.abs(f3 - (a * f1 + b * f2)))) / sf
    detail = "%s a=%.3g b=%.3g c1=%.3g c2=%.3g conc err %.2e flux err %.2e (G=%.1f tol %.1e)" % (
        tag, a, b, c1, c2, ep, ef, G, tol)
    if not (np.isfinite(ep) and np.isfinite(ef)):
        return Verdict(False, detail, key="nonfinite-" + tag)
    if ep > tol:
        return Verdict(False, detail, key="superposition-conc-" + tag)
    if ef > tol:
        return Verdict(False, detail, key="superposition-flux-" + tag)
    return Verdict(True, detail)


@S.kind("background")
def background(nx, ny, X, Y, halo, profile, levels, modes, meas_pt, footprint, analytic, src,
               bg, seed):
    """The background only offsets the concentration (by bg itself) and never the flux."""
    z, prof = make_profiles(profile)
    rng = np.random.default_rng(seed)
    q = make_source(src, ny, nx, rng)
    kw = dict(modes=tuple(modes), meas_pt=tuple(meas_pt), footprint=footprint,
              analytic=analytic, halo=halo)
    try:
        p0, f0 = _solve(q, z, prof, (X, Y), levels, srf_bg_conc=0.0, **kw)
        p1, f1 = _solve(q, z, prof, (X, Y), levels, srf_bg_conc=bg, **kw)
    except SolverCrash as e:
        return _crash(e, analytic, levels)
    tag = _tag(footprint, analytic)
    ep = float(np.max(np.abs((p1 - p0) - bg))) / (abs(bg) + float(np.max(np.abs(p0))) + 1e-300)
    ef = float(np.max(np.abs(f1 - f0))) / (float(np.max(np.abs(f0))) + 1e-300)
    detail = "%s bg=%.3g: |conc(bg)-conc(0)-bg| %.2e, flux change %.2e" % (tag, bg, ep, ef)
    if not (np.isfinite(ep) and np.isfinite(ef)):
        return Verdict(False, detail, key="nonfinite-" + tag)
    if ef > TOL_SAME:
        return Verdict(False, detail, key="background-changes-flux-" + tag)
    if ep > TOL:
        return Verdict(False, detail, key="background-offset-" + tag)
    return Verdict(True, detail, nontrivial=bg != 0.0)


@S.kind("typed-source")
def typed_source(nx, ny, X, Y, halo, profile, levels, modes, meas_pt, analytic, dtype, bg, seed):
    """'Any surface-flux field': an integer-typed or boolean field (counts, a land-use mask) is the same field as its float
    copy -- linearity in the field leaves no room for a dtype to matter (dispersion mode)."""
    z, prof = make_profiles(profile)
    rng = np.random.default_rng(seed)
    if dtype == "bool":
        q = rng.random((ny, nx)) < 0.3
        q[0, 0] = True
    else:
        q = rng.integers(0, 7, size=(ny, nx)).astype(dtype)
        q[0, 0] = 3
    kw = dict(modes=tuple(modes), meas_pt=tuple(meas_pt), footprint=False, analytic=analytic, halo=halo)
    try:
        p1, f1 = _solve(q, z, prof, (X, Y), levels, srf_bg_conc=bg, **kw)
        p2, f2 = _solve(q.astype(float), z, prof, (X, Y), levels, srf_bg_conc=float(bg), **kw)
    except SolverCrash as e:
        return _crash(e, analytic, levels)
    tag = _tag(False, analytic)
    ep = float(np.max(np.abs(p1 - p2))) / (float(np.max(np.abs(p2))) + 1e-300)
    ef = float(np.max(np.abs(f1 - f2))) / (float(np.max(np.abs(f2))) + 1e-300)
    detail = "%s source of dtype %s against its float copy: conc %.2e flux %.2e" % (tag, dtype, ep, ef)
    if not (ep <= TOL and ef <= TOL):
        return Verdict(False, detail, key="source-dtype-matters-" + tag)
    return Verdict(True, detail, nontrivial=float(np.max(np.abs(f2))) > 0)


@S.kind("footprint_values")
def footprint_values(nx, ny, X, Y, halo, profile, levels, modes, meas_pt, analytic, src1, src2,
                     bg, seed):
    """Footprint mode: two sources of the same shape and different values, same result."""
    z, prof = make_profiles(profile)
    rng = np.random.default_rng(seed)
    q1 = make_source(src1, ny, nx, rng)
    q2 = make_source(src2, ny, nx, rng)
    kw = dict(modes=tuple(modes), meas_pt=tuple(meas_pt), footprint=True, analytic=analytic,
              halo=halo, srf_bg_conc=bg)
    try:
        p1, f1 = _solve(q1, z, prof, (X, Y), levels, **kw)
        p2, f2 = _solve(q2, z, prof, (X, Y), levels, **kw)
    except SolverCrash as e:
        return _crash(e, analytic, levels)
    tag = _tag(True, analytic)
    ep = float(np.max(np.abs(p1 - p2))) / (float(np.max(np.abs(p1))) + 1e-300)
    ef = float(np.max(np.abs(f1 - f2))) / (float(np.max(np.abs(f1))) + 1e-300)
    detail = "%s sources %s/%s: conc diff %.2e, flux diff %.2e" % (tag, src1, src2, ep, ef)
    if not (np.isfinite(ep) and np.isfinite(ef)):
        return Verdict(False, detail, key="nonfinite-" + tag)
    if max(ep, ef) > TOL_SAME:
        return Verdict(False, detail, key="footprint-depends-on-source-values-" +
                       ("analytic" if analytic else "numeric"))
    return Verdict(True, detail, nontrivial=bool(np.max(np.abs(q1 - q2)) > 0))


# ------------------------------------------------------------------ the bounded family
PROFILES = [
    dict(type="closure", closure="MOST", n=8, zm=5.0, wind=[3.0, 1.0], ustar=0.4, mol=-50.0),
    dict(type="closure", closure="MOST", n=6, zm=4.0, wind=[-2.0, 2.5], ustar=0.3, mol=80.0),
    dict(type="closure", closure="MOSTM", n=8, zm=5.0, wind=[2.0, -3.0], ustar=0.35, mol=-30.0,
         stretch=8.0),
    dict(type="closure", closure="MOSTM", n=10, zm=6.0, wind=[1.0, 4.0], ustar=0.5, mol=1e9),
    dict(type="closure", closure="CONSTANT", n=8, zm=5.0, wind=[3.0, 1.0], ustar=0.4, mol=1e9),
    dict(type="formula", n=10, z0=0.1, zt=12.0, uref=3.5, dir=200.0, a=0.12, b=0.02),
]
CONSTANT = PROFILES[4]
#          nx  ny   X      Y     halo
GRIDS = [(16, 12, 160.0, 90.0, 20.0),      # dx=10, dy=7.5: incommensurate in y
         (12, 8, 60.0, 64.0, 0.0),
         (9, 7, 90.0, 42.0, 12.0),         # odd, incommensurate in x
         (8, 6, 80.0, 45.0, None),         # default halo
         (7, 9, 28.0, 36.0, 8.0),          # odd, commensurate
         (10, 6, 200.0, 90.0, 45.0)]       # dx=20, dy=15: 2 and 3 cells
SRC = ["random", "signed", "sparse", "smooth", "negative", "huge", "single"]
ZERO_MEAN = ["dipole", "zero", "balanced"]


def _top(p):
    return len(make_profiles(p)[0]) - 1


def _pads(nx, ny, X, Y, halo):
    h = max(X, Y) if halo is None else halo
    return int(h / (X / nx)), int(h / (Y / ny))


def _modes(nxe, nye, c):
    even = nxe % 2 == 0 and nye % 2 == 0
    opts = [[512, 512]]
    if even:
        opts += [[nxe, nye], [nxe - 4, nye - 2], [4, 4]]
    return opts[c % len(opts)]


def _coef(rng):
    r = rng.random()
    if r < 0.1:
        return 0.0
    if r < 0.2:
        return -1.0
    return round(rng.uniform(-3.0, 3.0), 4)


def _random_grid(rng):
    """Seeded random member of the grid/halo family (thorough tier)."""
    nx, ny = rng.randint(5, 14), rng.randint(5, 14)
    dx = rng.choice([4.0, 5.0, 7.5, 10.0, 12.5, 20.0])
    dy = rng.choice([d for d in (4.0, 5.0, 7.5, 10.0, 12.5, 20.0) if 0.5 <= d / dx <= 2.0])
    r = rng.random()
    if r < 0.15:
        halo = None
    elif r < 0.25:
        halo = 0.0
    elif r < 0.5:
        halo = rng.randint(1, 3) * dx
    else:
        halo = round(rng.uniform(0.2, 3.2) * dx, 2)
    return nx, ny, nx * dx, ny * dy, halo


def generate(tier, rng):
    thorough = tier == "thorough"
    reps = 3 if thorough else 1
    c = 0
    for rep in range(reps):
        for (nx, ny, X, Y, halo) in GRIDS:
            px, py = _pads(nx, ny, X, Y, halo)
            dx, dy = X / nx, Y / ny
            for an in (False, True):
                for multi in (False, True):
                    c += 1
                    p = CONSTANT if an else PROFILES[(c + rep) % len(PROFILES)]
                    top = _top(p)
                    # "at every level": the surface level and the top node included, in any order of the request, repeats allowed
                    lv = [[0, 2, top // 2, top], [top, top // 2, 2, 0], [top // 2, 0, top, 2], [2, 0, 2, top]][c % 4] if multi \
                        else ((top // 2 if c % 2 else top) if c % 5 else 0)
                    mp = [[0.0, 0.0], [3 * dx, 2 * dy], [2.3 * dx, 1.6 * dy]][c % 3]
                    base = dict(nx=nx, ny=ny, X=X, Y=Y, halo=halo, profile=p, levels=lv,
                                modes=_modes(nx + 2 * px, ny + 2 * py, c + rep), meas_pt=mp,
                                analytic=an)
                    yield "superposition", dict(
                        base, footprint=False, src1=SRC[(c) % len(SRC)], src2=SRC[(c + 2) % len(SRC)],
                        a=_coef(rng), b=_coef(rng), c1=round(rng.uniform(-2, 5), 3),
                        c2=round(rng.uniform(-2, 5), 3), seed=rng.randrange(10 ** 6))
                    yield "background", dict(
                        base, footprint=bool(c % 2), src=SRC[(c + 1) % len(SRC)],
                        bg=round(rng.uniform(-2, 5), 3), seed=rng.randrange(10 ** 6))
                    yield "footprint_values", dict(
                        base, src1=SRC[(c) % len(SRC)], src2=("zero", "negative", "huge")[c % 3],
                        bg=(0.0, 1.25)[c % 2], seed=rng.randrange(10 ** 6))
                    # no net emission (mean mode exactly zero) with a background, all levels
                    zs = ZERO_MEAN[c % 3]
                    yield "background", dict(
                        base, footprint=False, src=zs, bg=(2.5, -1.25)[c % 2],
                        seed=rng.randrange(10 ** 6))
                    yield "superposition", dict(
                        base, footprint=False, src1=SRC[(c + 1) % len(SRC)], src2=ZERO_MEAN[(c + 1) % 3],
                        a=(1.0, _coef(rng))[c % 2], b=(1.0, _coef(rng))[c % 2], c1=0.0,
                        c2=round(rng.uniform(0.5, 5), 3), seed=rng.randrange(10 ** 6))
                    if c % 2 == 0:
                        yield "typed-source", dict(base, dtype=("int64", "bool", "uint8", "int32")[(c // 2) % 4], bg=(0.0, 400)[(c // 4) % 2],
                                                   seed=rng.randrange(10 ** 6))
                    # integer-typed background value and source field (YAML `srf_bg_conc: 400`, a count map)
                    yield "background", dict(
                        base, footprint=bool(c % 2), src=("counts", SRC[(c) % len(SRC)])[c % 2], bg=(400, -3, 1)[c % 3],
                        seed=rng.randrange(10 ** 6))
                    if thorough or c % 3 == 0:
                        yield "superposition", dict(
                            base, footprint=True, src1=SRC[(c + 3) % len(SRC)], src2=SRC[(c + 4) % len(SRC)],
                            a=_coef(rng), b=_coef(rng), c1=round(rng.uniform(-2, 5), 3),
                            c2=round(rng.uniform(-2, 5), 3), seed=rng.randrange(10 ** 6))
                        yield "background", dict(
                            base, footprint=not bool(c % 2), src=SRC[(c + 5) % len(SRC)],
                            bg=-1.5, seed=rng.randrange(10 ** 6))
    # ---- seeded random members (thorough only)
    if thorough:
        for i in range(360):
            nx, ny, X, Y, halo = _random_grid(rng)
            px, py = _pads(nx, ny, X, Y, halo)
            an = rng.random() < 0.3
            p = CONSTANT if an else rng.choice(PROFILES)
            top = _top(p)
            lv = sorted(rng.sample(range(top + 1), rng.randint(2, 4))) if rng.random() < 0.5 \
                else rng.randint(0, top)
            mp = [0.0, 0.0] if rng.random() < 0.3 else \
                [round(rng.uniform(0, X), 2), round(rng.uniform(0, Y), 2)]
            base = dict(nx=nx, ny=ny, X=X, Y=Y, halo=halo, profile=p, levels=lv,
                        modes=_modes(nx + 2 * px, ny + 2 * py, rng.randrange(4)), meas_pt=mp,
                        analytic=an)
            k = i % 3
            if k == 0:
                yield "superposition", dict(
                    base, footprint=rng.random() < 0.25, src1=rng.choice(SRC),
                    src2=rng.choice(SRC), a=_coef(rng), b=_coef(rng),
                    c1=round(rng.uniform(-2, 5), 3), c2=round(rng.uniform(-2, 5), 3),
                    seed=rng.randrange(10 ** 6))
            elif k == 1:
                yield "background", dict(
                    base, footprint=rng.random() < 0.5, src=rng.choice(SRC + ZERO_MEAN),
                    bg=round(rng.uniform(-2, 5), 3), seed=rng.randrange(10 ** 6))
            else:
                yield "footprint_values", dict(
                    base, src1=rng.choice(SRC), src2=rng.choice(SRC + ["zero"]),
                    bg=rng.choice([0.0, 0.7]), seed=rng.randrange(10 ** 6))


if __name__ == "__main__":
    S.main(generate)
