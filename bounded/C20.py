"""C20 - source-area rescaling and percentile contours mean what they say.

Native replay oracle.  get_source_area(f, g) is compared with the brute-force O(n^2) *set form*
of the statement: for every cell c

    sum{ f[c'] : g[c'] > g[c] }  <=  out[c]  <=  sum{ f[c'] : g[c'] >= g[c], c' != c }

(cells tied with c "may or may not be counted"), hence 0 <= out <= total, out non-increasing in
g, and - for tie-free g - invariance under strictly increasing transforms of g and common
permutations of the cells.  extract_percentile_contour is compared with "the fewest
highest-valued cells whose sum reaches p of the total": level = the smallest of them, area =
count * cell area; monotone in p; f -> c f scales the level and keeps the area.

To keep the oracle unambiguous in floating point, exact cases use small integers stored as
floats (all sums exact) and targets p*total either exactly representable hits or half-way
between two partial sums; random real-valued cases are skipped (nontrivial=False) when the target
is within 1e-9*total of a partial sum, and use tolerance 1e-12*total.
"""
import math
import os
import sys
from fractions import Fraction

sys.path.insert(0, os.path.dirname(__file__))
from _common import Suite, Verdict  # noqa: E402

S = Suite(
    "C20",
    what="utils.get_source_area, source_area_{contribution,circular,upwind,crosswind,sector}, "
         "plotting.extract_percentile_contour against brute-force set-form oracles",
    bound="fields of 1..120 cells (1-D, 2-D, 3-D; C-ordered and transposed views): small-integer "
          "valued with many ties and zeros, sparse, and real-valued random; base fields: random "
          "tie-free, tied, integer-typed (int8..int64, uint8..uint64, bool; permutations, class "
          "maps with zeros, values at the ends of the dtype range), the five built-ins on grids with the tower on/off a node "
          "and 8..16 wind directions; p in (0,1] incl. exact hits and p=1; 2-D/3-D inputs with "
          "1-D/2-D/3-D coordinates; total = 0 and negative f not examined",
    rule="set-form interval per cell (exact for integer-valued f, 1e-12*total otherwise); exact "
         "cell count and level for the percentile contour",
)


# --------------------------------------------------------------------------- field builders
def _fields(seed, n, ftype, gtype):
    import numpy as np
    rs = np.random.RandomState(seed)
    if ftype == "int":          # many ties and zeros, exact sums
        f = rs.randint(0, 5, n).astype(float)
    elif ftype == "sparse":
        f = np.where(rs.rand(n) < 0.2, rs.randint(1, 9, n), 0).astype(float)
    elif ftype == "real":
        f = rs.rand(n) ** 3
    elif ftype == "real-sparse":
        f = np.where(rs.rand(n) < 0.3, rs.rand(n), 0.0)
    else:
        raise ValueError(ftype)
    if gtype == "tiefree":      # well separated
        g = (rs.permutation(n) - n / 2.0) * 0.75 + 0.1
    elif gtype == "ties":
        g = rs.randint(-2, 3, n).astype(float)
    elif gtype == "f":
        g = f.copy()
    elif gtype == "real":
        g = rs.standard_normal(n)
    else:
        raise ValueError(gtype)
    return f, g


def _shape(n, ndim, layout):
    """Factor n into a shape of the given rank."""
    if ndim == 1:
        return (n,)
    facs = [d for d in range(1, n + 1) if n % d == 0]
    a = facs[len(facs) // 2]
    if ndim == 2:
        return (a, n // a)
    m = n // a
    f2 = [d for d in range(1, m + 1) if m % d == 0]
    b = f2[len(f2) // 2]
    return (a, b, m // b)


def _arrange(a, shape, layout):
    import numpy as np
    a = np.asarray(a).reshape(shape)
    if layout == "T" and a.ndim >= 2:
        return np.ascontiguousarray(a.T).T      # same values and shape, Fortran-ordered memory
    return a


def _brute(f, g):
    """(lower, upper) per cell, from the statement; python floats / exact when integer valued."""
    ff = [float(v) for v in f.reshape(-1)]
    gg = [float(v) for v in g.reshape(-1)]
    n = len(ff)
    lo = [math.fsum(ff[j] for j in range(n) if gg[j] > gg[c]) for c in range(n)]
    hi = [math.fsum(ff[j] for j in range(n) if gg[j] >= gg[c] and j != c) for c in range(n)]
    return lo, hi


def _check_set_form(out, f, g, exact, tag):
    import numpy as np
    if np.shape(out) != np.shape(g):
        return Verdict(False, "%s: shape %r for g of shape %r" % (tag, np.shape(out), np.shape(g)),
                       key="shape")
    lo, hi = _brute(np.asarray(f), np.asarray(g))
    total = math.fsum(float(v) for v in np.asarray(f).reshape(-1))
    tol = 0.0 if exact else 1e-12 * total
    o = [float(v) for v in np.asarray(out).reshape(-1)]
    gg = [float(v) for v in np.asarray(g).reshape(-1)]
    for c in range(len(o)):
        if not (lo[c] - tol <= o[c] <= hi[c] + tol):
            return Verdict(False, "%s: cell %d (g=%r): out=%r outside [%r, %r] = [sum f over g'>g, "
                           "sum f over g'>=g minus own]" % (tag, c, gg[c], o[c], lo[c], hi[c]),
                           key="set-form")
        if not (-tol <= o[c] <= total + tol):
            return Verdict(False, "%s: out=%r outside [0,%r]" % (tag, o[c], total), key="range")
    order = sorted(range(len(o)), key=lambda c: gg[c])
    for a, b in zip(order, order[1:]):
        if gg[b] > gg[a] and o[b] > o[a] + tol:
            return Verdict(False, "%s: not non-increasing in g: g %r<%r but out %r<%r"
                           % (tag, gg[a], gg[b], o[a], o[b]), key="monotone")
    return None


# --------------------------------------------------------------------------- get_source_area
@S.kind("set-form")
def set_form(seed, n, ndim, layout, ftype, gtype):
    from bldfm.utils import get_source_area
    f, g = _fields(seed, n, ftype, gtype)
    shape = _shape(n, ndim, layout)
    f, g = _arrange(f, shape, layout), _arrange(g, shape, layout)
    out = get_source_area(f, g)
    bad = _check_set_form(out, f, g, ftype in ("int", "sparse"), "get_source_area")
    return bad or Verdict(True, "n=%d %s/%s" % (n, ftype, gtype))


@S.kind("integer-g")
def integer_g(seed, n, dtype, gkind="perm"):
    """'any base field g': an integer-typed g (a rank, a class map, raw counts, a mask) must still
    give the sums, whatever the integer dtype - signed, unsigned or bool.
    gkind: perm     a permutation of 0..n-1 (tie-free, contains the value 0)
           classes  few classes 0..3 (ties; zeros are the lowest class)
           extremes values at both ends of the dtype's range and around zero (<= 32 bit dtypes,
                    so that the oracle's float copy of g is exact)
           mask     0/1 (bool or integer)"""
    import numpy as np
    from bldfm.utils import get_source_area
    rs = np.random.RandomState(seed)
    f = rs.randint(1, 8, n) / 8.0                 # exact binary fractions
    dt = np.dtype(dtype)
    if gkind == "perm":
        vals = rs.permutation(n)
    elif gkind == "classes":
        vals = rs.randint(0, 4, n)
    elif gkind == "mask" or dt.kind == "b":
        vals = (rs.rand(n) < 0.5).astype(int)
    elif gkind == "extremes":
        ii = np.iinfo(dt)
        if ii.bits > 32:
            raise AssertionError("generator: 'extremes' is for dtypes of at most 32 bits")
        pool = sorted(set([ii.min, ii.min + 1, ii.max - 1, ii.max, 0, 1, 2] +
                          ([-1, -2] if ii.min < 0 else [ii.max // 2])))
        vals = np.array([pool[k] for k in rs.randint(0, len(pool), n)], dtype=object)
    else:
        raise ValueError(gkind)
    if dt.kind != "b" and (int(min(vals)) < np.iinfo(dt).min or int(max(vals)) > np.iinfo(dt).max):
        raise AssertionError("generator: values do not fit %s" % dtype)
    g = np.array([int(v) for v in vals]).astype(dt) if dt.kind != "b" else np.array(
        [bool(v) for v in vals])
    shape = _shape(n, 2, "C")
    f, g = f.reshape(shape), g.reshape(shape)
    g0 = g.copy()
    out = get_source_area(f, g)
    if not np.array_equal(g, g0) or g.dtype != g0.dtype:
        return Verdict(False, "get_source_area changed its argument g", key="integer-g-mutated")
    bad = _check_set_form(out, f, g, True, "integer-typed g (%s, %s)" % (dtype, gkind))
    if bad:
        # the same values as float64 are the reference behaviour: tells a dtype-dependent
        # ordering from a wrong sum
        ref = _check_set_form(get_source_area(f, g.astype(float)), f, g, True, "float copy of g")
        bad.key = ("integer-g-" + ("unsigned" if dt.kind == "u" else "bool" if dt.kind == "b"
                                   else "signed") + "-order") if ref is None else \
            "integer-g-truncates-sums"
        bad.detail += "; out dtype %s; float64 copy of g %s" % (
            np.asarray(out).dtype, "is right" if ref is None else "fails too")
        return bad
    return Verdict(True, "n=%d %s %s" % (n, dtype, gkind), nontrivial=n > 1)


@S.kind("transform-invariance")
def transform_invariance(seed, n, ftype, transform):
    import numpy as np
    from bldfm.utils import get_source_area
    f, g = _fields(seed, n, ftype, "tiefree")
    shape = _shape(n, 2, "C")
    f, g = f.reshape(shape), g.reshape(shape)
    if transform == "affine":
        h = 3.5 * g + 11.0
    elif transform == "exp":
        h = np.exp(g / 16.0)
    elif transform == "cube":
        h = g ** 3
    elif transform == "atan":
        h = np.arctan(g / 10.0)
    elif transform == "rank":
        h = np.argsort(np.argsort(g.ravel())).reshape(shape).astype(float)
    else:
        raise ValueError(transform)
    # the transform must be strictly increasing on the sample (guards the oracle itself)
    og = np.argsort(g.ravel())
    if not np.all(np.diff(h.ravel()[og]) > 0):
        return Verdict(True, "transform not strictly increasing in floats; skipped",
                       nontrivial=False)
    a, b = get_source_area(f, g), get_source_area(f, h)
    total = float(f.sum())
    tol = 0.0 if ftype in ("int", "sparse") else 1e-12 * total
    d = float(np.max(np.abs(np.asarray(a, float) - np.asarray(b, float))))
    if d > tol:
        return Verdict(False, "get_source_area(f, g) vs (f, %s(g)): max diff %r" % (transform, d),
                       key="transform-invariance")
    return Verdict(True, "%s diff %r" % (transform, d))


@S.kind("permutation")
def permutation(seed, n, ftype):
    import numpy as np
    from bldfm.utils import get_source_area
    f, g = _fields(seed, n, ftype, "tiefree")
    rs = np.random.RandomState(seed + 1)
    pi = rs.permutation(n)
    shape = _shape(n, 2, "C")
    a = np.asarray(get_source_area(f.reshape(shape), g.reshape(shape)), float).ravel()
    b = np.asarray(get_source_area(f[pi].reshape(shape), g[pi].reshape(shape)), float).ravel()
    total = float(f.sum())
    tol = 0.0 if ftype in ("int", "sparse") else 1e-12 * total
    d = float(np.max(np.abs(a[pi] - b)))
    if d > tol:
        return Verdict(False, "permuting the cells changes the result by %r" % d,
                       key="permutation")
    return Verdict(True, "diff %r" % d)


# --------------------------------------------------------------------------- base functions
def _grid(nx, ny, dx, dy):
    import numpy as np
    x = np.arange(nx) * dx
    y = np.arange(ny) * dy
    return np.meshgrid(x, y)


@S.kind("base-functions")
def base_functions(seed, nx, ny, dx, dy, xm, ym, wind_dir, speed):
    """Formulas of the five base fields, then each of them as g against the set form."""
    import numpy as np
    from bldfm.utils import (get_source_area, source_area_contribution, source_area_circular,
                             source_area_upwind, source_area_crosswind, source_area_sector)
    rs = np.random.RandomState(seed)
    X, Y = _grid(nx, ny, dx, dy)
    th = math.radians(wind_dir)
    u, v = -speed * math.sin(th), -speed * math.cos(th)
    f = rs.randint(0, 4, (ny, nx)).astype(float)
    got = {
        "contribution": source_area_contribution(f),
        "circular": source_area_circular(X, Y, (xm, ym)),
        "upwind": source_area_upwind(X, Y, (xm, ym), (u, v)),
        "crosswind": source_area_crosswind(X, Y, (xm, ym), (u, v)),
        "sector": source_area_sector(X, Y, (xm, ym), (u, v)),
    }
    sp = math.hypot(u, v)
    uh, vh = u / sp, v / sp
    scale = (nx * dx) ** 2 + (ny * dy) ** 2
    for name, G in got.items():
        if np.shape(G) != (ny, nx):
            return Verdict(False, "%s: shape %r, grid %r" % (name, np.shape(G), (ny, nx)),
                           key="base-shape-" + name)
    for j in range(ny):
        for i in range(nx):
            ddx, ddy = float(X[j, i]) - xm, float(Y[j, i]) - ym
            want = {
                "contribution": (float(f[j, i]), 0.0),
                "circular": (-(ddx * ddx + ddy * ddy), 1e-12 * scale),
                "upwind": (uh * ddx + vh * ddy, 1e-12 * math.sqrt(scale)),
                "crosswind": (-((-vh * ddx + uh * ddy) ** 2), 1e-12 * scale),
            }
            if ddx != 0.0 or ddy != 0.0:
                # angle between the cell's bearing and the upwind direction (-u,-v)
                cr = (-u) * ddy - (-v) * ddx
                dt = (-u) * ddx + (-v) * ddy
                want["sector"] = (-abs(math.atan2(cr, dt)), 1e-9)
            for name, (w, tol) in want.items():
                gv = float(got[name][j, i])
                if abs(gv - w) > tol:
                    return Verdict(False, "%s at cell (%d,%d): %r, formula gives %r"
                                   % (name, j, i, gv, w), key="base-formula-" + name)
    for name, G in got.items():
        out = get_source_area(f, np.asarray(G, dtype=float))
        bad = _check_set_form(out, f, np.asarray(G, dtype=float), True, "g=" + name)
        if bad:
            bad.key = bad.key + "-" + name
            return bad
    return Verdict(True, "wind_dir=%r" % wind_dir)


# --------------------------------------------------------------------------- percentile contour
def _oracle_pct(vals, p_target_exact):
    """Fewest highest-valued cells whose (exact) sum reaches the target.  vals: Fractions."""
    s = sorted(vals, reverse=True)
    acc = Fraction(0)
    for k, v in enumerate(s, 1):
        acc += v
        if acc >= p_target_exact:
            return k, s[k - 1]
    return len(s), s[-1]


def _coords(nx, ny, dx, dy, coords, nz):
    import numpy as np
    x = 3.0 + np.arange(nx) * dx
    y = -2.0 + np.arange(ny) * dy
    if coords == "1d":
        return x, y, np.float64(1.0)
    X, Y = np.meshgrid(x, y)
    if coords == "3d":
        z = 0.5 + np.arange(nz)
        Z, Y3, X3 = np.meshgrid(z, y, x, indexing="ij")
        return X3, Y3, Z
    return X, Y, np.full((ny, nx), 1.0)


@S.kind("percentile-exact")
def percentile_exact(seed, nx, ny, dx, dy, ftype, pnum, pden, half, coords, nz, level):
    """Integer-valued field; target either an exactly representable hit (half=0: p=pnum/pden with
    pden a power of two) or half-way between two partial sums (half=1: p=(m+1/2)/total)."""
    import numpy as np
    from bldfm.plotting import extract_percentile_contour
    rs = np.random.RandomState(seed)
    n = nx * ny

    def mk():
        if ftype == "sparse":
            return np.where(rs.rand(n) < 0.25, rs.randint(1, 9, n), 0).astype(float)
        return rs.randint(0, 6, n).astype(float)
    layers = [mk() for _ in range(max(nz, 1))]
    f2 = layers[level if nz else 0]
    total = int(f2.sum())
    if total == 0:
        return Verdict(True, "empty field; the statement is silent", nontrivial=False)
    if half:
        m = (pnum * total) // pden
        m = min(max(m, 0), total - 1)
        target = Fraction(2 * m + 1, 2)
        p = (m + 0.5) / total
    else:
        target = Fraction(pnum, pden) * total
        p = pnum / pden
    k, lev = _oracle_pct([Fraction(int(v)) for v in f2], target)
    grid = _coords(nx, ny, dx, dy, coords, nz)
    if nz:
        flx = np.stack([l.reshape(ny, nx) for l in layers])
        got_level, got_area = extract_percentile_contour(flx, grid, p, level=level)
    else:
        got_level, got_area = extract_percentile_contour(f2.reshape(ny, nx), grid, p)
    cell = abs(dx * dy)
    if abs(got_area - k * cell) > 1e-9 * cell:
        return Verdict(False, "p=%r: area %r = %.6g cells, the fewest cells reaching p*total=%s "
                       "are %d (cell area %r)" % (p, got_area, got_area / cell, target, k, cell),
                       key="percentile-count")
    if got_level != float(lev):
        return Verdict(False, "p=%r: level %r, smallest of the %d chosen cells is %r"
                       % (p, got_level, k, float(lev)), key="percentile-level")
    return Verdict(True, "k=%d level=%r" % (k, float(lev)))


@S.kind("percentile-real")
def percentile_real(seed, nx, ny, dx, dy, p, scale):
    """Real-valued field: oracle in exact rational arithmetic on the float values; skipped when
    the target lies within 1e-9*total of a partial sum.  Also monotone in p and scaling."""
    import numpy as np
    from bldfm.plotting import extract_percentile_contour
    rs = np.random.RandomState(seed)
    f = rs.rand(ny, nx) ** 4 * np.where(rs.rand(ny, nx) < 0.2, 0.0, 1.0)
    vals = [Fraction(float(v)) for v in f.ravel()]
    total = sum(vals)
    if total == 0:
        return Verdict(True, "empty", nontrivial=False)
    X, Y, Z = _coords(nx, ny, dx, dy, "2d", 0)
    cell = abs(dx * dy)
    res = {}
    for q in (p, min(1.0, p + 0.13), p * 0.5):
        target = Fraction(q) * total
        s = sorted(vals, reverse=True)
        acc, amb = Fraction(0), False
        for v in s:
            acc += v
            if abs(acc - target) < Fraction(1, 10 ** 9) * total:
                amb = True
        if amb:
            continue
        k, lev = _oracle_pct(vals, target)
        gl, ga = extract_percentile_contour(f, (X, Y, Z), q)
        if abs(ga - k * cell) > 1e-9 * cell or gl != float(lev):
            return Verdict(False, "p=%r: (level, area)=(%r, %r), oracle (%r, %r)"
                           % (q, gl, ga, float(lev), k * cell), key="percentile-real")
        gl2, ga2 = extract_percentile_contour(scale * f, (X, Y, Z), q)
        if abs(ga2 - ga) > 1e-9 * cell or abs(gl2 - scale * gl) > 1e-12 * abs(scale * gl):
            return Verdict(False, "scaling f by %r: level %r -> %r, area %r -> %r"
                           % (scale, gl, gl2, ga, ga2), key="percentile-scaling")
        res[q] = (gl, ga)
    qs = sorted(res)
    for a, b in zip(qs, qs[1:]):
        if res[a][1] > res[b][1] + 1e-9 * cell or res[a][0] < res[b][0]:
            return Verdict(False, "not monotone in p: p=%r -> %r, p=%r -> %r"
                           % (a, res[a], b, res[b]), key="percentile-monotone")
    if not res:
        return Verdict(True, "all targets ambiguous; skipped", nontrivial=False)
    return Verdict(True, "%d fractions" % len(res))


@S.kind("percentile-monotone-exact")
def percentile_monotone_exact(seed, nx, ny, dx, dy, ftype):
    """Integer-valued field, p over a ladder incl. exact hits: area up, level down; power-of-two
    scaling of f scales the level exactly and keeps the area."""
    import numpy as np
    from bldfm.plotting import extract_percentile_contour
    rs = np.random.RandomState(seed)
    n = nx * ny
    f = (np.where(rs.rand(n) < 0.25, rs.randint(1, 9, n), 0) if ftype == "sparse"
         else rs.randint(0, 6, n)).astype(float).reshape(ny, nx)
    if f.sum() == 0:
        return Verdict(True, "empty", nontrivial=False)
    grid = _coords(nx, ny, dx, dy, "2d", 0)
    cell = abs(dx * dy)
    prev = None
    for p in (0.0625, 0.125, 0.25, 0.375, 0.5, 0.625, 0.75, 0.875, 1.0):
        lev, area = extract_percentile_contour(f, grid, p)
        lev4, area4 = extract_percentile_contour(4.0 * f, grid, p)
        levq, areaq = extract_percentile_contour(0.125 * f, grid, p)
        if (lev4, area4) != (4.0 * lev, area) or (levq, areaq) != (0.125 * lev, area):
            return Verdict(False, "p=%r: scaling f by 4 / 0.125 gives (%r,%r) / (%r,%r) from (%r,%r)"
                           % (p, lev4, area4, levq, areaq, lev, area), key="percentile-scaling")
        if prev is not None and (area < prev[1] - 1e-9 * cell or lev > prev[0]):
            return Verdict(False, "not monotone in p: %r then p=%r -> %r" % (prev, p, (lev, area)),
                           key="percentile-monotone")
        prev = (lev, area)
    npos = int(np.sum(f > 0))
    if abs(prev[1] - npos * cell) > 1e-9 * cell:
        return Verdict(False, "p=1: area %r, the %d positive cells make the total (cell %r)"
                       % (prev[1], npos, cell), key="percentile-count")
    return Verdict(True, "ladder ok")


# --------------------------------------------------------------------------- generator
def generate(tier, rng):
    q = tier == "quick"
    sizes = [1, 2, 3, 5, 8, 12, 24, 36, 60] + ([] if q else [90, 120])
    reps = 1 if q else 4
    for rep in range(reps):
        for n in sizes:
            for ftype in ("int", "sparse", "real", "real-sparse"):
                for gtype in ("tiefree", "ties", "f", "real"):
                    for ndim, layout in ((2, "C"), (2, "T"), (1, "C"), (3, "C")):
                        if (ndim, layout) != (2, "C") and (n < 8 or gtype in ("real",)):
                            continue
                        yield "set-form", dict(seed=rng.randrange(2 ** 31), n=n, ndim=ndim,
                                               layout=layout, ftype=ftype, gtype=gtype)
    for rep in range(reps):
        for n in (2, 6, 24, 60):
            for dtype in ("int64", "int32"):
                yield "integer-g", dict(seed=rng.randrange(2 ** 31), n=n, dtype=dtype)
            # every integer dtype class: unsigned (class maps, counts, image-like data), narrow
            # signed, bool masks; with zeros, ties and the ends of the dtype's range
            for dtype in ("uint8", "uint16", "uint32", "uint64", "int8", "int16", "int64", "bool"):
                if dtype == "bool":
                    gkinds = ["mask"]
                else:
                    gkinds = ["perm", "classes"]
                    if dtype not in ("uint64", "int64"):
                        gkinds.append("extremes")
                    if dtype in ("uint8", "int8"):
                        gkinds.append("mask")
                for gkind in gkinds:
                    yield "integer-g", dict(seed=rng.randrange(2 ** 31), n=n, dtype=dtype,
                                            gkind=gkind)
            for ftype in ("int", "sparse", "real"):
                for tr in ("affine", "exp", "cube", "atan", "rank"):
                    yield "transform-invariance", dict(seed=rng.randrange(2 ** 31), n=n,
                                                       ftype=ftype, transform=tr)
                yield "permutation", dict(seed=rng.randrange(2 ** 31), n=n, ftype=ftype)
    ndirs = 8 if q else 16
    for k in range(ndirs):
        wd = 360.0 * k / ndirs
        for (nx, ny, dx, dy) in ((7, 5, 10.0, 10.0), (6, 9, 4.0, 2.5)):
            for onnode in (True, False):
                xm = (nx // 2) * dx if onnode else (nx / 2.0) * dx + 0.3 * dx
                ym = (ny // 2) * dy if onnode else (ny / 3.0) * dy + 0.2 * dy
                yield "base-functions", dict(seed=rng.randrange(2 ** 31), nx=nx, ny=ny, dx=dx,
                                             dy=dy, xm=xm, ym=ym,
                                             wind_dir=wd + (0.0 if onnode else 7.3),
                                             speed=rng.choice([0.5, 3.0, 11.0]))
    geoms = ((6, 4, 2.0, 0.5), (5, 7, 1.0, 4.0), (9, 3, -2.0, 3.0), (2, 8, 1.0, 1.0))
    for rep in range(reps):
        for (nx, ny, dx, dy) in geoms:
            for ftype in ("int", "sparse"):
                for coords, nz, level in (("2d", 0, 0), ("1d", 0, 0), ("3d", 3, 0), ("3d", 3, 2),
                                          ("2d", 2, 1)):
                    for (pnum, pden) in ((1, 4), (1, 2), (3, 4), (1, 1), (5, 8), (1, 16)):
                        yield "percentile-exact", dict(seed=rng.randrange(2 ** 31), nx=nx, ny=ny,
                                                       dx=dx, dy=dy, ftype=ftype, pnum=pnum,
                                                       pden=pden, half=0, coords=coords, nz=nz,
                                                       level=level)
                    for pnum in (1, 3, 5, 8, 9):
                        yield "percentile-exact", dict(seed=rng.randrange(2 ** 31), nx=nx, ny=ny,
                                                       dx=dx, dy=dy, ftype=ftype, pnum=pnum,
                                                       pden=10, half=1, coords=coords, nz=nz,
                                                       level=level)
                yield "percentile-monotone-exact", dict(seed=rng.randrange(2 ** 31), nx=nx, ny=ny,
                                                        dx=dx, dy=dy, ftype=ftype)
    for k in range(40 if q else 400):
        nx, ny = rng.randint(2, 12), rng.randint(2, 12)
        yield "percentile-real", dict(seed=rng.randrange(2 ** 31), nx=nx, ny=ny,
                                      dx=rng.choice([1.0, 2.5, 10.0]), dy=rng.choice([1.0, 3.0]),
                                      p=rng.uniform(0.05, 1.0),
                                      scale=rng.choice([3.7, 0.01, 1e6, 2.0, 1.6e-10, 1e-14, 1e-25, 1e12]))   # incl. flux-contribution maps in SI units


if __name__ == "__main__":
    S.main(generate)
