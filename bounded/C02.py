"""C02 - bounded native stand-in / replay oracle.

Property: sum(q0 * footprint(meas_pt)) equals the vertical flux (resp. the concentration above
background) of a forward dispersion run of the same surface-flux field at that point and
height, for every on-grid point, halo kind, mode truncation, closure and precision.

Oracle = the statement itself, observed through the public API only: two calls of
bldfm.solver.steady_state_transport_solver on the same inputs
    (a) footprint=True  at meas_pt=(i_m*dx, j_m*dy), srf_bg_conc=0
    (b) footprint=False at meas_pt=(0,0),            srf_bg_conc=bg
and the comparison   sum(q0*flx_a) == flx_b[j_m,i_m],   sum(q0*conc_a) == conc_b[j_m,i_m]-bg.
The identity is exact for any retained wavenumber set (DESIGN appendix B.2), so double
precision is compared at 1e-9 and single precision at 1e-4, relative to the field maximum.
"""
import os
import sys

sys.path.insert(0, os.path.dirname(os.path.abspath(__file__)))
from _common import Suite, Verdict, default_profiles, relerr  # noqa: E402,F401

import numpy as np  # noqa: E402

S = Suite(
    "C02",
    what="reciprocity: sum(q0*footprint) vs forward field at the tower (flux and "
         "concentration above background), two public solver calls per case",
    bound="grids 6..24 x 6..20 cells (even, and odd with clamped modes), dx!=dy from a menu of "
          "exactly representable spacings plus every column of a 48 x 30 grid with dx = 1000/48, dy = 80/30, on-grid towers, halo in {None, 0, commensurate, "
          "incommensurate}, modes truncated / at / above the padded size, closures MOST, "
          "MOSTM, CONSTANT, OAAHOC and hand-built anisotropic veering profiles, nz 6..17, "
          "random / sparse / smooth sources, all output levels incl. the top node, single "
          "and double precision; point_measurement on every pair of memory layouts (C, Fortran, transposed view, strided); "
          "a sample of this family, not all inputs",
    rule="|sum(q0*fp) - field[jm,im]| <= tol*max|field| with tol = max(1e-9 (double) or 1e-4 "
         "(single), 300*eps*exp(G)), G = max over retained wavenumbers of sum_i Re(lambda_i) dz_i "
         "below the output level (rounding amplification of the shooting solve; G<=9.6 leaves "
         "1e-9); cases with G>18 are counted as trivial",
)

TOL = {"double": 1e-9, "single": 1e-4}
EPS = 2.220446049250313e-16
GMAX = 18.0


def growth(z, profiles, lev, nx, ny, dx, dy, halo, modes):
    """Conditioning estimate from the PDE (DESIGN B.1), not from the code: the two auxiliary
    initial-value solutions grow like exp(G) below the output level, G = sum Re(lambda) dz with
    lambda^2 = (Kx kx^2 + Ky ky^2 + i(u kx + v ky))/Kz, so rounding in an exact identity is
    amplified by about exp(G).  Evaluated on the retained wavenumbers (all padded wavenumbers as
    soon as one requested mode count exceeds the padded size)."""
    u, v, Kx, Ky, Kz = profiles
    h = max(nx * dx, ny * dy) if halo is None else float(halo)
    nxe, nye = nx + 2 * int(h / dx), ny + 2 * int(h / dy)
    nlx, nly = modes
    if nlx > nxe or nly > nye:
        nlx, nly = nxe, nye
    kx = 2.0 * np.pi / (dx * nxe) * np.arange(0, nlx // 2 + 1)
    ky = 2.0 * np.pi / (dy * nye) * np.arange(-(nly // 2), nly // 2 + 1)
    KX, KY = np.meshgrid(kx, ky)
    dz = np.diff(z)
    G = np.zeros_like(KX)
    for i in range(min(int(lev), len(dz))):
        lam = np.sqrt((Kx[i] * KX ** 2 + Ky[i] * KY ** 2 + 1j * (u[i] * KX + v[i] * KY)) / Kz[i] + 0j)
        G += np.abs(lam.real) * dz[i]
    return float(G.max())


def tolerance(precision, G):
    return max(TOL[precision], 300.0 * EPS * float(np.exp(min(G, 700.0))))


# ------------------------------------------------------------------ inputs from parameters
def make_profiles(spec):
    """z grid and (u, v, Kx, Ky, Kz) from a JSON-serialisable description."""
    kind = spec["kind"]
    if kind == "closure":
        kw = dict(ustar=spec.get("ustar", 0.4), mol=spec.get("mol", -50.0),
                  closure=spec["closure"])
        if spec["closure"] == "OAAHOC":
            kw["tke"] = spec.get("tke", 1.0)
        z, prof = default_profiles(n=spec["n"], zm=spec["zm"], wind=tuple(spec["wind"]), **kw)
        z = np.asarray(z, dtype=float).reshape(-1)
        prof = tuple(np.asarray(p, dtype=float).reshape(-1) for p in prof)
        return z, prof
    if kind == "hand":
        nz = spec["nz"]
        s = np.linspace(0.0, 1.0, nz)
        z0, zt = spec["z0"], spec["ztop"]
        z = z0 + (zt - z0) * s ** spec.get("stretch", 1.0)
        speed = spec["U"] * np.log(1.0 + z / z0) / np.log(1.0 + zt / z0)
        ang = np.deg2rad(spec["wdir"] + spec.get("veer", 0.0) * s)
        u = speed * np.cos(ang)
        v = speed * np.sin(ang)
        K = 0.16 * z + spec.get("kmin", 0.02)
        Kx = spec["ax"] * K * (1.0 + 0.3 * s)
        Ky = spec["ay"] * K * (1.0 - 0.2 * s)
        Kz = spec["az"] * K
        return z, (u, v, Kx, Ky, Kz)
    raise ValueError(kind)


def make_source(kind, ny, nx, seed):
    rng = np.random.default_rng(seed)
    if kind == "random":
        return rng.random((ny, nx)) - 0.3
    if kind == "sparse":
        q = np.zeros((ny, nx))
        for _ in range(3):
            q[rng.integers(ny), rng.integers(nx)] += rng.uniform(0.5, 2.0)
        return q
    if kind == "smooth":
        j, i = np.meshgrid(np.arange(ny), np.arange(nx), indexing="ij")
        cy, cx = rng.uniform(0, ny), rng.uniform(0, nx)
        w = rng.uniform(1.5, 4.0)
        return np.exp(-((i - cx) ** 2 + (j - cy) ** 2) / (2 * w * w)) + 0.1
    raise ValueError(kind)


def halo_class(halo, nx, ny, dx, dy):
    """Witness class of the halo, from the parameters only."""
    h = max(nx * dx, ny * dy) if halo is None else float(halo)
    px, py = int(h / dx), int(h / dy)
    comm = (px * dx == h) and (py * dy == h)
    if halo is None:
        return "halo-none-" + ("commensurate" if comm else "nonsquare")
    if h == 0.0:
        return "halo-zero"
    return "halo-commensurate" if comm else "halo-incommensurate"


# ------------------------------------------------------------------ case kind
@S.kind("reciprocity")
def reciprocity(nx, ny, dx, dy, halo, modes, im, jm, level, prof, src, seed, bg, precision, pt_type="float", levels=None, qscale=1.0):
    from bldfm.solver import steady_state_transport_solver as solve
    z, profiles = make_profiles(prof)
    if not all(np.all(np.isfinite(p)) for p in profiles):
        return Verdict(True, "profile set not finite; skipped", nontrivial=False)
    if levels is not None:
        return reciprocity_levels(solve, z, profiles, nx, ny, dx, dy, halo, modes, im, jm, levels, src, seed, bg, precision)
    lev = level if level >= 0 else len(z) + level
    # "for any surface-flux field": also fields of very small / very large magnitude (trace-gas fluxes in SI units are
    # of order 1e-9; the identity is homogeneous in the field, every comparison below is relative)
    q0 = make_source(src, ny, nx, seed) * qscale
    domain = (nx * dx, ny * dy)
    meas = (im * dx, jm * dy)
    # "every measurement point on the grid": the same point given as Python ints / an integer array / a float array
    if pt_type != "float":
        if float(int(meas[0])) != meas[0] or float(int(meas[1])) != meas[1]:
            return Verdict(True, "tower coordinates are not whole numbers; skipped", nontrivial=False)
        meas = {"int-tuple": (int(meas[0]), int(meas[1])), "int-array": np.array([int(meas[0]), int(meas[1])]),
                "float-array": np.array([meas[0], meas[1]], dtype=float), "mixed": (int(meas[0]), float(meas[1]))}[pt_type]
    kw = dict(modes=tuple(modes), halo=halo, precision=precision)
    _, cfp, ffp = solve(q0, z, profiles, domain, lev, meas_pt=meas, srf_bg_conc=0.0,
                        footprint=True, **kw)
    _, cfw, ffw = solve(q0, z, profiles, domain, lev, meas_pt=(0.0, 0.0), srf_bg_conc=bg,
                        footprint=False, **kw)
    hc = halo_class(halo, nx, ny, dx, dy)
    if cfp.shape != (ny, nx) or ffw.shape != (ny, nx):
        return Verdict(False, "shapes fp %s fwd %s, expected %s" % (cfp.shape, ffw.shape, (ny, nx)),
                       key="shape-" + hc)
    G = growth(z, profiles, lev, nx, ny, dx, dy, halo, modes)
    tol = tolerance(precision, G)
    lhs_f = float(np.sum(q0 * ffp))
    rhs_f = float(ffw[jm, im])
    sc_f = float(np.max(np.abs(ffw)))
    lhs_c = float(np.sum(q0 * cfp))
    rhs_c = float(cfw[jm, im]) - bg
    # scale of the concentration comparison: the forward field as returned (with background)
    sc_c = max(float(np.max(np.abs(cfw - bg))), abs(bg) if precision == "single" else 0.0)
    ef = abs(lhs_f - rhs_f) / max(sc_f, 1e-300)
    ec = abs(lhs_c - rhs_c) / max(sc_c, 1e-300)
    ok = ef <= tol and ec <= tol
    detail = ("%s flux: sum(q0*fp)=%.12g field=%.12g relerr=%.2e; conc: %.12g vs %.12g "
              "relerr=%.2e; tol %.1e (G=%.1f)" % (hc, lhs_f, rhs_f, ef, lhs_c, rhs_c, ec, tol, G))
    return Verdict(ok, detail, nontrivial=(sc_f > 0 and sc_c > 0 and G <= GMAX), key=hc,
                   measured=max(ef, ec) / tol)


def reciprocity_levels(solve, z, profiles, nx, ny, dx, dy, halo, modes, im, jm, levels, src, seed, bg, precision):
    """The same identity for a request of several output levels in any order: slice k of the footprint request against
    slice k of the forward request, which is checked against single-level forward requests as well."""
    q0 = make_source(src, ny, nx, seed)
    domain = (nx * dx, ny * dy)
    meas = (im * dx, jm * dy)
    lv = [l if l >= 0 else len(z) + l for l in levels]
    kw = dict(modes=tuple(modes), halo=halo, precision=precision)
    _, cfp, ffp = solve(q0, z, profiles, domain, lv, meas_pt=meas, srf_bg_conc=0.0, footprint=True, **kw)
    hc = halo_class(halo, nx, ny, dx, dy)
    worst, det = 0.0, ""
    for k, l in enumerate(lv):
        _, cfw, ffw = solve(q0, z, profiles, domain, l, meas_pt=(0.0, 0.0), srf_bg_conc=bg, footprint=False, **kw)
        tol = tolerance(precision, growth(z, profiles, l, nx, ny, dx, dy, halo, modes))
        ef = abs(float(np.sum(q0 * ffp[k])) - float(ffw[jm, im])) / max(float(np.max(np.abs(ffw))), 1e-300)
        ec = abs(float(np.sum(q0 * cfp[k])) - (float(cfw[jm, im]) - bg)) / max(float(np.max(np.abs(cfw - bg))), abs(bg) if precision == "single" else 0.0, 1e-300)
        if max(ef, ec) / tol > worst:
            worst, det = max(ef, ec) / tol, "slice %d (level %d of request %s): flux relerr %.2e conc relerr %.2e tol %.1e" % (k, l, lv, ef, ec, tol)
    return Verdict(worst <= 1.0, "%s %s" % (hc, det), key="levels-" + hc, measured=worst)


@S.kind("point-measurement")
def point_measurement_layouts(ny, nx, layout_f, layout_g, seed):
    """utils.point_measurement(f, g) = sum over the grid of f*g, whatever the memory layout of the two fields (C order,
    Fortran order, a transposed view of data read as (x, y), a strided slice): cells are paired by INDEX."""
    import math
    from bldfm.utils import point_measurement
    rng = np.random.default_rng(seed)

    def lay(a, how):
        if how == "F":
            return np.asfortranarray(a)
        if how == "T":                       # same values, stored as (x, y) and handed over as a .T view
            return np.ascontiguousarray(a.T).T
        if how == "strided":
            big = np.zeros((2 * a.shape[0], 2 * a.shape[1]))
            big[::2, ::2] = a
            return big[::2, ::2]
        return np.ascontiguousarray(a)
    f0, g0 = rng.standard_normal((ny, nx)), rng.random((ny, nx))
    f, g = lay(f0, layout_f), lay(g0, layout_g)
    got = float(point_measurement(f, g))
    want = math.fsum(float(f0[j, i]) * float(g0[j, i]) for j in range(ny) for i in range(nx))
    scale = math.fsum(abs(float(f0[j, i]) * float(g0[j, i])) for j in range(ny) for i in range(nx))
    ok = abs(got - want) <= 1e-12 * scale
    return Verdict(ok, "layouts %s x %s, %dx%d: point_measurement=%.15g, sum f*g=%.15g" % (layout_f, layout_g, ny, nx, got, want),
                   key="point-measurement-pairs-cells-by-memory-order")


# ------------------------------------------------------------------ bounded family
SPACINGS = [  # (dx, dy, commensurate halo, incommensurate halo); all exactly representable
    (10.0, 7.5, 30.0, 20.0),
    (5.0, 7.5, 15.0, 17.0),
    (8.0, 4.0, 16.0, 10.0),
    (12.5, 6.25, 25.0, 30.0),
    (10.0, 10.0, 20.0, 25.0),
    (6.0, 9.0, 18.0, 13.0),
    # increments that are NOT exactly representable (1000 m / 48 cells, 80 m / 30 cells): (i*dx)/dx need not be i
    (1000.0 / 48, 80.0 / 30, 3 * (1000.0 / 48), 30.0),
    # half-metre multiples with odd pad counts: px*dx is fractional for whole-metre towers (integer-typed tower coordinates)
    (2.5, 0.5, 7.5, 8.25),
    (0.5, 1.5, 4.5, 5.25),
]
CLOSURES = [
    dict(kind="closure", closure="MOST", n=6, zm=4.0, wind=[3.0, 1.0], ustar=0.4, mol=-50.0),
    dict(kind="closure", closure="MOST", n=8, zm=5.0, wind=[-2.0, 2.5], ustar=0.3, mol=80.0),
    dict(kind="closure", closure="MOSTM", n=6, zm=4.0, wind=[2.0, -3.0], ustar=0.4, mol=-30.0),
    dict(kind="closure", closure="CONSTANT", n=5, zm=4.0, wind=[3.0, 1.0], ustar=0.4, mol=-50.0),
    dict(kind="closure", closure="OAAHOC", n=6, zm=4.0, wind=[1.5, 3.0], ustar=0.4, tke=1.0),
    dict(kind="hand", nz=8, z0=0.1, ztop=9.0, stretch=1.5, U=4.0, wdir=30.0, veer=25.0,
         ax=1.6, ay=0.7, az=1.0),
    dict(kind="hand", nz=11, z0=0.05, ztop=7.0, stretch=2.0, U=3.0, wdir=200.0, veer=-40.0,
         ax=0.6, ay=1.8, az=1.2),
    dict(kind="hand", nz=6, z0=0.3, ztop=12.0, stretch=1.0, U=5.0, wdir=115.0, veer=10.0,
         ax=1.0, ay=1.0, az=0.5),
]


def _nz(prof):
    z, _ = make_profiles(prof)
    return len(z)


def generate(tier, rng):
    n_random = 400 if tier == "quick" else 12000
    nzs = [None] * len(CLOSURES)

    def nz_of(k):
        if nzs[k] is None:
            nzs[k] = _nz(CLOSURES[k])
        return nzs[k]

    def case(nx, ny, sp, hk, mk, pk, src, precision, lev=None, pt=None, **extra):
        dx, dy, hc, hi = SPACINGS[sp]
        halo = {"none": None, "zero": 0.0, "comm": hc, "incomm": hi}[hk]
        h = max(nx * dx, ny * dy) if halo is None else halo
        nxe, nye = nx + 2 * int(h / dx), ny + 2 * int(h / dy)
        odd = (nx % 2) or (ny % 2)
        if odd and (nx % 2) != (ny % 2) and mk == "trunc":
            # one odd axis (clamped) and one even axis that is really truncated
            modes = [512 if nx % 2 else max(2, 2 * rng.randint(1, nxe // 2 - 1)), 512 if ny % 2 else max(2, 2 * rng.randint(1, nye // 2 - 1))]
        elif odd or mk == "above":
            modes = [512, 512]          # more than any padded grid here: clamped
        elif mk == "at":
            modes = [nxe, nye]
        else:                           # truncated, even gap guaranteed (nxe, nye even)
            modes = [max(2, 2 * rng.randint(1, nxe // 2)), max(2, 2 * rng.randint(1, nye // 2))]
        nz = nz_of(pk)
        level = lev if lev is not None else rng.choice([1, nz // 2, nz - 1, rng.randint(1, nz - 1)])
        im, jm = pt if pt is not None else (rng.randint(0, nx - 1), rng.randint(0, ny - 1))
        d = dict(
            nx=nx, ny=ny, dx=dx, dy=dy, halo=halo, modes=modes, im=im, jm=jm, level=level,
            prof=CLOSURES[pk], src=src, seed=rng.randint(0, 2 ** 31 - 1),
            bg=rng.choice([0.0, 0.7, 3.0]), precision=precision)
        d.update(extra)
        return "reciprocity", d

    # systematic core: every halo kind x mode kind x precision on the design witness grid,
    # and every profile set with every halo kind
    for hk in ("none", "zero", "comm", "incomm"):
        for mk in ("trunc", "at", "above"):
            for precision in ("double", "single"):
                yield case(16, 12, 0, hk, mk, 0, "random", precision)
        for pk in range(len(CLOSURES)):
            yield case(12, 10, pk % (len(SPACINGS) - 3), hk, "trunc", pk, "sparse", "double")
    # corners and edges of the grid as towers
    for pt in ((0, 0), (15, 0), (0, 11), (15, 11), (8, 6)):
        for hk in ("zero", "incomm", "none"):
            yield case(16, 12, 0, hk, "trunc", 5, "smooth", "double", pt=pt)
    # halo=None on a domain whose larger side is a whole number of both spacings (12x10 vs 16x7.5)
    yield case(12, 16, 0, "none", "trunc", 6, "random", "double")
    yield case(12, 16, 0, "none", "at", 0, "random", "single")
    # odd grid sizes (modes clamped to the odd padded size)
    for nx, ny in ((9, 7), (7, 10), (12, 9)):
        for hk in ("zero", "none", "incomm", "comm"):
            yield case(nx, ny, 0, hk, "above", 5, "random", "double")
            if nx % 2 != ny % 2:
                yield case(nx, ny, 0, hk, "trunc", 3, "random", "double")
    for k, (lf, lg) in enumerate([(a, b) for a in ("C", "F", "T", "strided") for b in ("C", "F", "T", "strided")]):
        yield "point-measurement", dict(ny=(5, 8, 12)[k % 3], nx=(7, 8, 9)[(k // 3) % 3], layout_f=lf, layout_g=lg, seed=rng.randint(0, 2 ** 31 - 1))
    # every column (and a walk through the rows) of a grid with non-representable increments as tower
    for im in range(48):
        yield case(48, 30, 6, ("zero", "incomm", "none")[im % 3], "trunc", (0, 5)[im % 2], "sparse", "double", pt=(im, (7 * im) % 30))
    # the tower given as Python ints, an integer array, a float array, a mixed tuple: whole-metre towers on grids whose
    # pad offset px*dx / py*dy is fractional (2.5 m cells, odd pad counts) or whole
    k = 0
    for sp, pts in ((7, ((2, 4), (6, 8), (10, 2))), (8, ((4, 2), (8, 4)))):
        for hk in ("incomm", "comm", "none", "zero"):
            for pt_type in ("int-tuple", "int-array", "float-array", "mixed"):
                pt = pts[k % len(pts)]
                k += 1
                yield case(16, 12, sp, hk, ("trunc", "at")[k % 2], (0, 3, 5)[k % 3], "random", ("double", "single")[k % 5 == 0], pt=pt, pt_type=pt_type)
    # fields of very small and very large magnitude
    for k, qs in enumerate((1e-9, 3e-12, 1e-20, 1e8, 1e-9, 1e-7)):
        yield case(12, 10, k % 3, ("incomm", "none", "zero")[k % 3], ("trunc", "at")[k % 2], (0, 3, 5)[k % 3], ("random", "sparse", "smooth")[k % 3],
                   ("double", "single")[k == 4], qscale=qs, bg=0.0)      # (a background would absorb a 1e-20 signal in floating point)
    # several output levels in one request, in any order
    for k, lv in enumerate(([3, 1, 2], [4, 0, 2], [1, 3], [2, 2, 1], [-1, 1], [2, 4, 1, 3])):
        yield case(12, 10, k % 3, ("incomm", "none", "comm", "zero")[k % 4], "trunc", (0, 2, 5)[k % 3], "sparse", "double", levels=lv)
    # random part of the family
    for _ in range(n_random):
        nx = rng.choice([6, 8, 10, 12, 14, 16, 20, 24])
        ny = rng.choice([6, 8, 10, 12, 16, 20])
        yield case(nx, ny, rng.randrange(len(SPACINGS) - 3),
                   rng.choice(["none", "zero", "comm", "incomm"]),
                   rng.choice(["trunc", "trunc", "at", "above"]),
                   rng.randrange(len(CLOSURES)),
                   rng.choice(["random", "sparse", "smooth"]),
                   rng.choice(["double", "double", "single"]))


if __name__ == "__main__":
    S.main(generate)
