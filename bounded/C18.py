"""C18 - NetCDF export/import is lossless and keeps every label attached to its data.

Bounded conformance run for the trusted part (netCDF4 write, zlib, xarray decoding) and native
replay of the proved placement/label obligations: synthetic result sets in the format
run_bldfm_multitower returns, for towers 1..4 x steps 1..4 x 2-D/3-D, with negatives, signed
zeros, denormals, +-1e300, string and integer timestamps, friction-velocity and
roughness-length forcing; plus a few solver-produced result sets.

Oracle = the statement: bit-identical footprint / concentration for every (time, tower[, level]),
identical x, y (and z for 3-D) coordinates, timestamps (as labels: str(timestamp)), tower names
each with its own lat / lon / height, per-step met values (z0 included for roughness-length
forcings), and .sel(tower=name, time=label) returning exactly that tower's and step's field.
A friction velocity that was never given may be absent or NaN in the file (either is accepted);
z0 may be exported per step, as a scalar variable, or as a global attribute (all accepted).
"""
import os
import sys

sys.path.insert(0, os.path.dirname(__file__))
from _common import Suite, Verdict  # noqa: E402

S = Suite(
    "C18",
    what="save_footprints_to_netcdf -> load_footprints_from_netcdf on synthetic and "
         "solver-produced multi-tower, multi-step result sets",
    bound="towers 1..4 x steps 1..4 x {2-D, 3-D (2..4 levels)} x grids 3..9 cells per axis "
          "(nx != ny) x {ascending, descending, rotated output heights (3-D)} x {float64, float32, mixed (first result float32, later ones float64) fields} x {str, int, absent, repeated (non-distinct) timestamps} x wind directions in [-90, 450) incl. 360, negative, -0.0 x {ustar, z0, both}; "
          "values: normal*10^k, negatives, +-0.0, denormals, +-1e300, float max/min; NaN/inf "
          "fields, duplicate timestamps and result orders other than config.towers not examined",
    rule="bit equality (uint64 view of float64) of every slice; exact equality of coordinates, "
         "labels and met values",
)

_COUNTER = [0]

NAMES = ["tower_A", "B", "north mast-2", "t4"]
SPECIALS = [0.0, -0.0, 5e-324, -5e-324, 1e-310, -2.5e-308, 1e300, -1e300,
            1.7976931348623157e308, -1.7976931348623157e308, 2.2250738585072014e-308,
            1.0, -1.0, 1.0 / 3.0]


def _bits_equal(a, b):
    import numpy as np
    a = np.ascontiguousarray(np.asarray(a, dtype=np.float64))
    b = np.ascontiguousarray(np.asarray(b, dtype=np.float64))
    return a.shape == b.shape and bool(np.array_equal(a.view(np.uint64), b.view(np.uint64)))


def _field(rs, shape, dtype):
    import numpy as np
    if dtype == "float32":
        f = (rs.standard_normal(shape) * 10.0 ** rs.randint(-20, 20)).astype(np.float32)
        flat = f.reshape(-1)
        sp = np.array([0.0, -0.0, 1e-45, -1e-45, 3e38, -3e38, 1.0], dtype=np.float32)
    else:
        f = rs.standard_normal(shape) * 10.0 ** rs.randint(-200, 200)
        flat = f.reshape(-1)
        sp = np.array(SPECIALS)
    k = min(len(flat), len(sp))
    pos = rs.permutation(len(flat))[:k]
    flat[pos] = sp[rs.permutation(len(sp))[:k]]
    return f


def _config(n_towers, n_time, nx, ny, forcing, tstype, rs):
    from bldfm.config_parser import parse_config_dict
    towers = [{"name": NAMES[k],
               "lat": 50.0 + 0.001 * (k + 1) + float(rs.uniform(0, 1e-4)),
               "lon": 11.0 - 0.002 * (k + 1) + float(rs.uniform(0, 1e-4)),
               "z_m": 2.0 + 1.5 * k + float(rs.uniform(0, 0.1))} for k in range(n_towers)]
    met = {"mol": [float(x) for x in rs.uniform(-500, 500, n_time)],
           "wind_speed": [float(x) for x in rs.uniform(1, 9, n_time)],
           # directions as they are logged: also north as 360, negative and unwrapped values, negative zero
           "wind_dir": [float(x) for x in rs.uniform(-90, 450, n_time)]}
    for k_, special in enumerate((360.0, -15.0, 372.5, -0.0)):
        if rs.uniform() < 0.35 and n_time > 0:
            met["wind_dir"][(k_ * 7) % n_time] = special
    if forcing in ("ustar", "both"):
        met["ustar"] = [float(x) for x in rs.uniform(0.1, 0.9, n_time)]
    # values as they are typed in a YAML file: whole numbers come out as Python ints, also as the FIRST entry of a series
    # whose later entries are fractional (`wind_speed: [5, 5.5, 6.25]`)
    if rs.uniform() < 0.4 and n_time > 0:
        for key in ("mol", "wind_speed", "wind_dir"):
            met[key][0] = int(round(met[key][0])) or 1
            if n_time > 2:
                met[key][n_time // 2] = int(round(met[key][n_time // 2])) or 2
    if forcing in ("z0", "both"):
        met["z0"] = float(rs.uniform(0.01, 0.5))
    if tstype == "str":
        met["timestamps"] = ["2024-06-%02dT%02d:30" % (i + 1, 3 * i) for i in range(n_time)]
    elif tstype == "int":
        met["timestamps"] = [10 + 3 * i for i in range(n_time)]
    elif tstype == "dup":
        # labels need not be distinct (date-only labels, local times across a clock change): steps are told apart by
        # their position on the time axis
        met["timestamps"] = ["2024-10-27T02:%02d" % (30 * ((i // 2) % 2)) for i in range(n_time)]
    cfg = parse_config_dict({
        "domain": {"nx": nx, "ny": ny, "xmax": 37.0 * nx / 3.0, "ymax": 11.0 * ny / 7.0, "nz": 4,
                   "ref_lat": 50.0, "ref_lon": 11.0},
        "towers": towers, "met": met, "solver": {"footprint": True}})
    return cfg, met


def _params(met, t, tstype):
    """The per-step dict in the format MetConfig.get_step documents."""
    p = {"ustar": met["ustar"][t] if "ustar" in met else None,
         "mol": met["mol"][t], "wind_speed": met["wind_speed"][t], "wind_dir": met["wind_dir"][t]}
    if "z0" in met:
        p["z0"] = met["z0"]
    p["timestamp"] = met["timestamps"][t] if "timestamps" in met else t
    return p


def _check(results, cfg, tag):
    """save -> load -> compare everything the statement names.  Returns Verdict."""
    import numpy as np
    from bldfm.io import save_footprints_to_netcdf, load_footprints_from_netcdf
    _COUNTER[0] += 1
    path = os.path.join(os.getcwd(), "c18_%d_%d.nc" % (os.getpid(), _COUNTER[0]))
    names = list(results.keys())
    first = results[names[0]][0]
    is3d = np.ndim(first["flx"]) == 3
    ds = None
    try:
        save_footprints_to_netcdf(results, cfg, path)
        ds = load_footprints_from_netcdf(path)
        n_time = len(results[names[0]])
        # ---- labels
        if [str(v) for v in ds["tower"].values] != names:
            return Verdict(False, "%s tower labels %r != %r" % (tag, list(ds["tower"].values), names),
                           key="tower-labels")
        labels = list(ds["time"].values)
        want = [r["timestamp"] for r in results[names[0]]]
        if len(labels) != n_time or any(str(a) != str(b) for a, b in zip(labels, want)):
            return Verdict(False, "%s time labels %r != %r" % (tag, labels, want), key="time-labels")
        # ---- coordinates
        X, Y, Z = first["grid"]
        x = X[0, 0, :] if is3d else X[0, :]
        y = Y[0, :, 0] if is3d else Y[:, 0]
        if not _bits_equal(ds["x"].values, x):
            return Verdict(False, "%s x coordinate differs: %r vs %r" % (tag, ds["x"].values, x),
                           key="x-coordinate")
        if not _bits_equal(ds["y"].values, y):
            return Verdict(False, "%s y coordinate differs: %r vs %r" % (tag, ds["y"].values, y),
                           key="y-coordinate")
        if is3d:
            if "z" not in ds.coords or not _bits_equal(ds["z"].values, Z[:, 0, 0]):
                return Verdict(False, "%s z coordinate differs" % tag, key="z-coordinate")
        # ---- fields, positional and by label
        for var, keyname in (("footprint", "flx"), ("concentration", "conc")):
            arr = ds[var].values
            for ti, name in enumerate(names):
                for t in range(n_time):
                    orig = results[name][t][keyname]
                    if not _bits_equal(arr[t, ti], orig):
                        a = np.asarray(arr[t, ti], dtype=float)
                        o = np.asarray(orig, dtype=float)
                        nbad = int(np.sum(a.view(np.uint64) != o.view(np.uint64))) \
                            if a.shape == o.shape else -1
                        return Verdict(False, "%s %s[time=%d,tower=%d] not bit-identical "
                                       "(%d cells differ; shape %r vs %r)"
                                       % (tag, var, t, ti, nbad, a.shape, o.shape),
                                       key="%s-not-bit-identical" % var)
                    if [str(x) for x in labels].count(str(labels[t])) > 1:
                        continue          # a repeated label does not select one step; position decides (checked above)
                    sel = ds[var].sel(tower=name, time=labels[t])
                    want_dims = ("z", "y", "x") if is3d else ("y", "x")
                    if tuple(sel.dims) != want_dims or not _bits_equal(sel.values, orig):
                        return Verdict(False, "%s %s.sel(tower=%r,time=%r) is not that field "
                                       "(dims %r)" % (tag, var, name, labels[t], sel.dims),
                                       key="%s-select-by-label" % var)
                    if is3d:
                        for k in range(orig.shape[0]):
                            lev = ds[var].sel(tower=name, time=labels[t]).isel(z=k)
                            if not _bits_equal(lev.values, orig[k]):
                                return Verdict(False, "%s %s level %d differs" % (tag, var, k),
                                               key="%s-level" % var)
        # ---- tower metadata, by name
        for tw in cfg.towers:
            sub = ds.sel(tower=tw.name)
            got = (float(sub["tower_lat"].values), float(sub["tower_lon"].values),
                   float(sub["tower_z"].values))
            if got != (float(tw.lat), float(tw.lon), float(tw.z_m)):
                return Verdict(False, "%s tower %r carries lat/lon/z %r, configured %r"
                               % (tag, tw.name, got, (tw.lat, tw.lon, tw.z_m)),
                               key="tower-metadata")
        # ---- per-step met values
        for t in range(n_time):
            p = results[names[0]][t]["params"]
            for var in ("mol", "wind_speed", "wind_dir", "ustar"):
                val = p.get(var)
                if val is None:
                    # never given: absent or NaN are both fine, a number is not
                    if var in ds and np.isfinite(ds[var].values[t]):
                        return Verdict(False, "%s %s was not given at step %d but the file holds %r"
                                       % (tag, var, t, ds[var].values[t]), key="%s-invented" % var)
                    continue
                dup = [str(x) for x in labels].count(str(labels[t])) > 1
                got = None if var not in ds else (float(ds[var].values[t]) if dup else float(ds[var].sel(time=labels[t]).values))
                # bit-for-bit: -0.0 and 360.0 are values like any other
                if got is None or np.float64(got).tobytes() != np.float64(val).tobytes() or float(ds[var].values[t]) != float(val):
                    return Verdict(False, "%s %s[time=%r] = %r, given %r"
                                   % (tag, var, labels[t],
                                      ds[var].values[t] if var in ds else "<absent>", val),
                                   key="%s-value" % var)
            if p.get("z0") is not None:
                z0 = float(p["z0"])
                if "z0" in ds:
                    v = np.asarray(ds["z0"].values, dtype=float)
                    okz = bool(np.all(v == z0)) if v.ndim == 0 else \
                        (v.shape == (n_time,) and float(v[t]) == z0)
                elif "z0" in ds.attrs:
                    okz = float(ds.attrs["z0"]) == z0
                else:
                    return Verdict(False, "%s forcing by roughness length z0=%r at step %d, but the "
                                   "file has no z0 (data_vars=%r; ustar=%r)"
                                   % (tag, z0, t, sorted(ds.data_vars),
                                      ds["ustar"].values.tolist() if "ustar" in ds else None),
                                   key="z0-not-exported")
                if not okz:
                    return Verdict(False, "%s z0 in the file %r != %r" % (tag, ds["z0"].values, z0),
                                   key="z0-value")
        return Verdict(True, "%s ok: %d towers x %d steps, %s" % (tag, len(names), n_time,
                                                                  "3-D" if is3d else "2-D"))
    finally:
        if ds is not None:
            ds.close()
        if os.path.exists(path):
            os.remove(path)


@S.kind("synthetic")
def synthetic(n_towers, n_time, dim, nx, ny, nz_out, dtype, tstype, forcing, seed, zorder="asc"):
    import numpy as np
    rs = np.random.RandomState(seed)
    cfg, met = _config(n_towers, n_time, nx, ny, forcing, tstype, rs)
    x = np.linspace(0, cfg.domain.xmax, nx, endpoint=False)
    y = np.linspace(0, cfg.domain.ymax, ny, endpoint=False)
    results = {}
    zl = np.cumsum(rs.uniform(0.1, 2.0, nz_out))      # output heights, common to all results
    if zorder == "desc":                               # levels as requested by the user: any order (C10)
        zl = zl[::-1].copy()
    elif zorder == "perm" and nz_out >= 3:
        zl = np.roll(zl, 1)
    for ti, tw in enumerate(cfg.towers):
        lst = []
        for t in range(n_time):
            if dim == 3:
                Z, Y, X = np.meshgrid(zl, y, x, indexing="ij")
                shape = (nz_out, ny, nx)
            else:
                Z, Y, X = np.meshgrid(np.array([tw.z_m]), y, x, indexing="ij")
                Z, Y, X = np.squeeze(Z, 0), np.squeeze(Y, 0), np.squeeze(X, 0)
                shape = (ny, nx)
            p = _params(met, t, tstype)
            # "mixed": the first result in single precision, later ones in double (a tower on the reference point of a
            # dispersion run keeps float32 fields, the others are promoted by the complex128 shift factor)
            dt = dtype if dtype != "mixed" else ("float32" if (ti == 0 and t == 0) else "float64")
            lst.append({"grid": (X, Y, Z), "conc": _field(rs, shape, dt),
                        "flx": _field(rs, shape, dt), "tower_name": tw.name,
                        "tower_xy": (tw.x, tw.y), "timestamp": p["timestamp"], "params": p})
        results[tw.name] = lst
    return _check(results, cfg, "synthetic")


@S.kind("solver")
def solver(n_towers, n_time, dim, forcing, tstype, seed):
    """Result sets produced by run_bldfm_multitower itself (small grids)."""
    import numpy as np
    from bldfm.config_parser import parse_config_dict
    from bldfm.interface import run_bldfm_multitower
    rs = np.random.RandomState(seed)
    nx, ny = 12, 10
    towers = [{"name": NAMES[k], "lat": 50.0 + 0.0002 * (k + 1), "lon": 11.0 + 0.0003 * (k + 1),
               "z_m": 4.0} for k in range(n_towers)]
    # ustar and wind_speed are lists so that every reading of "number of steps" agrees
    met = {"wind_speed": [float(v) for v in rs.uniform(2, 6, n_time)],
           "wind_dir": [float(v) for v in rs.uniform(0, 360, n_time)],
           "mol": [float(v) for v in rs.choice([-80.0, 150.0, 1e9], n_time)]}
    if forcing == "z0":
        met["z0"] = 0.05
    else:
        met["ustar"] = [float(v) for v in rs.uniform(0.3, 0.5, n_time)]
    if tstype == "str":
        met["timestamps"] = ["step-%d" % i for i in range(n_time)]
    dom = {"nx": nx, "ny": ny, "xmax": 120.0, "ymax": 100.0, "nz": 4, "modes": [12, 10],
           "halo": 20.0, "ref_lat": 50.0, "ref_lon": 11.0}
    if dim == 3:
        dom["output_levels"] = [1, 2, 4]
    cfg = parse_config_dict({"domain": dom, "towers": towers, "met": met,
                             "solver": {"footprint": True, "precision": "double"}})
    results = run_bldfm_multitower(cfg)
    if any(len(v) != n_time for v in results.values()):
        return Verdict(True, "driver produced another number of steps; not this property",
                       nontrivial=False)
    return _check(results, cfg, "solver")


def generate(tier, rng):
    combos = [(a, b, d) for a in (1, 2, 3, 4) for b in (1, 2, 3, 4) for d in (2, 3)]
    reps = 1 if tier == "quick" else 8
    for rep in range(reps):
        for k, (nt, ns, dim) in enumerate(combos):
            nx = rng.randint(3, 9)
            ny = rng.choice([v for v in range(3, 10) if v != nx])
            if tier == "quick":
                forcing = ("ustar", "z0", "both")[(k + rep) % 3]
                tstype = ("str", "int", "none", "dup")[(k // 3 + rep) % 4]
                dtype = "float32" if k % 8 == 5 else ("mixed" if k % 8 == 2 else "float64")
            else:
                forcing = ("ustar", "z0", "both")[(k + rep) % 3]
                tstype = ("str", "int", "none")[(k // 3 + rep // 3) % 3]
                dtype = "float32" if (k + rep) % 8 == 5 else ("mixed" if (k + rep) % 8 == 2 else "float64")
            yield "synthetic", dict(n_towers=nt, n_time=ns, dim=dim, nx=nx, ny=ny,
                                    nz_out=rng.randint(2, 4), dtype=dtype, tstype=tstype,
                                    forcing=forcing, seed=rng.randrange(2 ** 31), zorder=("asc", "desc", "perm")[k % 3] if dim == 3 else "asc")
    sol = [(2, 2, 2, "z0", "str")] if tier == "quick" else \
        [(2, 2, 2, "z0", "str"), (1, 3, 3, "ustar", "none"), (3, 1, 2, "ustar", "str"),
         (2, 3, 3, "z0", "none")]
    for nt, ns, dim, forcing, tstype in sol:
        yield "solver", dict(n_towers=nt, n_time=ns, dim=dim, forcing=forcing, tstype=tstype,
                             seed=rng.randrange(2 ** 31))


if __name__ == "__main__":
    S.main(generate)
