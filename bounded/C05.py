"""C05 -- bounded stand-in: uniform profiles; analytic mode against an independent numpy
closed form, and the measured order of the numerical mode.

Oracle (property statement / DESIGN Appendix B.1 with constant coefficients), per horizontal
Fourier component (kx, ky) != 0 and height h above the surface:

    lam  = principal sqrt((Kx kx^2 + Ky ky^2 + i (u kx + v ky)) / Kz)
    q(h) = q0 exp(-lam h),    p(h) = q(h) / (Kz lam);      mean mode: q = q0, p = bg - q0 h / Kz

assembled by the rules the statement names: the source is zero-padded by int(halo/dx),
int(halo/dy) cells, only |m| < modes/2 is retained, a non-zero meas_pt translates the
dispersion field so that meas_pt comes to the domain centre, the footprint for a tower at m is
the reflected Green's function G(m - r) (reciprocity), and the result is cropped by the pad.

Observation: public API, precision='double'.  With halo=0 the whole periodic domain is returned
and every retained component is compared bin by bin (numpy.fft of the output); the bins
|m| = modes/2 on an axis that keeps ALL its modes (the Nyquist bin, its own conjugate partner, whose real-part
convention the statement does not fix) are not compared; on a TRUNCATED axis the retained harmonic -modes/2 has no partner
and is compared with half the closed form of its own wavenumber (the output is the real part of the series).  With halo>0 the padded size is odd and all modes are retained, so the
field itself is unambiguous and is compared after the crop.
"""
import os
import sys
import warnings

sys.path.insert(0, os.path.dirname(os.path.abspath(__file__)))
from _common import Suite, Verdict  # noqa: E402

import numpy as np  # noqa: E402

warnings.filterwarnings("ignore")

S = Suite(
    "C05",
    what="analytic=True against an independent numpy closed form (bin by bin on halo=0 runs, "
         "field by field on odd fully-retained halo runs); numerical mode against the closed "
         "form / against analytic=True at n, 2n, 4n layers",
    bound="constant (u,v,Kx,Ky,Kz) from a fixed list and seeded random draws (and the CONSTANT "
          "closure of vertical_profiles), grids 5..16 x 5..12 cells with dx != dy, odd and even "
          "sizes, modes full / truncated / clamped, halo 0 / commensurate / incommensurate / "
          "None, dispersion and footprint, meas_pt on and off grid, scalar and list levels, "
          "random / sparse / smooth sources; order study on uniform, geometric and gently stretched (2 % over the column) grids, "
          "n in {8,16,32} x {1,2,4}, components with |T|dz^2/Kz <= 0.1 on the coarsest grid",
    rule="closed form: |bin - oracle| <= 1e-9 * max|oracle|, removed bins <= 1e-12 * max; "
         "order: both error ratios (n:2n, 2n:4n) >= 6.5 (at least third order)",
)

TOL = 1e-9
RATIO_LO, RATIO_HI = 6.5, 40.0  # at least third order; a step that expands the propagator further is not a violation
RES_ORDER = 0.1


class SolverCrash(Exception):
    pass


def _quiet_exit():
    try:
        import atexit
        from bldfm import fft_manager
        m = fft_manager._fft_manager
        if m is not None:
            atexit.unregister(m._cleanup)
    except Exception:
        pass


def _solve(q0, z, prof, domain, levels, **kw):
    from bldfm.solver import steady_state_transport_solver
    lv = int(levels) if np.ndim(levels) == 0 else [int(l) for l in levels]
    # (integer-typed profile arrays -- hand-built uniform profiles `np.full(nz, 2)` -- keep their type)
    prof = tuple(np.ascontiguousarray(a) if np.asarray(a).dtype.kind in "iu" else np.ascontiguousarray(a, dtype=float) for a in prof)
    try:
        _, conc, flx = steady_state_transport_solver(
            q0, np.ascontiguousarray(z, dtype=float), prof, domain, lv,
            precision="double", **kw)
    except Exception as e:  # crash of the real code on an admitted input
        raise SolverCrash("%s: %s" % (type(e).__name__, e))
    finally:
        _quiet_exit()
    nl = 1 if np.ndim(levels) == 0 else len(levels)
    ny, nx = q0.shape
    conc, flx = np.asarray(conc), np.asarray(flx)
    if conc.size != nl * ny * nx or flx.size != nl * ny * nx:
        raise SolverCrash("output shape %s for source %s, %d level(s)"
                          % (conc.shape, q0.shape, nl))
    return conc.reshape(nl, ny, nx), flx.reshape(nl, ny, nx)


def _crash_key(analytic, levels):
    if analytic and np.ndim(levels) != 0 and len(levels) > 1:
        return "analytic-multilevel-crash"
    return "solver-crash"


# ------------------------------------------------------------------ inputs
def make_source(kind, ny, nx, seed):
    rng = np.random.default_rng(seed)
    if kind == "random":
        return rng.standard_normal((ny, nx)) + 0.3
    if kind == "sparse":
        q = np.zeros((ny, nx))
        for _ in range(3):
            q[rng.integers(ny), rng.integers(nx)] = rng.uniform(-1.0, 2.0)
        return q
    if kind == "smooth":
        y, x = np.mgrid[0:ny, 0:nx]
        cx, cy = rng.uniform(0, nx), rng.uniform(0, ny)
        return 0.2 + np.exp(-((x - cx) ** 2 / (0.1 * nx ** 2 + 1) + (y - cy) ** 2 / (0.1 * ny ** 2 + 1)))
    raise ValueError(kind)


def make_grid(kind, z0, zt, n):
    xi = np.arange(n + 1) / float(n)
    if kind == "uniform":
        return z0 + (zt - z0) * xi
    if kind == "geometric":
        return z0 * (zt / z0) ** xi
    if kind == "gentle":
        # slowly varying layer thickness: the top layer is 2 % thicker than the bottom one, at every n
        w = 1.0 + 0.02 * (np.arange(n) + 0.5) / float(n)
        return z0 + (zt - z0) * np.concatenate(([0.0], np.cumsum(w))) / np.sum(w)
    if kind.startswith("almost-uniform"):
        # layer thicknesses that agree to a relative 8e-6 / 5e-4 but are not equal (a grid read from a file, a stretched grid
        # with a huge stretching scale): "the layers are the same" up to any tolerance is not "the same"
        eps = 8e-6 if kind.endswith("6") else 5e-4
        w = 1.0 + eps * (np.arange(n) + 0.5) / float(n)
        return z0 + (zt - z0) * np.concatenate(([0.0], np.cumsum(w))) / np.sum(w)
    raise ValueError(kind)


def const_setup(const, grid, closure_kw=None):
    """z nodes and constant profile arrays; either self-built or the CONSTANT closure."""
    if closure_kw is not None:
        from bldfm.pbl_model import vertical_profiles
        z, prof = vertical_profiles(closure_kw["n"], closure_kw["zm"], tuple(closure_kw["wind"]),
                                    ustar=closure_kw["ustar"], closure="CONSTANT")
        prof = tuple(np.asarray(a, dtype=float) * np.ones(len(z)) for a in prof)
        c = [float(a[0]) for a in prof]
        if any(np.ptp(a) > 1e-12 * max(abs(a[0]), 1e-30) for a in prof):
            return z, prof, None
        return z, prof, c
    z = make_grid(grid["kind"], grid["z0"], grid["zt"], grid["n"])
    prof = tuple(float(c) * np.ones(len(z)) for c in const)
    return z, prof, [float(c) for c in const]


# ------------------------------------------------------------------ the oracle
def closed_form(const, KX, KY, h):
    """Hp, Hq of shape (nlev,)+KX.shape; the entry at k=0 is meaningless (nan/inf)."""
    u, v, Kx, Ky, Kz = const
    with np.errstate(all="ignore"):
        lam = np.sqrt((Kx * KX ** 2 + Ky * KY ** 2 + 1j * (u * KX + v * KY)) / Kz)
        h = np.asarray(h, dtype=float).reshape((-1,) + (1,) * np.ndim(KX))
        Hq = np.exp(-lam * h)
        Hp = Hq / (Kz * lam)
    return Hp, Hq, lam


def wavenumbers(nxe, nye, dx, dy):
    MX, MY = np.meshgrid(np.fft.fftfreq(nxe, 1.0 / nxe), np.fft.fftfreq(nye, 1.0 / nye))
    return MX, MY, 2.0 * np.pi * MX / (nxe * dx), 2.0 * np.pi * MY / (nye * dy)


def eff_modes(modes, nxe, nye):
    nlx, nly = modes
    if nlx > nxe and nly > nye:
        return nxe, nye
    if nlx > nxe or nly > nye:
        raise AssertionError("generator: one-sided mode clamp is C11's business")
    if (nxe - nlx) % 2 or (nye - nly) % 2:
        raise AssertionError("generator: odd mode gap is C11's business")
    return nlx, nly


def expected_spectrum(q0p, const, h, dx, dy, modes, meas_pt, bg, footprint, pad):
    """Expected numpy-fft2(out)/N of the full padded periodic output, plus masks.
    q0p: padded source; pad=(px,py)."""
    nye, nxe = q0p.shape
    N = nxe * nye
    MX, MY, KX, KY = wavenumbers(nxe, nye, dx, dy)
    nlx, nly = eff_modes(modes, nxe, nye)
    inner = (np.abs(MX) < nlx / 2.0) & (np.abs(MY) < nly / 2.0)
    removed = (np.abs(MX) > nlx / 2.0) | (np.abs(MY) > nly / 2.0)
    # one-sided edge bins of a TRUNCATED axis: the series retains the harmonic -nl/2 without its partner +nl/2, so that
    # component is an ordinary complex one with its own wavenumber -(nl/2) dk (on an axis that keeps all its modes the
    # bin -n/2 is its own conjugate partner and the real-part convention decides: not compared).  The returned field is
    # the real part of the synthesised series, hence fft2(out)(k) = F(k)/2 there.
    tx, ty = nlx < nxe, nly < nye
    ex = (MX == -(nlx // 2)) if tx else np.zeros_like(inner)
    ey = (MY == -(nly // 2)) if ty else np.zeros_like(inner)
    inx, iny = np.abs(MX) < nlx / 2.0, np.abs(MY) < nly / 2.0
    expected_spectrum.edge = (ex & iny) | (ey & inx) | (ex & ey)
    Hp, Hq, _ = closed_form(const, KX, KY, h)
    xm, ym = meas_pt
    px, py = pad
    if footprint:
        # fp(r) = G(m + P - r),  G(s) = (1/N) sum_k H(k) exp(i k.s)   (reciprocity)
        ph = np.exp(-1j * (KX * (xm + px * dx) + KY * (ym + py * dy))) / N
        Ep, Eq = np.conj(Hp) * ph, np.conj(Hq) * ph
        s00 = 1.0 / N
    else:
        Sh = np.fft.fft2(q0p) / N
        if xm != 0.0 or ym != 0.0:
            X, Y = (nxe - 2 * px) * dx, (nye - 2 * py) * dy
            Sh = Sh * np.exp(1j * (KX * (xm - X / 2.0) + KY * (ym - Y / 2.0)))
        Ep, Eq = Hp * Sh, Hq * Sh
        s00 = Sh[0, 0].real
    hh = np.asarray(h, dtype=float).ravel()
    Eq[:, 0, 0] = s00
    Ep[:, 0, 0] = bg - s00 * hh / const[4]
    return Ep, Eq, inner, removed


# ------------------------------------------------------------------ kinds
@S.kind("analytic_bins")
def analytic_bins(nx, ny, dx, dy, const, grid, closure_kw, levels, modes, meas_pt, bg,
                  footprint, source, seed):
    """halo=0: every unambiguous retained bin of the analytic output is the closed form."""
    z, prof, c = const_setup(const, grid, closure_kw)
    if c is None:
        return Verdict(True, "closure not constant", nontrivial=False)
    q0 = make_source(source, ny, nx, seed)
    tag = "analytic-%s%s" % ("footprint" if footprint else "dispersion",
                             "-shifted" if (meas_pt[0] or meas_pt[1]) else "")
    try:
        conc, flx = _solve(q0, z, prof, (nx * dx, ny * dy), levels, modes=tuple(modes),
                           meas_pt=tuple(meas_pt), srf_bg_conc=bg, footprint=footprint,
                           analytic=True, halo=0.0)
    except SolverCrash as e:
        return Verdict(False, "crash: %s" % e, key=_crash_key(True, levels))
    h = z[np.atleast_1d(levels)] - z[0]
    Ep, Eq, inner, removed = expected_spectrum(q0, c, h, dx, dy, modes, meas_pt, bg,
                                               footprint, (0, 0))
    N = nx * ny
    worst = 0.0
    for name, out, E in (("conc", conc, Ep), ("flux", flx, Eq)):
        O = np.fft.fft2(out, axes=(1, 2)) / N
        scale = float(np.max(np.abs(E[:, inner])))
        d_in = float(np.max(np.abs(O[:, inner] - E[:, inner]))) / scale
        d_rm = float(np.max(np.abs(O[:, removed]))) / scale if removed.any() else 0.0
        worst = max(worst, d_in)
        if not np.isfinite(d_in) or d_in > TOL:
            return Verdict(False, "%s: retained bins differ from the closed form by %.3e (rel. "
                           "to max)" % (name, d_in), key=tag + "-closed-form")
        if d_rm > 1e-12:
            return Verdict(False, "%s: removed bins carry %.3e" % (name, d_rm),
                           key=tag + "-truncation")
        edge = expected_spectrum.edge
        if edge.any():
            d_ed = float(np.max(np.abs(O[:, edge] - 0.5 * E[:, edge]))) / scale
            if not np.isfinite(d_ed) or d_ed > TOL:
                return Verdict(False, "%s: the one-sided edge harmonic (-modes/2) of a truncated axis differs from half the closed form of "
                               "its own wavenumber by %.3e (rel. to max)" % (name, d_ed), key=tag + "-closed-form")
    return Verdict(True, "%s bins=%d worst=%.2e" % (tag, int(inner.sum()), worst),
                   nontrivial=int(inner.sum()) >= 4)


@S.kind("analytic_halo")
def analytic_halo(nx, ny, dx, dy, const, grid, levels, halo, meas_pt, bg, footprint, source,
                  seed):
    """halo>0 (or None) with odd padded size and all modes retained: cropped field against
    the closed form evaluated on the padded periodic domain."""
    z, prof, c = const_setup(const, grid)
    q0 = make_source(source, ny, nx, seed)
    X, Y = nx * dx, ny * dy
    hh = max(X, Y) if halo is None else halo
    px, py = int(hh / (X / nx)), int(hh / (Y / ny))
    nxe, nye = nx + 2 * px, ny + 2 * py
    if nxe % 2 == 0 or nye % 2 == 0:
        raise AssertionError("generator: padded size must be odd here")
    comm = abs(px * dx - hh) < 1e-9 and abs(py * dy - hh) < 1e-9
    tag = "analytic-halo-%s-%s" % ("commensurate" if comm else "incommensurate",
                                   "footprint" if footprint else "dispersion")
    try:
        conc, flx = _solve(q0, z, prof, (X, Y), levels, modes=(512, 512),
                           meas_pt=tuple(meas_pt), srf_bg_conc=bg, footprint=footprint,
                           analytic=True, halo=halo)
    except SolverCrash as e:
        return Verdict(False, "crash: %s" % e, key=_crash_key(True, levels))
    q0p = np.pad(q0, ((py, py), (px, px)))
    h = z[np.atleast_1d(levels)] - z[0]
    Ep, Eq, inner, _ = expected_spectrum(q0p, c, h, dx, dy, (512, 512), meas_pt, bg, footprint,
                                         (px, py))
    if not inner.all():
        raise AssertionError("all bins must be retained")
    N = nxe * nye
    worst = 0.0
    for name, out, E in (("conc", conc, Ep), ("flux", flx, Eq)):
        full = np.fft.ifft2(E, axes=(1, 2)) * N
        if float(np.max(np.abs(full.imag))) > 1e-9 * float(np.max(np.abs(full.real))):
            raise AssertionError("oracle field is not real")
        ref = full.real[:, py:nye - py, px:nxe - px]
        # compare relative to the maximum over the padded domain (the crop may miss the peak)
        d = float(np.max(np.abs(out - ref))) / float(np.max(np.abs(full.real)))
        worst = max(worst, d)
        if not np.isfinite(d) or d > TOL:
            return Verdict(False, "%s: cropped field differs from the closed form by %.3e "
                           "(px=%d,py=%d, halo=%s, px*dx=%g, py*dy=%g)"
                           % (name, d, px, py, halo, px * dx, py * dy), key=tag)
    return Verdict(True, "%s px=%d py=%d worst=%.2e" % (tag, px, py, worst))


@S.kind("order")
def order(nx, ny, dx, dy, const, gridkind, z0, zt, n, modes, level_fracs, ref, source, seed, int_profiles=False):
    """Numerical mode at n, 2n, 4n layers; error against the closed form (per retained bin,
    ref='closed') or against analytic=True (field, one level, ref='analytic')."""
    q0 = make_source(source, ny, nx, seed)
    X, Y = nx * dx, ny * dy
    MX, MY, KX, KY = wavenumbers(nx, ny, dx, dy)
    nlx, nly = eff_modes(modes, nx, ny)
    ret = (MX >= -nlx / 2.0) & (MX < nlx / 2.0) & (MY >= -nly / 2.0) & (MY < nly / 2.0)
    inner = (np.abs(MX) < nlx / 2.0) & (np.abs(MY) < nly / 2.0)
    ret[0, 0] = inner[0, 0] = False
    zc = make_grid(gridkind, z0, zt, n)
    _, _, lam = closed_form(const, KX, KY, [0.0])
    res = np.abs(lam) ** 2 * np.max(np.diff(zc)) ** 2        # = |T| dz^2 / Kz
    grow = lam.real * (zt - z0)
    if ref == "closed":
        sel = inner & (res <= RES_ORDER) & (grow <= 18.0)
        if sel.sum() < 3:
            return Verdict(True, "fewer than 3 resolved components", nontrivial=False)
    else:
        if res[ret].max() > RES_ORDER or grow[ret].max() > 18.0:
            return Verdict(True, "retained spectrum outside the resolved regime",
                           nontrivial=False)
    errs = []
    s = np.fft.fft2(q0)
    for f in (1, 2, 4):
        z = make_grid(gridkind, z0, zt, n * f)
        prof = tuple(float(c) * np.ones(len(z)) for c in const)
        if int_profiles:        # whole-number winds and diffusivities given as integer arrays
            prof = tuple(np.full(len(z), int(c), dtype=np.int64) for c in const)
        if ref == "closed":
            lv = sorted(set(int(round(fr * n)) * f for fr in level_fracs))
        else:
            lv = int(round(level_fracs[-1] * n)) * f
        try:
            conc, flx = _solve(q0, z, prof, (X, Y), lv, modes=tuple(modes), halo=0.0)
            if ref == "analytic":
                conca, flxa = _solve(q0, z, prof, (X, Y), lv, modes=tuple(modes), halo=0.0,
                                     analytic=True)
        except SolverCrash as e:
            return Verdict(False, "crash: %s" % e, key="solver-crash")
        if ref == "closed":
            h = z[lv] - z[0]
            Hp, Hq, _ = closed_form(const, KX[sel], KY[sel], h)
            hp = (np.fft.fft2(conc, axes=(1, 2)) / s)[:, sel]
            hq = (np.fft.fft2(flx, axes=(1, 2)) / s)[:, sel]
            e = max(float(np.max(np.max(np.abs(hp - Hp), axis=0) / np.max(np.abs(Hp), axis=0))),
                    float(np.max(np.max(np.abs(hq - Hq), axis=0) / np.max(np.abs(Hq), axis=0))))
        else:
            e = max(float(np.max(np.abs(conc - conca)) / np.max(np.abs(conca - conca.mean()))),
                    float(np.max(np.abs(flx - flxa)) / np.max(np.abs(flxa - flxa.mean()))))
        errs.append(e)
    if not np.all(np.isfinite(errs)):
        return Verdict(False, "non-finite error %s" % errs, key="order-nonfinite")
    r1, r2 = errs[0] / errs[1], errs[1] / errs[2]
    detail = ("grid=%s n=%d ref=%s errors=%s ratios=%.2f, %.2f (third order: 8)"
              % (gridkind, n, ref, ["%.3e" % e for e in errs], r1, r2))
    if errs[2] < 1e-11:
        return Verdict(True, detail + " [at rounding level]", nontrivial=False)
    ok = RATIO_LO <= r1 <= RATIO_HI and RATIO_LO <= r2 <= RATIO_HI
    return Verdict(ok, detail, key="order-ratio-constant-profiles",
                   measured={"ratios": [r1, r2]})


# ------------------------------------------------------------------ the bounded family
CONSTS = [
    [3.0, 1.0, 0.8, 0.8, 0.8],
    [-2.0, 2.5, 1.5, 0.4, 0.6],
    [0.5, 0.0, 0.3, 0.3, 0.3],
    [4.0, -3.0, 0.2, 0.6, 1.0],
]
SOURCES = ["random", "sparse", "smooth"]


def _rand_const(rng):
    return [round(rng.uniform(-5, 5), 3), round(rng.uniform(-5, 5), 3),
            round(rng.uniform(0.1, 2.0), 3), round(rng.uniform(0.1, 2.0), 3),
            round(rng.uniform(0.1, 2.0), 3)]


def generate(tier, rng):
    thorough = tier == "thorough"
    # ---- analytic_bins: halo = 0, bin by bin
    shapes = [(16, 12, 10.0, 7.5), (12, 8, 5.0, 8.0), (9, 7, 10.0, 6.0), (7, 9, 4.0, 4.0),
              (10, 6, 20.0, 15.0), (11, 12, 3.0, 5.0)]
    c = 0
    for rep in range(3 if thorough else 1):
        for si, (nx, ny, dx, dy) in enumerate(shapes):
            for fp in (False, True):
                for lv in (3, [0, 2, 5, 8]):
                    c += 1
                    even = nx % 2 == 0 and ny % 2 == 0
                    mopts = [[512, 512]]
                    if even:       # odd or mixed sizes: only the clamp is admissible
                        mopts += [[nx, ny], [nx - 4, ny - 2], [4, 6]]
                    modes = mopts[c % len(mopts)]
                    mp = [[0.0, 0.0], [3 * dx, 2 * dy], [2.3 * dx, 1.6 * dy]][c % 3]
                    const = CONSTS[c % 4] if rep == 0 else _rand_const(rng)
                    yield "analytic_bins", dict(
                        nx=nx, ny=ny, dx=dx, dy=dy, const=const,
                        grid=dict(kind=("uniform", "geometric")[c % 2], z0=0.2, zt=8.0, n=8),
                        closure_kw=None, levels=lv, modes=modes, meas_pt=mp,
                        bg=0.0 if fp else (0.0, 1.7, -0.4)[c % 3], footprint=fp,
                        source=SOURCES[c % 3], seed=rng.randrange(10 ** 6))
    # a fine horizontal grid under a deep column: components that have decayed to nothing at the top level are still of
    # order one at the low levels of the same request (any order of the levels)
    for k, (nx, ny, dx, dy) in enumerate(((16, 12, 0.5, 0.4), (12, 16, 0.3, 0.5), (20, 10, 0.25, 0.5))):
        for fp in (False, True):
            for lv in ([0, 8], [8, 1, 0], [2, 8]):
                yield "analytic_bins", dict(
                    nx=nx, ny=ny, dx=dx, dy=dy, const=CONSTS[(k + fp) % 4],
                    grid=dict(kind=("uniform", "geometric")[k % 2], z0=0.2, zt=12.0, n=8),
                    closure_kw=None, levels=lv, modes=[nx, ny], meas_pt=[0.0, 0.0] if not fp else [3 * dx, 2 * dy],
                    bg=0.0 if fp else 0.6, footprint=fp, source=("sparse", "random")[k % 2], seed=rng.randrange(10 ** 6))
    for i, wind in enumerate([[3.0, 1.0], [-1.5, 2.0]]):
        for lv in (4, [1, 4, 8]):
            yield "analytic_bins", dict(
                nx=12, ny=10, dx=8.0, dy=6.0, const=None, grid=None,
                closure_kw=dict(n=8, zm=5.0, wind=wind, ustar=0.35), levels=lv,
                modes=[12, 10], meas_pt=[0.0, 0.0], bg=0.5, footprint=bool(i),
                source="random", seed=rng.randrange(10 ** 6))
    # ---- analytic_halo: odd padded size, all modes retained
    halos = [(9, 7, 10.0, 7.5, 20.0), (9, 7, 10.0, 7.5, 30.0), (9, 7, 10.0, 5.0, 20.0),
             (7, 5, 10.0, 10.0, None), (9, 7, 10.0, 7.5, None), (9, 7, 10.0, 7.0, None),
             (5, 9, 6.0, 4.0, 13.0),
             (7, 7, 5.0, 5.0, 12.5)]
    c = 0
    for rep in range(2 if thorough else 1):
        for (nx, ny, dx, dy, halo) in halos:
            for fp in (False, True):
                for lv in (4, [2, 6]):
                    c += 1
                    mp = [[0.0, 0.0], [2 * dx, 3 * dy], [1.3 * dx, 2.6 * dy]][c % 3]
                    yield "analytic_halo", dict(
                        nx=nx, ny=ny, dx=dx, dy=dy,
                        const=CONSTS[c % 4] if rep == 0 else _rand_const(rng),
                        grid=dict(kind="uniform", z0=0.1, zt=6.0, n=6), levels=lv, halo=halo,
                        meas_pt=mp, bg=0.0 if fp else 0.8, footprint=fp,
                        source=SOURCES[c % 3], seed=rng.randrange(10 ** 6))
    # ---- order of the numerical mode
    c = 0
    for ci, const in enumerate(CONSTS + ([_rand_const(rng) for _ in range(6)] if thorough else [])):
        for gk in ("uniform", "geometric", "gentle", "almost-uniform-6", "almost-uniform-4"):
            for ref in ("closed", "analytic"):
                if gk.startswith("almost") and (ref == "analytic") != (ci % 2 == 0):
                    continue
                c += 1
                n = {"uniform": 16, "gentle": 16, "geometric": 32 if ref == "closed" else 64, "almost-uniform-6": 32, "almost-uniform-4": 16}[gk]
                if thorough and c % 3 == 0:
                    n *= 2
                yield "order", dict(
                    nx=8, ny=6, dx=100.0, dy=100.0, const=const, gridkind=gk, z0=0.2, zt=10.0,
                    n=n, modes=[4, 4] if ref == "analytic" else [8, 6],
                    level_fracs=[0.25, 0.5, 1.0], ref=ref, source=SOURCES[c % 3],
                    seed=rng.randrange(10 ** 6))
    # whole-number uniform profiles handed over as integer arrays
    for k, const in enumerate(([3, 1, 2, 2, 2], [-2, 2, 1, 3, 2], [4, -3, 2, 1, 3])):
        for ref in ("closed", "analytic"):
            yield "order", dict(nx=8, ny=6, dx=100.0, dy=100.0, const=const, gridkind=("uniform", "geometric", "gentle")[k], z0=0.2, zt=10.0,
                                n=(16, 32, 16)[k] if ref == "closed" else (16, 64, 16)[k], modes=[4, 4] if ref == "analytic" else [8, 6],
                                level_fracs=[0.25, 0.5, 1.0], ref=ref, source=SOURCES[k % 3], seed=rng.randrange(10 ** 6), int_profiles=True)
    # ---- seeded random members (thorough only)
    if thorough:
        dxs = [3.0, 4.0, 5.0, 7.5, 10.0, 12.5, 20.0]
        for i in range(150):
            dx = rng.choice(dxs)
            dy = rng.choice([d for d in dxs if 0.5 <= d / dx <= 2.0])
            fp = rng.random() < 0.5
            lv = sorted(rng.sample(range(9), rng.randint(2, 4))) if rng.random() < 0.5 \
                else rng.randint(0, 8)
            grid = dict(kind=rng.choice(["uniform", "geometric"]), z0=0.2,
                        zt=round(rng.uniform(4.0, 12.0), 2), n=8)
            if i % 2:
                nx, ny = rng.randint(5, 14), rng.randint(5, 14)
                mopts = [[512, 512]]
                if nx % 2 == 0 and ny % 2 == 0:
                    mopts += [[nx, ny], [nx - 2, ny - 4], [4, 2], [nx - 4, ny]]
                mp = [0.0, 0.0] if rng.random() < 0.3 else \
                    [round(rng.uniform(0, nx * dx), 2), round(rng.uniform(0, ny * dy), 2)]
                yield "analytic_bins", dict(
                    nx=nx, ny=ny, dx=dx, dy=dy, const=_rand_const(rng), grid=grid,
                    closure_kw=None, levels=lv, modes=rng.choice(mopts), meas_pt=mp,
                    bg=0.0 if fp else round(rng.uniform(-1, 3), 2), footprint=fp,
                    source=rng.choice(SOURCES), seed=rng.randrange(10 ** 6))
            else:
                nx, ny = rng.choice([5, 7, 9, 11]), rng.choice([5, 7, 9, 11])
                r = rng.random()
                halo = None if r < 0.15 else (rng.randint(1, 3) * dx if r < 0.4 else
                                              round(rng.uniform(0.2, 3.2) * dx, 2))
                mp = [0.0, 0.0] if rng.random() < 0.3 else \
                    [round(rng.uniform(0, nx * dx), 2), round(rng.uniform(0, ny * dy), 2)]
                yield "analytic_halo", dict(
                    nx=nx, ny=ny, dx=dx, dy=dy, const=_rand_const(rng), grid=grid, levels=lv,
                    halo=halo, meas_pt=mp, bg=0.0 if fp else round(rng.uniform(-1, 3), 2),
                    footprint=fp, source=rng.choice(SOURCES), seed=rng.randrange(10 ** 6))


if __name__ == "__main__":
    S.main(generate)
