"""C12 bounded stand-in: a solve is a pure function of its arguments.

Every case is a short *call history* executed in THIS process: a sequence of steps
(solve, NUM_THREADS, reset-the-FFT-manager-before?) over a fixed alphabet of six solves
(two source shapes, footprint/dispersion, single/double storage, different mode counts,
default/explicit halo, scalar/list/ndarray levels).  The process state is brought to a
known point before the first step (one thread, FFT manager dropped); the compiled-kernel
dictionary and FFTW's plan cache cannot be reset and carry over from earlier cases, which
is part of the history the property quantifies over.

Oracle (statement of C12):
  * two steps of one sequence with the same solve and the same thread setting return
    bit-identical fields (np.array_equal);
  * the LAST solve of the sequence equals the same solve executed alone in a fresh
    interpreter (one thread, empty working directory: no wisdom file, no plan cache) to
    1e-12 relative to the field maximum;
  * a single-precision solve differs from its double-precision twin (fresh interpreter)
    by at most 1e-5 of the field maximum;
  * no call stores into srf_flx, z, a profile or levels.
Fresh-interpreter references are computed once per solve and memoised (they are pure
functions of the solve name), so replaying a case spawns at most two interpreters.
"""
import itertools
import json
import os
import shutil
import subprocess
import sys
import tempfile

sys.path.insert(0, os.path.dirname(os.path.abspath(__file__)))
from _common import Suite, Verdict, default_profiles, relerr  # noqa: E402

import numpy as np  # noqa: E402

S = Suite(
    "C12",
    what="call histories (solve, thread setting, optional FFT-manager reset) compared with "
         "the same solve in a fresh interpreter; repeated steps compared bit for bit; "
         "single vs double; arguments not mutated",
    bound="alphabet of 6 solves (16x12 and 24x20 sources, footprint/dispersion, "
          "single/double, modes (16,16)/(32,24)/(24,20)); quick: all sequences of length "
          "<= 2 over threads {1,4} x reset {no,yes}; thorough: length <= 3 over {1,4} and "
          "length <= 2 over {1,2,4,8}; fresh-interpreter runs at every thread setting; 27 "
          "one-argument variants (halo, domain, wind, z, background, measurement point, level, level order, grid shape at an incommensurate halo, "
          "modes, ONE profile component u/v/Kx/Ky/Kz scaled, source values, analytic flag, footprint flag, "
          "precision) of a dispersion and a footprint solve, run before and after their base solve; two solves on the "
          "same array objects with the source / u / v array edited in place in between; the identical call twice with the same "
          "argument objects (measurement point, domain, modes as ndarrays or tuples)",
    rule="array_equal for equal (solve, threads) inside one process; 1e-12 of the field "
         "maximum against the fresh interpreter and across thread settings; 1e-5 of the "
         "field maximum single vs double",
)

TOL_ROUND = 1e-12
TOL_SINGLE = 1e-5

# --------------------------------------------------------------------------- the alphabet
_SHAPES = {
    # name: nx, ny, nz, domain, closure, wind, seed
    "A": dict(nx=16, ny=12, nz=6, domain=(160.0, 90.0), closure="MOST", wind=(3.0, 1.0),
              mol=-50.0, zm=5.0, seed=11),
    "B": dict(nx=24, ny=20, nz=8, domain=(120.0, 100.0), closure="MOSTM", wind=(-2.0, 2.5),
              mol=80.0, zm=4.0, seed=12),
}

# name -> (shape, footprint, precision, modes, levels, meas_pt, halo, srf_bg_conc)
_SOLVES = {
    "A-disp-d": ("A", False, "double", (16, 16), 6, (0.0, 0.0), None, 0.0),
    "A-disp-s": ("A", False, "single", (16, 16), 6, (0.0, 0.0), None, 0.0),
    "A-fp-s": ("A", True, "single", (16, 16), [2, 6], (55.0, 30.0), None, 0.0),
    "B-fp-d": ("B", True, "double", (32, 24), 8, (70.0, 45.0), 40.0, 0.0),
    "B-fp-s": ("B", True, "single", (32, 24), 8, (70.0, 45.0), 40.0, 0.0),
    "B-disp-d": ("B", False, "double", (24, 20), "nd:3,8", (20.0, 65.0), 40.0, 1.5),
    # twins used only as double-precision references
    "A-fp-d": ("A", True, "double", (16, 16), [2, 6], (55.0, 30.0), None, 0.0),
    "B-disp-s": ("B", False, "single", (24, 20), "nd:3,8", (20.0, 65.0), 40.0, 1.5),
}
# one-argument variants of two alphabet members: the same source shape, everything else equal
# except ONE argument (halo, domain, wind profile, vertical grid, background, measurement
# point, level, mode count).  A solve must not depend on whether such a near-twin ran before
# it (state keyed by an incomplete set of arguments shows only in these pairs).
_SHAPES["Adom"] = dict(_SHAPES["A"], domain=(160.0, 120.0))
_SHAPES["Awind"] = dict(_SHAPES["A"], wind=(2.0, -2.0))
_SHAPES["Az"] = dict(_SHAPES["A"], zm=6.0)
_SOLVES.update({
    "A-disp-d/halo": ("A", False, "double", (16, 16), 6, (0.0, 0.0), 20.0, 0.0),
    "A-disp-d/domain": ("Adom", False, "double", (16, 16), 6, (0.0, 0.0), None, 0.0),
    "A-disp-d/wind": ("Awind", False, "double", (16, 16), 6, (0.0, 0.0), None, 0.0),
    "A-disp-d/z": ("Az", False, "double", (16, 16), 6, (0.0, 0.0), None, 0.0),
    "A-disp-d/bg": ("A", False, "double", (16, 16), 6, (0.0, 0.0), None, 2.0),
    "A-disp-d/meas": ("A", False, "double", (16, 16), 6, (40.0, 22.5), None, 0.0),
    "A-disp-d/levels": ("A", False, "double", (16, 16), 4, (0.0, 0.0), None, 0.0),
    "A-disp-d/modes": ("A", False, "double", (12, 12), 6, (0.0, 0.0), None, 0.0),
    "A-fp-s/halo": ("A", True, "single", (16, 16), [2, 6], (55.0, 30.0), 20.0, 0.0),
    "A-fp-s/domain": ("Adom", True, "single", (16, 16), [2, 6], (55.0, 30.0), None, 0.0),
    "A-fp-s/wind": ("Awind", True, "single", (16, 16), [2, 6], (55.0, 30.0), None, 0.0),
    "A-fp-s/meas": ("A", True, "single", (16, 16), [2, 6], (40.0, 22.5), None, 0.0),
})
# one COMPONENT of the profile tuple (u, v, Kx, Ky, Kz) scaled with everything else -- including the other
# diffusivities, which MOST returns as one shared array -- left equal; other source values; the mode flags
_MODS = {}
for _b in ("A-disp-d", "A-fp-s"):
    for _k, (_i, _f) in {"u": (0, 1.25), "v": (1, -0.5), "Kx": (2, 1.7), "Ky": (3, 0.6), "Kz": (4, 1.3)}.items():
        _SOLVES["%s/%s" % (_b, _k)] = _SOLVES[_b]
        _MODS["%s/%s" % (_b, _k)] = {"scale": (_i, _f)}
_SOLVES["A-disp-d/src"] = _SOLVES["A-disp-d"]
_MODS["A-disp-d/src"] = {"srcseed": 977}
_SOLVES["A-disp-d/src3"] = _SOLVES["A-disp-d"]
_MODS["A-disp-d/src3"] = {"srcscale": -3.0}
_SOLVES["A-disp-d/analytic"] = _SOLVES["A-disp-d"]
_MODS["A-disp-d/analytic"] = {"analytic": True}
_SOLVES["A-disp-d/footprint"] = ("A", True, "double", (16, 16), 6, (0.0, 0.0), None, 0.0)
_SOLVES["A-fp-s/levels"] = ("A", True, "single", (16, 16), [6, 2], (55.0, 30.0), None, 0.0)
_SOLVES["A-fp-s/precision"] = ("A", True, "double", (16, 16), [2, 6], (55.0, 30.0), None, 0.0)
# same domain, modes and (incommensurate) halo, another number of cells: the wavenumbers depend on the cell size
_SHAPES["Ashape"] = dict(_SHAPES["A"], nx=20, ny=10)
_SOLVES["Ah-disp-d"] = ("A", False, "double", (16, 12), 6, (0.0, 0.0), 25.0, 0.0)
_SOLVES["Ah-disp-d/shape"] = ("Ashape", False, "double", (16, 12), 6, (0.0, 0.0), 25.0, 0.0)
_SOLVES["Ah-fp-d"] = ("A", True, "double", (16, 12), 6, (55.0, 30.0), 25.0, 0.0)
_SOLVES["Ah-fp-d/shape"] = ("Ashape", True, "double", (16, 12), 6, (55.0, 30.0), 25.0, 0.0)
VARIANTS = {b: [n for n in _SOLVES if n.startswith(b + "/")] for b in ("A-disp-d", "A-fp-s", "Ah-disp-d", "Ah-fp-d")}
ALPHABET = ["A-disp-d", "A-disp-s", "A-fp-s", "B-fp-d", "B-fp-s", "B-disp-d"]
_TWIN = {"A-disp-s": "A-disp-d", "A-fp-s": "A-fp-d", "B-fp-s": "B-fp-d",
         "B-disp-s": "B-disp-d"}


def build(name):
    """Keyword arguments of the solver call named `name` (fresh arrays at every call)."""
    shp, fp, prec, modes, levels, meas_pt, halo, bg = _SOLVES[name]
    s = _SHAPES[shp]
    mod = _MODS.get(name, {})
    rng = np.random.default_rng(mod.get("srcseed", s["seed"]))
    q0 = rng.random((s["ny"], s["nx"]))
    q0[rng.random((s["ny"], s["nx"])) < 0.3] = 0.0
    z, prof = default_profiles(n=s["nz"], zm=s["zm"], wind=s["wind"], ustar=0.35,
                               mol=s["mol"], closure=s["closure"])
    if isinstance(levels, str):
        levels = np.array([int(t) for t in levels[3:].split(",")])
    elif isinstance(levels, list):
        levels = list(levels)
    if "srcscale" in mod:
        q0 = q0 * mod["srcscale"]
    if "scale" in mod:
        i, f = mod["scale"]
        prof = tuple((np.array(a, copy=True) * f if k == i else a) for k, a in enumerate(prof))
    kw = dict(srf_flx=q0, z=z, profiles=prof, domain=s["domain"], levels=levels,
              modes=modes, meas_pt=meas_pt, srf_bg_conc=bg, footprint=fp,
              halo=halo, precision=prec)
    if mod.get("analytic"):
        kw["analytic"] = True
    return kw


def _snapshot(kw):
    lv = kw["levels"]
    return (kw["srf_flx"].copy(), kw["z"].copy(), [np.array(p, copy=True) for p in kw["profiles"]],
            (type(lv), np.array(lv, copy=True)))


def _mutated(kw, snap):
    q0, z, prof, (lt, lv) = snap
    bad = []
    if not np.array_equal(kw["srf_flx"], q0):
        bad.append("srf_flx")
    if not np.array_equal(kw["z"], z):
        bad.append("z")
    for i, (a, b) in enumerate(zip(kw["profiles"], prof)):
        if not np.array_equal(np.asarray(a), b):
            bad.append("profiles[%d]" % i)
    if type(kw["levels"]) is not lt or not np.array_equal(np.asarray(kw["levels"]), lv):
        bad.append("levels")
    return bad


def solve_here(name, threads):
    """One real solver call in this process; returns (fields, mutated-argument names)."""
    import bldfm.config as cfg
    from bldfm.solver import steady_state_transport_solver
    cfg.NUM_THREADS = int(threads)
    kw = build(name)
    snap = _snapshot(kw)
    grid, conc, flx = steady_state_transport_solver(**kw)
    return dict(X=np.asarray(grid[0]), Y=np.asarray(grid[1]), Z=np.asarray(grid[2]),
                conc=np.asarray(conc), flx=np.asarray(flx)), _mutated(kw, snap)


def _normalise():
    import bldfm.config as cfg
    from bldfm.fft_manager import reset_fft_manager
    cfg.NUM_THREADS = 1
    reset_fft_manager()


# ----------------------------------------------------------------- fresh-interpreter runs
_REF = {}


def _spawn(name, threads):
    d = tempfile.mkdtemp(dir=os.getcwd())
    out = os.path.join(d, "out.npz")
    p = subprocess.Popen(
        [sys.executable, os.path.abspath(__file__), "--child",
         json.dumps({"solve": name, "threads": threads}), out],
        cwd=d, stdout=subprocess.DEVNULL, stderr=subprocess.PIPE)
    return p, d, out


def _collect(job):
    p, d, out = job
    _, err = p.communicate()
    try:
        if p.returncode != 0 or not os.path.exists(out):
            raise RuntimeError("fresh interpreter failed (rc=%s): %s"
                               % (p.returncode, err.decode(errors="replace")[-800:]))
        with np.load(out) as f:
            return {k: f[k] for k in ("X", "Y", "Z", "conc", "flx")}
    finally:
        shutil.rmtree(d, ignore_errors=True)


def fresh(name, threads=1):
    k = (name, int(threads))
    if k not in _REF:
        _REF[k] = _collect(_spawn(name, threads))
    return _REF[k]


def prefetch(keys):
    """Launch the fresh interpreters of a tier together (wall time only; results identical)."""
    keys = [k for k in keys if k not in _REF]
    for i in range(0, len(keys), 6):
        jobs = [(k, _spawn(*k)) for k in keys[i:i + 6]]
        for k, j in jobs:
            try:
                _REF[k] = _collect(j)
            except Exception:   # reported by the cases that need this reference
                pass


def _child_main(argv):
    spec = json.loads(argv[2])
    import logging
    logging.disable(logging.CRITICAL)
    res, _ = solve_here(spec["solve"], spec["threads"])
    np.savez(argv[3], **res)
    _quiet_exit()


def _quiet_exit():
    # FFTManager registers one atexit hook per instance; under Python 3.12 each prints a
    # harmless "can't create new thread at interpreter shutdown" traceback.  Not C12's
    # subject: silence the stream for the shutdown phase only.
    # Thousands of superseded managers (every thread change creates one, and the module-level
    # fft2 re-creates a one-thread manager after each multi-thread set-up) would each save the
    # wisdom file and restart the plan-cache thread at exit (~100 s): only the live manager
    # keeps its hook.
    try:
        import atexit
        import gc
        import bldfm.fft_manager as fm
        for o in gc.get_objects():
            if isinstance(o, fm.FFTManager) and o is not fm._fft_manager:
                atexit.unregister(o._cleanup)
    except Exception:
        pass
    try:
        sys.stdout.flush()
        sys.stderr.flush()
        os.dup2(os.open(os.devnull, os.O_WRONLY), 2)
    except Exception:
        pass


# ------------------------------------------------------------------------------ comparisons
_FIELDS = ("X", "Y", "Z", "conc", "flx")


def _maxrel(a, b):
    return max(relerr(a[k], b[k]) for k in _FIELDS)


def _bitdiff(a, b):
    return [k for k in _FIELDS
            if a[k].shape != b[k].shape or not np.array_equal(a[k], b[k], equal_nan=True)]


def _nontrivial(r):
    return bool(np.all(np.isfinite(r["flx"])) and np.all(np.isfinite(r["conc"]))
                and np.max(np.abs(r["flx"])) > 0 and np.max(np.abs(r["conc"])) > 0)


# ------------------------------------------------------------------------------------ kinds
@S.kind("history")
def history(seq):
    """seq = [[solve, threads, reset_before], ...]; see the module docstring."""
    from bldfm.fft_manager import reset_fft_manager
    _normalise()
    try:
        runs = []
        for name, threads, reset in seq:
            if reset:
                reset_fft_manager()
            res, mut = solve_here(name, threads)
            if mut:
                return Verdict(False, "step %d (%s, %d threads) changed its arguments: %s"
                               % (len(runs), name, threads, mut), key="argument-mutated")
            runs.append((name, int(threads), res))
    finally:
        _normalise()
    # (1) equal solve, equal thread setting, one process: bit-identical
    for i in range(len(runs)):
        for j in range(i + 1, len(runs)):
            if runs[i][:2] == runs[j][:2]:
                d = _bitdiff(runs[i][2], runs[j][2])
                if d:
                    return Verdict(False, "steps %d and %d (%s, %d threads) differ in %s; max rel %.3g"
                                   % (i, j, runs[i][0], runs[i][1], d,
                                      _maxrel(runs[i][2], runs[j][2])),
                                   key="repeat-not-bit-identical")
    # (2) last solve against the fresh interpreter (one thread)
    name, threads, last = runs[-1]
    ref = fresh(name, 1)
    e = _maxrel(last, ref)
    if not e <= TOL_ROUND:
        return Verdict(False, "last step %s with %d threads after %s: rel. diff %.3g to the fresh "
                       "interpreter (> %g)" % (name, threads, seq[:-1], e, TOL_ROUND),
                       key="history-changes-result" if threads == 1 else "threads-change-result")
    # (3) single against the double twin
    es = None
    if name in _TWIN:
        dbl = fresh(_TWIN[name], 1)
        es = max(relerr(last["conc"], dbl["conc"]), relerr(last["flx"], dbl["flx"]))
        if not es <= TOL_SINGLE:
            return Verdict(False, "%s: single differs from double by %.3g of the maximum (> %g)"
                           % (name, es, TOL_SINGLE), key="single-vs-double")
    return Verdict(True, "len %d, last %s@%d: rel %.2g to fresh%s"
                   % (len(runs), name, threads, e, "" if es is None else ", s-d %.2g" % es),
                   nontrivial=_nontrivial(last))


# in-place edits of the caller's arrays between two calls: (variant whose fresh-interpreter result is the reference, edit)
INPLACE = {"src": ("A-disp-d/src3", lambda kw: kw["srf_flx"].__imul__(-3.0)),
           "u": ("A-disp-d/u", lambda kw: kw["profiles"][0].__imul__(1.25)),
           "v": ("A-disp-d/v", lambda kw: kw["profiles"][1].__imul__(-0.5))}


@S.kind("history-inplace")
def history_inplace(what):
    """The SAME array objects are handed to two consecutive solves, one of them modified in place in between (a caller
    that scales its flux map or updates a profile array): the second result must be the fresh-interpreter result for the
    modified values (state keyed by object identity shows only here)."""
    import bldfm.config as cfg
    from bldfm.solver import steady_state_transport_solver
    variant, edit = INPLACE[what]
    _normalise()
    try:
        cfg.NUM_THREADS = 1
        kw = build("A-disp-d")
        steady_state_transport_solver(**kw)
        edit(kw)
        grid, conc, flx = steady_state_transport_solver(**kw)
    finally:
        _normalise()
    last = dict(X=np.asarray(grid[0]), Y=np.asarray(grid[1]), Z=np.asarray(grid[2]), conc=np.asarray(conc), flx=np.asarray(flx))
    e = _maxrel(last, fresh(variant, 1))
    if not e <= TOL_ROUND:
        return Verdict(False, "second solve on the same array objects after an in-place edit of %s: rel. diff %.3g to the fresh "
                       "interpreter on the edited values (> %g)" % (what, e, TOL_ROUND), key="history-changes-result")
    return Verdict(True, "in-place %s: rel %.2g to fresh" % (what, e), nontrivial=_nontrivial(last))


@S.kind("repeat-same-objects")
def repeat_same_objects(solve, as_arrays):
    """The identical call twice with the SAME argument objects (a tower-coordinate row, a domain vector kept by the
    caller; as float64 / int64 ndarrays or as tuples): nothing the caller handed over is changed, and the second result is
    bit-identical to the first."""
    import bldfm.config as cfg
    from bldfm.solver import steady_state_transport_solver
    _normalise()
    try:
        cfg.NUM_THREADS = 1
        kw = build(solve)
        if as_arrays:
            kw["meas_pt"] = np.array(kw["meas_pt"], dtype=float)
            kw["domain"] = np.array(kw["domain"], dtype=float)
            kw["modes"] = np.array(kw["modes"], dtype=np.int64)
        before = {k: np.array(kw[k], copy=True) for k in ("meas_pt", "domain", "modes")}
        snap = _snapshot(kw)
        out = []
        for rep in range(2):
            grid, conc, flx = steady_state_transport_solver(**kw)
            out.append(dict(X=np.asarray(grid[0]), Y=np.asarray(grid[1]), Z=np.asarray(grid[2]), conc=np.asarray(conc), flx=np.asarray(flx)))
            mut = _mutated(kw, snap) + [k for k in before if not np.array_equal(np.asarray(kw[k]), before[k])]
            if mut:
                return Verdict(False, "%s (arguments as %s): call %d changed its arguments: %s" % (solve, "ndarrays" if as_arrays else "tuples", rep + 1, mut),
                               key="argument-mutated")
    finally:
        _normalise()
    d = _bitdiff(out[0], out[1])
    if d:
        return Verdict(False, "%s (arguments as %s): the second call with the same argument objects differs in %s; max rel %.3g"
                       % (solve, "ndarrays" if as_arrays else "tuples", d, _maxrel(out[0], out[1])), key="repeat-not-bit-identical")
    return Verdict(True, "%s twice, arguments as %s" % (solve, "ndarrays" if as_arrays else "tuples"), nontrivial=_nontrivial(out[1]))


@S.kind("fresh-threads")
def fresh_threads(solve, threads):
    """The same solve in two fresh interpreters, one thread against `threads` threads."""
    a = fresh(solve, 1)
    b = fresh(solve, threads)
    e = _maxrel(b, a)
    return Verdict(e <= TOL_ROUND, "%s: %d threads vs 1 thread, fresh interpreters: rel %.3g"
                   % (solve, threads, e), nontrivial=_nontrivial(a), key="threads-change-result")


@S.kind("thread-sweep")
def thread_sweep(nlx, nly, threads, footprint):
    """One small solve with `threads` numerical threads against the same solve with one thread, in this process.  The number
    of marched Fourier components is nlx*nly - 1: thread counts and mode counts are swept so that every remainder of that
    number modulo the thread count (and quotients that are / are not multiples of 8) occurs -- work split into per-thread
    blocks must cover the last, incomplete block."""
    import bldfm.config as cfg
    from bldfm.solver import steady_state_transport_solver
    rng = np.random.default_rng(1000 * nlx + nly)
    nx, ny = max(nlx, 8), max(nly, 6)
    q0 = rng.random((ny, nx))
    z, prof = default_profiles(n=6, zm=4.0, wind=(2.5, -1.5), ustar=0.35, mol=-80.0, closure="MOST")
    # (levels out of order and one of them twice: each slot of the request is filled, whatever the thread count)
    kw = dict(srf_flx=q0, z=z, profiles=prof, domain=(nx * 10.0, ny * 7.5), levels=[[2, 6], [6, 2, 6, 3]][(nlx + nly + threads) % 2], modes=(nlx, nly),
              meas_pt=((3 * 10.0, 2 * 7.5) if footprint else (0.0, 0.0)), srf_bg_conc=0.0 if footprint else 0.4,
              footprint=footprint, halo=0.0, precision="double")
    out = {}
    try:
        for t in (1, threads):
            _normalise()
            cfg.NUM_THREADS = int(t)
            _, conc, flx = steady_state_transport_solver(**kw)
            out[t] = (np.asarray(conc), np.asarray(flx))
    finally:
        _normalise()
    e = max(float(np.max(np.abs(out[threads][k] - out[1][k])) / max(float(np.max(np.abs(out[1][k]))), 1e-300)) for k in (0, 1))
    return Verdict(e <= TOL_ROUND, "modes (%d,%d) = %d marched components, %d threads vs 1 thread (%s): rel %.3g"
                   % (nlx, nly, nlx * nly - 1, threads, "footprint" if footprint else "dispersion", e), key="threads-change-result")


@S.kind("wisdom-file")
def wisdom_file(content, threads):
    """The FFT layer keeps planning wisdom in a file of the working directory and reads it whenever it is (re-)initialised.
    Whatever an earlier or concurrent run left there -- nothing, a complete file, an empty or cut-off file, a pickle of
    something else, other bytes -- the solve returns the same fields and does not raise."""
    import pickle
    import bldfm.config as cfg
    from bldfm.fft_manager import reset_fft_manager
    ref, _ = solve_here("A-disp-d", 1)
    path = os.path.join(os.getcwd(), "fftw_wisdom.pkl")
    good = None
    if os.path.exists(path):
        with open(path, "rb") as f:
            good = f.read()
    try:
        data = {"absent": None, "empty": b"", "not-wisdom": pickle.dumps({"a": 1}), "list": pickle.dumps([1, 2, 3]),
                "bytes": b"\x00\x01 not a pickle \xff" * 7,
                "cut": (good or pickle.dumps((b"x" * 40, b"y" * 40, b"z" * 40)))[: max(1, len(good or b"x" * 60) // 2)]}[content]
        if data is None:
            if os.path.exists(path):
                os.unlink(path)
        else:
            with open(path, "wb") as f:
                f.write(data)
        reset_fft_manager()
        try:
            res, _ = solve_here("A-disp-d", threads)
        except Exception as e:
            return Verdict(False, "wisdom file %s, FFT layer re-initialised (%d threads): the solve raised %s: %s"
                           % (content, threads, type(e).__name__, str(e)[:80]), key="history-changes-result")
        e = _maxrel(res, ref)
        return Verdict(e <= TOL_ROUND, "wisdom file %s, %d threads: rel %.3g to the solve before" % (content, threads, e),
                       key="history-changes-result")
    finally:
        _normalise()
        try:
            if good is None:
                if os.path.exists(path):
                    os.unlink(path)
            else:
                with open(path, "wb") as f:
                    f.write(good)
        except OSError:
            pass


@S.kind("args-not-mutated")
def args_not_mutated(solve, threads):
    """Arguments before and after one call (all six solves plus the twins)."""
    _normalise()
    try:
        res, mut = solve_here(solve, threads)
    finally:
        _normalise()
    return Verdict(not mut, "%s@%d: changed %s" % (solve, threads, mut or "nothing"),
                   nontrivial=_nontrivial(res), key="argument-mutated")


# -------------------------------------------------------------------------------- generator
def _sequences(threads, maxlen):
    first = [(s, t, False) for s in ALPHABET for t in threads]
    later = [(s, t, r) for s in ALPHABET for t in threads for r in (False, True)]
    for n in range(1, maxlen + 1):
        for seq in itertools.product(first, *([later] * (n - 1))):
            yield [list(x) for x in seq]


def _available(threads):
    """numba refuses thread counts above NUMBA_NUM_THREADS (the core count by default)."""
    import numba
    return [t for t in threads if t <= numba.config.NUMBA_NUM_THREADS]


def generate(tier, rng):
    if os.environ.get("C12_FOCUS") == "twins":
        # witness search for a refuted purity frame obligation (any solver property): near-twin pairs, both orders, one thread
        prefetch([(v, 1) for b in VARIANTS for v in VARIANTS[b]] + [(b, 1) for b in VARIANTS])
        for base, variants in VARIANTS.items():
            for v in variants:
                yield "history", dict(seq=[[v, 1, False], [base, 1, False]])
                yield "history", dict(seq=[[base, 1, False], [v, 1, False]])
        for what in INPLACE:
            yield "history-inplace", dict(what=what)
        for s_ in ("A-fp-s", "B-disp-d"):
            yield "repeat-same-objects", dict(solve=s_, as_arrays=True)
        return
    thorough = tier == "thorough"
    threads = _available([1, 2, 4, 8] if thorough else [1, 4])
    prefetch([(s, 1) for s in _SOLVES] + [(s, t) for s in ALPHABET for t in threads if t != 1])
    for s in _SOLVES:
        if "/" in s:
            continue
        for t in threads:
            yield "args-not-mutated", dict(solve=s, threads=t)
    for s in ALPHABET:
        for t in threads:
            if t != 1:
                yield "fresh-threads", dict(solve=s, threads=t)
    k = 0
    for t in _available([2, 3, 4, 5, 6, 7, 8] if thorough else [2, 3, 4, 8]):
        for nlx, nly in ((4, 4), (6, 6), (6, 4), (8, 6), (10, 6), (10, 10), (12, 8), (14, 10), (16, 12), (18, 18), (30, 30)):
            k += 1
            if thorough or k % 2 or (nlx * nly - 1) // t % 8 == 0:
                yield "thread-sweep", dict(nlx=nlx, nly=nly, threads=t, footprint=bool(k % 3 == 0))
    for content in ("absent", "empty", "not-wisdom", "list", "bytes", "cut"):
        for t in (1, threads[-1]):
            yield "wisdom-file", dict(content=content, threads=t)
    for what in INPLACE:
        yield "history-inplace", dict(what=what)
    for s_ in ("A-fp-s", "B-disp-d", "B-fp-d", "A-disp-d"):
        for arr in (True, False):
            yield "repeat-same-objects", dict(solve=s_, as_arrays=arr)
    # near-twin pairs, both orders; the later solve on 1 thread and on several
    for base, variants in VARIANTS.items():
        for v in variants:
            for t in threads if thorough else threads[-1:] + [1]:
                for reset in ((False, True) if thorough else (False,)):
                    yield "history", dict(seq=[[v, 1, False], [base, t, reset]])
                    yield "history", dict(seq=[[base, 1, False], [v, t, reset]])
            if thorough:
                yield "history", dict(seq=[[v, 1, False], [base, 1, False], [v, 1, False]])
    if thorough:
        seen = set()
        for seq in itertools.chain(_sequences(_available([1, 4]), 3), _sequences(threads, 2)):
            k = json.dumps(seq)
            if k not in seen:
                seen.add(k)
                yield "history", dict(seq=seq)
    else:
        for seq in _sequences(threads, 2):
            yield "history", dict(seq=seq)


if __name__ == "__main__":
    if len(sys.argv) > 1 and sys.argv[1] == "--child":
        _child_main(sys.argv)
    else:
        try:
            S.main(generate)
        except SystemExit:
            _quiet_exit()
            raise
