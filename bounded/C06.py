"""C06 - bounded native stand-in / replay oracle.

Property: whole-cell translation equivariance on the periodic padded domain:
  1. source rolled by (sy, sx) cells            -> concentration and flux rolled alike;
  2. tower moved by whole cells                 -> footprint rolled alike;
  3. footprint(tower) = point reflection about the tower of the response to a unit source
     placed in the tower cell;
  4. dispersion mode with a non-zero measurement point: the output is the field re-centred,
     the centre cell [ny//2, nx//2] (even nx, ny) holds the un-recentred field value at the point.

Oracle = the statement, observed through the public API with halo=0.0 and np.roll of inputs and
outputs (as `observe_at` says).  With a halo the same identities hold on the part of the
cropped window where both sides are defined; those variants compare that overlap only.
All comparisons in double precision, relative to the maximum of the reference field.
"""
import os
import sys

sys.path.insert(0, os.path.dirname(os.path.abspath(__file__)))
from _common import Suite, Verdict, default_profiles, relerr  # noqa: E402,F401

import numpy as np  # noqa: E402

S = Suite(
    "C06",
    what="whole-cell translation equivariance of sources, towers, footprint = reflected "
         "unit-source response, dispersion-mode re-centring; public API, np.roll of inputs/outputs",
    bound="grids 6..24 x 6..24 (even; odd with clamped modes), dx!=dy with binary-fraction cell "
          "sizes and with decimal ones (0.3, 0.7, 0.9, 1.1, 1.3, 2.1, 2.7, 3.3 ... 6.1 m; for these EVERY "
          "cell as tower, coordinate written as i*dx and as a 6-digit decimal), all shifts incl. "
          "wrap-around sampled, modes truncated/at/above, halo 0 (full periodic comparison) and halo None / "
          "commensurate / incommensurate (overlap of the cropped windows only), MOST / MOSTM / "
          "CONSTANT and hand-built anisotropic veering profiles, random and sparse sources, "
          "double precision; a sample of this family",
    rule="max|lhs-rhs| <= tol*max|rhs field|, tol = max(1e-9, 300*eps*exp(G)), G = rounding "
         "amplification estimate sum Re(lambda) dz below the output level; G>18 counted trivial",
)

EPS = 2.220446049250313e-16
GMAX = 18.0


def growth(z, profiles, lev, nx, ny, dx, dy, halo, modes):
    """exp(G) = growth of the auxiliary initial-value solutions below the output level, from
    the PDE: lambda^2 = (Kx kx^2 + Ky ky^2 + i(u kx + v ky))/Kz (DESIGN B.1)."""
    u, v, Kx, Ky, Kz = profiles
    h = max(nx * dx, ny * dy) if halo is None else float(halo)
    nxe, nye = nx + 2 * int(h / dx), ny + 2 * int(h / dy)
    nlx, nly = modes
    if nlx > nxe or nly > nye:
        nlx, nly = nxe, nye
    kx = 2.0 * np.pi / (dx * nxe) * np.arange(0, nlx // 2 + 1)
    ky = 2.0 * np.pi / (dy * nye) * np.arange(-(nly // 2), nly // 2 + 1)
    KX, KY = np.meshgrid(kx, ky)
    dz = np.diff(z)
    G = np.zeros_like(KX)
    for i in range(min(int(lev), len(dz))):
        lam = np.sqrt((Kx[i] * KX ** 2 + Ky[i] * KY ** 2 + 1j * (u[i] * KX + v[i] * KY)) / Kz[i] + 0j)
        G += np.abs(lam.real) * dz[i]
    return float(G.max())


def tolerance(G):
    return max(1e-9, 300.0 * EPS * float(np.exp(min(G, 700.0))))


def make_profiles(spec):
    kind = spec["kind"]
    if kind == "closure":
        z, prof = default_profiles(n=spec["n"], zm=spec["zm"], wind=tuple(spec["wind"]),
                                   ustar=spec.get("ustar", 0.4), mol=spec.get("mol", -50.0),
                                   closure=spec["closure"])
        z = np.asarray(z, dtype=float).reshape(-1)
        return z, tuple(np.asarray(p, dtype=float).reshape(-1) for p in prof)
    if kind == "hand":
        nz = spec["nz"]
        s = np.linspace(0.0, 1.0, nz)
        z0, zt = spec["z0"], spec["ztop"]
        z = z0 + (zt - z0) * s ** spec.get("stretch", 1.0)
        speed = spec["U"] * np.log(1.0 + z / z0) / np.log(1.0 + zt / z0)
        ang = np.deg2rad(spec["wdir"] + spec.get("veer", 0.0) * s)
        K = 0.16 * z + spec.get("kmin", 0.02)
        return z, (speed * np.cos(ang), speed * np.sin(ang),
                   spec["ax"] * K * (1.0 + 0.3 * s), spec["ay"] * K * (1.0 - 0.2 * s),
                   spec["az"] * K)
    raise ValueError(kind)


def make_source(kind, ny, nx, seed):
    rng = np.random.default_rng(seed)
    if kind == "random":
        return rng.random((ny, nx)) - 0.3
    q = np.zeros((ny, nx))
    for _ in range(3):
        q[rng.integers(ny), rng.integers(nx)] += rng.uniform(0.5, 2.0)
    return q


def halo_class(halo, nx, ny, dx, dy):
    h = max(nx * dx, ny * dy) if halo is None else float(halo)
    px, py = int(h / dx), int(h / dy)
    comm = (px * dx == h) and (py * dy == h)
    if halo is None:
        return "halo-none-" + ("commensurate" if comm else "nonsquare")
    if h == 0.0:
        return "halo-zero"
    return "halo-commensurate" if comm else "halo-incommensurate"


def overlap(a, b, sy, sx):
    """Sub-arrays (a', b') with b'[j,i] = b[j+sy, i+sx] paired with a'[j,i] = a[j,i]."""
    ny, nx = a.shape
    j0, j1 = max(0, -sy), min(ny, ny - sy)
    i0, i1 = max(0, -sx), min(nx, nx - sx)
    if j1 <= j0 or i1 <= i0:
        return a[0:0, 0:0], b[0:0, 0:0]
    return a[j0:j1, i0:i1], b[j0 + sy:j1 + sy, i0 + sx:i1 + sx]


def err_rel(a, b, scale):
    if a.shape != b.shape:
        return float("inf")
    if a.size == 0:
        return 0.0
    return float(np.max(np.abs(a - b))) / max(scale, 1e-300)


def _dyadic(d):
    """True when d is a small multiple of a power of two: i*d and (i*d)/d are then exact for all
    the cell indices used here, so float quotients never fall an ulp below an integer."""
    return float(d * 2 ** 20).is_integer()


def spacing_class(dx, dy):
    return "" if (_dyadic(dx) and _dyadic(dy)) else "-nondyadic-spacing"


def _coord(i, d, coord):
    """On-grid coordinate of cell i: the float product i*d, or the same number as a user would
    type it (decimal literal with 6 digits).  Both denote the node i*d to within an ulp."""
    if coord == "product":
        return i * d
    if coord == "decimal":
        return float(repr(round(i * d, 6)))
    raise ValueError(coord)


def _setup(nx, ny, dx, dy, halo, modes, level, prof):
    z, profiles = make_profiles(prof)
    lev = level if level >= 0 else len(z) + level
    G = growth(z, profiles, lev, nx, ny, dx, dy, halo, modes)
    return z, profiles, lev, (nx * dx, ny * dy), G, tolerance(G)


def _call(q0, z, profiles, domain, lev, modes, halo, meas, footprint, bg=0.0):
    from bldfm.solver import steady_state_transport_solver as solve
    _, c, f = solve(q0, z, profiles, domain, lev, modes=tuple(modes), meas_pt=meas,
                    srf_bg_conc=bg, footprint=footprint, halo=halo, precision="double")
    return np.asarray(c), np.asarray(f)


def _verdict(pairs, tol, G, key, head):
    """pairs: list of (name, lhs, rhs, scale)."""
    errs = [(n, err_rel(a, b, sc)) for n, a, b, sc in pairs]
    size = sum(a.size for _, a, _, _ in pairs)
    worst = max(e for _, e in errs)
    ok = worst <= tol
    detail = "%s %s tol %.1e (G=%.1f)" % (head, " ".join("%s=%.2e" % e for e in errs), tol, G)
    return Verdict(ok, detail, nontrivial=(size > 0 and G <= GMAX), key=key,
                   measured=worst / tol)


# ------------------------------------------------------------------ clause 1
@S.kind("source-roll")
def source_roll(nx, ny, dx, dy, modes, sx, sy, im, jm, level, prof, src, seed, bg):
    """halo=0: solve(roll(q0)) == roll(solve(q0)); (im,jm) != (0,0) adds the re-centring."""
    z, profiles, lev, domain, G, tol = _setup(nx, ny, dx, dy, 0.0, modes, level, prof)
    q0 = make_source(src, ny, nx, seed)
    meas = (im * dx, jm * dy)
    c0, f0 = _call(q0, z, profiles, domain, lev, modes, 0.0, meas, False, bg)
    c1, f1 = _call(np.roll(q0, (sy, sx), axis=(0, 1)), z, profiles, domain, lev, modes, 0.0,
                   meas, False, bg)
    rc, rf = np.roll(c0, (sy, sx), axis=(0, 1)), np.roll(f0, (sy, sx), axis=(0, 1))
    return _verdict([("conc", c1, rc, np.max(np.abs(rc - bg))), ("flx", f1, rf, np.max(np.abs(rf)))],
                    tol, G, "source-roll", "shift=(%d,%d)" % (sy, sx))


# ------------------------------------------------------------------ clause 2
@S.kind("tower-roll")
def tower_roll(nx, ny, dx, dy, modes, sx, sy, im, jm, level, prof, wrap, coord="product"):
    """halo=0: footprint(tower + s) == roll(footprint(tower), s)."""
    z, profiles, lev, domain, G, tol = _setup(nx, ny, dx, dy, 0.0, modes, level, prof)
    q0 = np.zeros((ny, nx))
    c0, f0 = _call(q0, z, profiles, domain, lev, modes, 0.0,
                   (_coord(im, dx, coord), _coord(jm, dy, coord)), True)
    i2, j2 = im + sx, jm + sy
    if wrap:
        i2, j2 = i2 % nx, j2 % ny
    c1, f1 = _call(q0, z, profiles, domain, lev, modes, 0.0,
                   (_coord(i2, dx, coord), _coord(j2, dy, coord)), True)
    rc, rf = np.roll(c0, (sy, sx), axis=(0, 1)), np.roll(f0, (sy, sx), axis=(0, 1))
    return _verdict([("conc", c1, rc, np.max(np.abs(rc))), ("flx", f1, rf, np.max(np.abs(rf)))],
                    tol, G, "tower-roll" + spacing_class(dx, dy),
                    "tower=(%d,%d) shift=(%d,%d)" % (jm, im, sy, sx))


@S.kind("tower-shift-halo")
def tower_shift_halo(nx, ny, dx, dy, halo, modes, sx, sy, im, jm, level, prof):
    """any halo: footprint(tower + s)[j+sy, i+sx] == footprint(tower)[j, i] where both exist."""
    z, profiles, lev, domain, G, tol = _setup(nx, ny, dx, dy, halo, modes, level, prof)
    q0 = np.zeros((ny, nx))
    c0, f0 = _call(q0, z, profiles, domain, lev, modes, halo, (im * dx, jm * dy), True)
    c1, f1 = _call(q0, z, profiles, domain, lev, modes, halo, ((im + sx) * dx, (jm + sy) * dy), True)
    ac, bc = overlap(c0, c1, sy, sx)
    af, bf = overlap(f0, f1, sy, sx)
    return _verdict([("conc", bc, ac, np.max(np.abs(c0))), ("flx", bf, af, np.max(np.abs(f0)))],
                    tol, G, "tower-shift-" + halo_class(halo, nx, ny, dx, dy) + spacing_class(dx, dy),
                    "shift=(%d,%d)" % (sy, sx))


# ------------------------------------------------------------------ clause 3
@S.kind("point-reflection")
def point_reflection(nx, ny, dx, dy, halo, modes, im, jm, level, prof, coord="product"):
    """footprint(tower)[j,i] == R[2jm-j, 2im-i], R = dispersion response to a unit source in the
    tower cell (meas_pt=(0,0)); indices modulo the grid for halo=0, where defined otherwise."""
    z, profiles, lev, domain, G, tol = _setup(nx, ny, dx, dy, halo, modes, level, prof)
    q0 = np.zeros((ny, nx))
    cf, ff = _call(q0, z, profiles, domain, lev, modes, halo,
                   (_coord(im, dx, coord), _coord(jm, dy, coord)), True)
    q1 = np.zeros((ny, nx))
    q1[jm, im] = 1.0
    cr, fr = _call(q1, z, profiles, domain, lev, modes, halo, (0.0, 0.0), False)
    hc = halo_class(halo, nx, ny, dx, dy) + spacing_class(dx, dy)
    if cf.shape != (ny, nx) or cr.shape != (ny, nx):
        return Verdict(False, "shapes %s %s" % (cf.shape, cr.shape), key="shape-" + hc)
    jj = 2 * jm - np.arange(ny)
    ii = 2 * im - np.arange(nx)
    if hc.startswith("halo-zero"):
        JJ, II = np.meshgrid(jj % ny, ii % nx, indexing="ij")
        pairs = [("conc", cf, cr[JJ, II], np.max(np.abs(cr))),
                 ("flx", ff, fr[JJ, II], np.max(np.abs(fr)))]
    else:
        vj = (jj >= 0) & (jj < ny)
        vi = (ii >= 0) & (ii < nx)
        JJ, II = np.meshgrid(jj[vj], ii[vi], indexing="ij")
        pairs = [("conc", cf[np.ix_(vj, vi)], cr[JJ, II], np.max(np.abs(cr))),
                 ("flx", ff[np.ix_(vj, vi)], fr[JJ, II], np.max(np.abs(fr)))]
    return _verdict(pairs, tol, G, "reflection-" + hc, "tower=(%d,%d)" % (jm, im))


# ------------------------------------------------------------------ clause 4
@S.kind("recentre")
def recentre(nx, ny, dx, dy, halo, modes, im, jm, level, prof, src, seed, bg):
    """dispersion mode, even nx, ny, (im,jm) != (0,0): out[ny//2, nx//2] == base[jm, im] and
    out[j,i] == base[j+jm-ny//2, i+im-nx//2] (periodic for halo=0, where defined otherwise)."""
    if nx % 2 or ny % 2 or (im == 0 and jm == 0):
        return Verdict(True, "outside the clause (odd size or zero point)", nontrivial=False)
    z, profiles, lev, domain, G, tol = _setup(nx, ny, dx, dy, halo, modes, level, prof)
    q0 = make_source(src, ny, nx, seed)
    cb, fb = _call(q0, z, profiles, domain, lev, modes, halo, (0.0, 0.0), False, bg)
    co, fo = _call(q0, z, profiles, domain, lev, modes, halo, (im * dx, jm * dy), False, bg)
    hc = halo_class(halo, nx, ny, dx, dy)
    if co.shape != (ny, nx) or cb.shape != (ny, nx):
        return Verdict(False, "shapes %s %s" % (co.shape, cb.shape), key="shape-" + hc)
    sc_c, sc_f = np.max(np.abs(cb - bg)), np.max(np.abs(fb))
    pairs = [("centre-conc", co[ny // 2:ny // 2 + 1, nx // 2:nx // 2 + 1],
              cb[jm:jm + 1, im:im + 1], sc_c),
             ("centre-flx", fo[ny // 2:ny // 2 + 1, nx // 2:nx // 2 + 1],
              fb[jm:jm + 1, im:im + 1], sc_f)]
    sy, sx = jm - ny // 2, im - nx // 2
    if hc == "halo-zero":
        pairs += [("conc", co, np.roll(cb, (-sy, -sx), axis=(0, 1)), sc_c),
                  ("flx", fo, np.roll(fb, (-sy, -sx), axis=(0, 1)), sc_f)]
    else:
        a, b = overlap(co, cb, sy, sx)
        pairs.append(("conc", a, b, sc_c))
        a, b = overlap(fo, fb, sy, sx)
        pairs.append(("flx", a, b, sc_f))
    return _verdict(pairs, tol, G, "recentre-" + hc, "tower=(%d,%d)" % (jm, im))


# ------------------------------------------------------------------ bounded family
SPACINGS = [  # (dx, dy, commensurate halo, incommensurate halo); exactly representable
    (10.0, 7.5, 30.0, 20.0),
    (5.0, 7.5, 15.0, 17.0),
    (8.0, 4.0, 16.0, 10.0),
    (12.5, 6.25, 25.0, 30.0),
    (6.0, 9.0, 18.0, 13.0),
]
# Cell sizes that are NOT binary fractions (typical user input: 0.7 m, 1.1 m ...).  On-grid
# coordinates i*dx are then inexact and quotients like 2.1/0.7 fall an ulp below an integer; the
# identities are unaffected (an ulp in the tower position moves the result by ~1e-16 relative).
# (dx, dy, nominally commensurate halo, incommensurate halo)
NONDYADIC = [
    (0.7, 1.1, 2.1, 2.5),
    (1.1, 0.7, 3.3, 2.0),
    (0.3, 1.3, 0.9, 1.0),
    (1.3, 0.3, 2.6, 1.0),
    (2.7, 2.1, 8.1, 5.0),
    (2.1, 0.9, 6.3, 4.0),
    (3.3, 0.7, 6.6, 5.0),
    (0.9, 3.3, 2.7, 4.0),
    (5.4, 4.7, 16.2, 12.0),
    (6.1, 5.9, 18.3, 20.0),
]
NONDYADIC_GRIDS = [(20, 12), (24, 20), (12, 16), (16, 24)]
PROFILES = [
    dict(kind="closure", closure="MOST", n=6, zm=4.0, wind=[3.0, 1.0], ustar=0.4, mol=-50.0),
    dict(kind="closure", closure="MOSTM", n=6, zm=4.0, wind=[2.0, -3.0], ustar=0.4, mol=-30.0),
    dict(kind="closure", closure="CONSTANT", n=5, zm=4.0, wind=[-3.0, 1.0], ustar=0.4, mol=-50.0),
    dict(kind="hand", nz=8, z0=0.1, ztop=9.0, stretch=1.5, U=4.0, wdir=30.0, veer=25.0,
         ax=1.6, ay=0.7, az=1.0),
    dict(kind="hand", nz=11, z0=0.05, ztop=7.0, stretch=2.0, U=3.0, wdir=200.0, veer=-40.0,
         ax=0.6, ay=1.8, az=1.2),
]


def generate(tier, rng):
    n_each = 150 if tier == "quick" else 3000
    nzs = {}

    def nz_of(k):
        if k not in nzs:
            nzs[k] = len(make_profiles(PROFILES[k])[0])
        return nzs[k]

    def resolved_level(pk, level, nx, ny, dx, dy, halo, modes, gmax=12.0):
        """Largest level <= `level` whose rounding amplification estimate stays below gmax."""
        z, profiles = make_profiles(PROFILES[pk])
        while level > 1 and growth(z, profiles, level, nx, ny, dx, dy, halo, modes) > gmax:
            level -= 1
        return level

    def base(hk, even=False):
        if rng.random() < 0.3:
            dx, dy, hcomm, hinc = rng.choice(NONDYADIC)
        else:
            dx, dy, hcomm, hinc = rng.choice(SPACINGS)
        odd_ok = (not even) and rng.random() < 0.25
        nx = rng.choice([7, 9, 11, 15] if odd_ok else [6, 8, 10, 12, 16, 20, 24])
        ny = rng.choice([7, 9, 13] if (odd_ok and rng.random() < 0.5) else [6, 8, 10, 12, 16, 20])
        halo = {"zero": 0.0, "none": None, "comm": hcomm, "incomm": hinc}[hk]
        h = max(nx * dx, ny * dy) if halo is None else halo
        nxe, nye = nx + 2 * int(h / dx), ny + 2 * int(h / dy)
        mk = rng.choice(["trunc", "trunc", "at", "above"])
        if nx % 2 or ny % 2 or mk == "above":
            modes = [512, 512]
        elif mk == "at":
            modes = [nxe, nye]
        else:
            modes = [2 * rng.randint(1, nxe // 2), 2 * rng.randint(1, nye // 2)]
        pk = rng.randrange(len(PROFILES))
        nz = nz_of(pk)
        level = rng.choice([1, nz // 2, nz - 1, rng.randint(1, nz - 1)])
        if spacing_class(dx, dy):       # small cells: stay where the comparison is sharp
            level = resolved_level(pk, level, nx, ny, dx, dy, halo, modes)
        return dict(nx=nx, ny=ny, dx=dx, dy=dy, modes=modes, level=level,
                    prof=PROFILES[pk]), halo

    # every cell of non-dyadic grids as tower position ("all measurement points"): whether the
    # float quotient (i*dx)/dx is exact depends on i, dx and on how the coordinate was written,
    # so the sweep is exhaustive in i and j instead of sampled
    combos = [(sp, g, cm) for sp in range(len(NONDYADIC)) for g in range(len(NONDYADIC_GRIDS))
              for cm in ("product", "decimal")]
    if tier == "quick":
        combos = [c for c in combos if (c[0] + c[1]) % 2 == 0 and c[1] < 2]
    for sp, g, cm in combos:
        dx, dy, _hc, _hi = NONDYADIC[sp]
        nx, ny = NONDYADIC_GRIDS[g]
        pk = (sp + g) % len(PROFILES)
        nz = nz_of(pk)
        top = resolved_level(pk, nz - 1, nx, ny, dx, dy, 0.0, [512, 512])
        for t in range(1, max(nx, ny)):
            im, jm = t % nx, t % ny
            common = dict(nx=nx, ny=ny, dx=dx, dy=dy,
                          modes=[512, 512] if t % 3 else [nx - 4, ny - 2],
                          level=(top, max(1, top // 2), 1)[t % 3], prof=PROFILES[pk], coord=cm)
            yield "tower-roll", dict(common, im=0, jm=0, sx=im, sy=jm, wrap=True)
            yield "point-reflection", dict(common, halo=0.0, im=im, jm=jm)

    def shift(n):
        return rng.choice([0, 1, -1, 2, n // 2, n - 1, -(n - 1), rng.randint(-n, n), n + 1])

    for _ in range(n_each):
        p, _h = base("zero")
        p.update(sx=shift(p["nx"]), sy=shift(p["ny"]),
                 im=rng.choice([0, rng.randint(0, p["nx"] - 1)]),
                 jm=rng.choice([0, rng.randint(0, p["ny"] - 1)]),
                 src=rng.choice(["random", "sparse"]), seed=rng.randint(0, 2 ** 31 - 1),
                 bg=rng.choice([0.0, 1.5]))
        yield "source-roll", p

        p, _h = base("zero")
        p.update(sx=shift(p["nx"]), sy=shift(p["ny"]), im=rng.randint(0, p["nx"] - 1),
                 jm=rng.randint(0, p["ny"] - 1), wrap=True)
        yield "tower-roll", p

        p, h = base(rng.choice(["none", "comm", "incomm"]))
        nx, ny = p["nx"], p["ny"]
        im, jm = rng.randint(0, nx - 1), rng.randint(0, ny - 1)
        p.update(halo=h, im=im, jm=jm, sx=rng.randint(-im, nx - 1 - im),
                 sy=rng.randint(-jm, ny - 1 - jm))
        yield "tower-shift-halo", p

        p, h = base(rng.choice(["zero", "zero", "none", "comm", "incomm"]))
        p.update(halo=h, im=rng.randint(0, p["nx"] - 1), jm=rng.randint(0, p["ny"] - 1))
        yield "point-reflection", p

        p, h = base(rng.choice(["zero", "zero", "none", "comm", "incomm"]), even=True)
        im, jm = rng.randint(0, p["nx"] - 1), rng.randint(0, p["ny"] - 1)
        if im == 0 and jm == 0:
            im = 1
        p.update(halo=h, im=im, jm=jm, src=rng.choice(["random", "sparse"]),
                 seed=rng.randint(0, 2 ** 31 - 1), bg=rng.choice([0.0, 1.5]))
        yield "recentre", p


if __name__ == "__main__":
    S.main(generate)
