"""C13 bounded stand-in: the config-driven single run equals the explicit pipeline.

kind "pipeline": a raw configuration dictionary (the JSON parameters ARE the configuration),
a tower index, a time index and an optional user flux.  The real
`parse_config_dict` + `run_bldfm_single` is compared with the documented low-level pipeline
written out by hand FROM THE RAW DICTIONARY (so a parser default, a dropped option, a wrong
index, exchanged x/y or nx/ny, a changed z0/ustar precedence or default level all show):

    (u, v)  = compute_wind_fields(speed_i, dir_i)
    (z, P)  = vertical_profiles(n=nz, meas_height=tower.z_m, wind=(u, v), mol=mol_i,
                                closure=..., z0=z0 if given else ustar=ustar_i)
    q0      = supplied flux or ideal_source((nx, ny), (xmax, ymax), src_loc=..., shape=...)
    levels  = output_levels if given, else 0..nz if full_output, else nz
    result  = steady_state_transport_solver(q0, z, P, (xmax, ymax), levels, modes=...,
                  meas_pt=(tower.x, tower.y), footprint=..., analytic=..., halo=...,
                  precision=...)

Both sides run in this process with one thread, so equality is exact (np.array_equal);
tower_name, tower_xy (= latlon_to_xy of the tower against ref_lat/ref_lon, or (0, 0) without
a reference), timestamp and the step's parameters are compared as well, and neither the
configuration nor the supplied flux may be changed by the run.

kind "yaml-equals-dict": the dictionary dumped with yaml.safe_dump and read back with
`load_config` equals `parse_config_dict(dictionary)` (dataclass equality).

Deliberately outside the family (other properties' defects, identical on both sides anyway):
unsorted or empty output_levels, analytic with several levels, odd mode gaps.
"""
import copy
import os
import sys
import tempfile

sys.path.insert(0, os.path.dirname(os.path.abspath(__file__)))
from _common import Suite, Verdict, default_profiles, relerr  # noqa: E402,F401

import numpy as np  # noqa: E402

S = Suite(
    "C13",
    what="run_bldfm_single(parse_config_dict(raw), tower, i, flux) against the hand-written "
         "wind -> profiles -> source -> solver pipeline built from the raw dictionary; YAML "
         "file against dictionary",
    bound="random and hand-picked configurations over closures MOST/MOSTM/CONSTANT, "
          "single/double/default precision, footprint/dispersion, analytic (CONSTANT), "
          "default/None/explicit (incl. an explicit 0) halo and modes, output_levels / full_output / default level, "
          "ustar / z0 / both, scalar and list forcing, 1-3 towers (different heights, lat/lon, "
          "with and without reference, reference origins on the equator / Greenwich meridian), "
          "every time index of 1-3 steps, ideal and user flux; sequences of 3-4 configurations "
          "in one process differing in src_loc / flux shape / domain only; one YAML path rewritten with three "
          "contents and re-loaded, the earlier result modified in between; "
          "grids <= 20x16, nz <= 8; quick 40 configurations, thorough 400",
    rule="np.array_equal on grid, conc, flx; == on tower_name, tower_xy, timestamp, step "
         "parameters; dataclass == for YAML against dictionary",
)

_R_EARTH = 6_371_000.0


# --------------------------------------------------------------------------- the hand pipeline
def _pick(v, i):
    return v[i] if isinstance(v, list) else v


def expected(raw, ti, mi, flux, moved=None):
    from bldfm.utils import compute_wind_fields, ideal_source
    from bldfm.pbl_model import vertical_profiles
    from bldfm.solver import steady_state_transport_solver
    from bldfm.config_parser import latlon_to_xy

    dom = raw["domain"]
    met = raw["met"]
    sol = raw.get("solver") or {}
    tw = raw["towers"][ti]

    speed = _pick(met.get("wind_speed", 5.0), mi)
    wdir = _pick(met.get("wind_dir", 270.0), mi)
    mol = _pick(met.get("mol", 1e9), mi)
    ustar = _pick(met.get("ustar"), mi)
    z0 = met.get("z0")
    stamps = met.get("timestamps")
    stamp = stamps[mi] if stamps is not None else mi

    if dom.get("ref_lat") is not None and dom.get("ref_lon") is not None:
        xy = latlon_to_xy(tw["lat"], tw["lon"], dom["ref_lat"], dom["ref_lon"])
    else:
        xy = (0.0, 0.0)
    if moved is not None:
        xy = (float(moved[0]), float(moved[1]))

    u, v = compute_wind_fields(speed, wdir)
    forcing = dict(z0=z0) if z0 is not None else dict(ustar=ustar)
    z, prof = vertical_profiles(n=dom["nz"], meas_height=tw["z_m"], wind=(u, v), mol=mol,
                                closure=sol.get("closure", "MOST"), **forcing)
    size = (float(dom["xmax"]), float(dom["ymax"]))
    if flux is None:
        src_loc = sol.get("src_loc")
        q0 = ideal_source((dom["nx"], dom["ny"]), size,
                          src_loc=None if src_loc is None else tuple(src_loc),
                          shape=sol.get("surface_flux_shape", "diamond"))
    else:
        q0 = flux
    if dom.get("output_levels"):
        levels = list(dom["output_levels"])
    elif dom.get("full_output", False):
        levels = list(range(dom["nz"] + 1))
    else:
        levels = dom["nz"]
    grid, conc, flx = steady_state_transport_solver(
        q0, z, prof, size, levels,
        modes=tuple(dom.get("modes", [512, 512])), meas_pt=(xy[0], xy[1]),
        footprint=sol.get("footprint", False), analytic=sol.get("analytic", False),
        halo=dom.get("halo"), precision=sol.get("precision", "single"))
    step = dict(ustar=ustar, mol=mol, wind_speed=speed, wind_dir=wdir, timestamp=stamp)
    if z0 is not None:
        step["z0"] = z0
    return dict(grid=grid, conc=conc, flx=flx, tower_name=tw["name"], tower_xy=(xy[0], xy[1]),
                timestamp=stamp, params=step)


def _flux(spec):
    if spec is None:
        return None
    rng = np.random.default_rng(spec["seed"])
    q = rng.random((spec["ny"], spec["nx"]))
    q[rng.random(q.shape) < 0.4] = 0.0
    return q


def _same(a, b):
    a = np.asarray(a)
    b = np.asarray(b)
    return a.shape == b.shape and np.array_equal(a, b, equal_nan=True)


@S.kind("pipeline")
def pipeline(raw, tower, met_index, flux=None, moved=None):
    import bldfm.config as cfg
    from bldfm.config_parser import parse_config_dict
    from bldfm.interface import run_bldfm_single
    cfg.NUM_THREADS = 1
    raw0 = copy.deepcopy(raw)
    config = parse_config_dict(raw)
    config0 = copy.deepcopy(config)
    q_user = _flux(flux)
    q_keep = None if q_user is None else q_user.copy()
    tw_obj = config.towers[tower]
    if moved is not None:
        # a tower whose local coordinates were set by hand (a relocated mast: `dataclasses.replace(tower, x=..., y=...)`):
        # "the tower's local coordinates as measurement point" are the ones it carries
        import dataclasses
        tw_obj = dataclasses.replace(tw_obj, x=float(moved[0]), y=float(moved[1]))
    got = run_bldfm_single(config, tw_obj, met_index, q_user)
    if moved is not None and (tw_obj.x, tw_obj.y) != (float(moved[0]), float(moved[1])):
        return Verdict(False, "run_bldfm_single moved the tower it was given: (%r, %r) -> (%r, %r)" % (moved[0], moved[1], tw_obj.x, tw_obj.y),
                       key="tower-moved")
    want = expected(raw0, tower, met_index, None if q_keep is None else q_keep.copy(), moved=moved)

    bad = []
    for i, nm in enumerate("XYZ"):
        if not _same(got["grid"][i], want["grid"][i]):
            bad.append("grid." + nm)
    for k in ("conc", "flx"):
        if not _same(got[k], want[k]):
            bad.append("%s (shape %s vs %s, rel %.3g)"
                       % (k, np.shape(got[k]), np.shape(want[k]), relerr(got[k], want[k])))
    if got["tower_name"] != want["tower_name"]:
        bad.append("tower_name %r vs %r" % (got["tower_name"], want["tower_name"]))
    if tuple(got["tower_xy"]) != tuple(want["tower_xy"]):
        bad.append("tower_xy %r vs %r" % (got["tower_xy"], want["tower_xy"]))
    if got["timestamp"] != want["timestamp"]:
        bad.append("timestamp %r vs %r" % (got["timestamp"], want["timestamp"]))
    for k, v in want["params"].items():
        if k not in got["params"] or got["params"][k] != v:
            bad.append("params[%s] %r vs %r" % (k, got["params"].get(k, "<absent>"), v))
    if bad:
        return Verdict(False, "single run differs from the hand pipeline in: " + "; ".join(bad),
                       key="single-run-differs-from-pipeline")
    if config != config0 or raw != raw0:
        return Verdict(False, "run_bldfm_single changed the configuration",
                       key="config-mutated")
    if q_user is not None and not np.array_equal(q_user, q_keep):
        return Verdict(False, "run_bldfm_single changed the supplied flux", key="flux-mutated")
    f = np.asarray(want["flx"])
    c = np.asarray(want["conc"])
    nontrivial = bool(np.all(np.isfinite(f)) and np.all(np.isfinite(c)) and np.max(np.abs(f)) > 0)
    return Verdict(True, "equal: flx shape %s, max %.3g; tower %s xy=(%.2f, %.2f), step %d"
                   % (f.shape, float(np.max(np.abs(f))) if nontrivial else float("nan"),
                      want["tower_name"], want["tower_xy"][0], want["tower_xy"][1], met_index),
                   nontrivial=nontrivial)


@S.kind("pipeline-sequence")
def pipeline_sequence(raws, tower=0, met_index=0):
    """The statement holds 'for any valid configuration' - also for the second and third
    configuration run by one process.  `raws` are run one after the other (same tower and time
    index); each is compared with the hand pipeline exactly like kind "pipeline".  The members
    differ in ONE option (src_loc, flux shape, domain size ...), so anything the interface keeps
    from an earlier configuration shows in a later member."""
    for k, raw in enumerate(raws):
        v = pipeline(raw, tower, met_index, None)
        if not v.ok:
            first = k == 0
            return Verdict(False, "configuration %d of %d in this process: %s"
                           % (k + 1, len(raws), v.detail),
                           key=v.key if first else "later-configuration-differs-from-pipeline")
    return Verdict(True, "%d configurations in sequence, each equal to its pipeline" % len(raws),
                   nontrivial=len(raws) > 1)


@S.kind("yaml-equals-dict")
def yaml_equals_dict(raw):
    import yaml
    from bldfm.config_parser import load_config, parse_config_dict
    fd, path = tempfile.mkstemp(suffix=".yaml", dir=os.getcwd())
    try:
        with os.fdopen(fd, "w") as f:
            yaml.safe_dump(raw, f)
        a = load_config(path)
        b = parse_config_dict(copy.deepcopy(raw))
        c = load_config(str(path))
    finally:
        os.unlink(path)
    ok = (a == b) and (a == c)
    detail = "equal (%d towers, %d steps)" % (len(b.towers), b.met.n_timesteps)
    if not ok:
        diff = [k for k in ("domain", "towers", "met", "solver", "output", "parallel")
                if getattr(a, k) != getattr(b, k)]
        detail = "YAML and dictionary differ in " + ", ".join(diff)
    return Verdict(ok, detail, key="yaml-differs-from-dict")


@S.kind("yaml-history")
def yaml_history(raws):
    """The SAME path is rewritten with other contents and loaded again (and the object returned by an earlier load is
    modified in between): every load must equal the dictionary currently in the file."""
    import yaml
    from bldfm.config_parser import load_config, parse_config_dict
    fd, path = tempfile.mkstemp(suffix=".yaml", dir=os.getcwd())
    os.close(fd)
    try:
        for k, raw in enumerate(raws):
            with open(path, "w") as f:
                yaml.safe_dump(raw, f)
            a = load_config(path)
            b = parse_config_dict(copy.deepcopy(raw))
            if a != b:
                diff = [x for x in ("domain", "towers", "met", "solver", "output", "parallel") if getattr(a, x) != getattr(b, x)]
                return Verdict(False, "load %d of the same path (file rewritten%s): differs from the dictionary in the file in %s"
                               % (k, " / earlier result modified" if k else "", ", ".join(diff)), key="yaml-load-depends-on-history")
            # the caller is free to modify what it got
            a.domain.nx = a.domain.nx + 2
            a.met.wind_speed = 99.0
            a.towers[0].z_m = a.towers[0].z_m + 1.0
            # ... also in place: the list-valued fields of what it got are its own lists
            for fld in ("ustar", "mol", "wind_dir", "timestamps"):
                v = getattr(a.met, fld, None)
                if isinstance(v, list) and v:
                    v[0] = (v[0] + 7.0) if isinstance(v[0], (int, float)) else "edited"
                    v.reverse()
            lv = getattr(a.domain, "output_levels", None)
            if isinstance(lv, list) and lv:
                lv.reverse()
                lv[0] = 0
            c = load_config(path)
            if c != b:
                return Verdict(False, "load %d repeated after the caller modified the first result: differs from the dictionary in the file" % k,
                               key="yaml-load-depends-on-history")
    finally:
        os.unlink(path)
    return Verdict(True, "%d contents through one path" % len(raws), nontrivial=len(raws) > 1)


# -------------------------------------------------------------------------------- generator
def _tower(name, x, y, zm, ref_lat, ref_lon):
    """lat/lon such that the local coordinates are about (x, y) metres."""
    import math
    lat = ref_lat + math.degrees(y / _R_EARTH)
    lon = ref_lon + math.degrees(x / (_R_EARTH * math.cos(math.radians(ref_lat))))
    return dict(name=name, lat=round(lat, 7), lon=round(lon, 7), z_m=zm)


def random_config(rng, force=None):
    force = force or {}

    def ch(key, options):
        return force[key] if key in force else rng.choice(options)

    nx = ch("nx", [12, 16, 20])
    ny = ch("ny", [12, 16])
    xmax = ch("xmax", [120, 160.0, 100.0])
    ymax = ch("ymax", [90.0, 120, 75.0])
    nz = ch("nz", [4, 6, 8])
    dom = dict(nx=nx, ny=ny, xmax=xmax, ymax=ymax, nz=nz)
    closure = ch("closure", ["MOST", "MOSTM", "CONSTANT", None])
    analytic = ch("analytic", [False, False, True]) if closure == "CONSTANT" else False

    halo = ch("halo", ["absent", None, 40.0, 30, 55.5, 0, 0.0])
    if halo != "absent":
        dom["halo"] = halo
    modes = ch("modes", ["absent", [16, 16], [24, 16], [12, 20], [32, 32]])
    if modes != "absent":
        dom["modes"] = list(modes)
    lv = ch("levels", ["default", "one", "three", "full", "full-false", "none"])
    if analytic and lv in ("three", "full"):
        lv = "one"
    if lv == "one":
        dom["output_levels"] = [rng.randrange(1, nz + 1)]
    elif lv == "three":
        dom["output_levels"] = sorted(rng.sample(range(0, nz + 1), 3))
    elif lv == "full":
        dom["full_output"] = True
    elif lv == "full-false":
        dom["full_output"] = False
    elif lv == "none":
        dom["output_levels"] = None

    ref = ch("ref", [True, True, True, False])
    # incl. reference origins ON the equator / the Greenwich meridian (0.0 and integer 0 are
    # ordinary coordinates, not "missing")
    ref_lat, ref_lon = ch("origin", [(50.95, 11.586), (-33.4, 151.2), (0.5, -60.0),
                                      (0.0, 37.3), (51.4779, 0.0), (0, 0), (-12.5, 0)])
    if ref:
        dom["ref_lat"], dom["ref_lon"] = ref_lat, ref_lon
    nt = ch("n_towers", [1, 2, 3])
    names = rng.sample(["T2", "alpha", "T0", "mast-b", "T1"], nt)
    towers = []
    for nm in names:
        towers.append(_tower(nm, rng.uniform(0.1, 0.9) * float(xmax),
                             rng.uniform(0.1, 0.9) * float(ymax),
                             rng.choice([3.0, 4.5, 6.0, 8.0, 10]), ref_lat, ref_lon))

    n = ch("n_steps", [1, 2, 3])
    as_list = ch("lists", ["scalars", "all", "mixed"]) if n > 1 else ch("lists1", ["scalars", "all1"])

    def series(options, listed):
        if listed:
            return [rng.choice(options) for _ in range(n)]
        return rng.choice(options)

    def listed():
        return as_list in ("all", "all1") or (as_list == "mixed" and rng.random() < 0.5)

    mols = [-50.0, -200.0, 80.0, 300.0] + ([] if closure == "MOSTM" else [1e9])
    forcing = ch("forcing", ["ustar", "ustar", "z0", "both"])
    met = {}
    if forcing in ("ustar", "both"):
        # a multi-step series is announced by a list in ustar or wind_speed (C16 is separate)
        met["ustar"] = series([0.25, 0.4, 0.55], listed() or (n > 1 and as_list != "scalars"))
    if forcing in ("z0", "both"):
        met["z0"] = rng.choice([0.03, 0.1, 0.2])
    if rng.random() < 0.85:
        met["mol"] = series(mols, listed())
    elif closure == "MOSTM":
        met["mol"] = -120.0
    if rng.random() < 0.85 or (forcing == "z0" and n > 1):
        met["wind_speed"] = series([2.5, 4.0, 6.0],
                                   listed() or (forcing == "z0" and n > 1 and as_list != "scalars"))
    if rng.random() < 0.85:
        met["wind_dir"] = series([200.0, 270.0, 315.0, 45.0, 100], listed())
    lens = {len(v) for v in met.values() if isinstance(v, list)}
    n_eff = lens.pop() if lens else 1
    if rng.random() < 0.5:
        met["timestamps"] = ["2024-06-%02dT%02d:30:00" % (1 + k, 3 * k) for k in range(n_eff)]

    raw = dict(domain=dom, towers=towers, met=met)
    sol = {}
    if closure is not None:
        sol["closure"] = closure
    prec = ch("precision", ["single", "double", "absent"])
    if prec != "absent":
        sol["precision"] = prec
    fp = ch("footprint", [True, False, "absent"])
    if fp != "absent":
        sol["footprint"] = fp
    if analytic or rng.random() < 0.2:
        sol["analytic"] = analytic
    shape = ch("shape", ["absent", "diamond", "circle", "point"])
    if shape != "absent":
        sol["surface_flux_shape"] = shape
    if rng.random() < 0.4:
        sol["src_loc"] = [round(rng.uniform(0.3, 0.7) * float(xmax), 1),
                          round(rng.uniform(0.3, 0.7) * float(ymax), 1)]
    section = ch("solver_section", ["dict", "dict", "dict", "absent-if-empty"])
    if sol or section == "dict":
        raw["solver"] = sol
    if rng.random() < 0.3:
        raw["parallel"] = dict(num_threads=1, max_workers=rng.choice([1, 2]), use_cache=False)
    if rng.random() < 0.3:
        raw["output"] = dict(format="netcdf", directory="./out")
    return raw, n_eff


_CORNERS = [
    dict(closure="CONSTANT", analytic=True, levels="default", footprint=False, precision="double"),
    dict(closure="CONSTANT", analytic=True, levels="one", footprint=True, halo=40.0),
    dict(closure="MOSTM", forcing="z0", n_steps=3, lists="all", n_towers=3, ref=True),
    dict(closure="MOST", forcing="both", n_steps=2, lists="mixed", levels="three", footprint=True),
    dict(closure=None, halo="absent", modes="absent", levels="default", precision="absent",
         footprint="absent", shape="absent", solver_section="absent-if-empty", n_steps=1,
         lists1="scalars"),
    dict(closure="MOST", levels="full", n_towers=2, n_steps=3, lists="all", footprint=True,
         halo=None, modes=[24, 16]),
    dict(closure="MOST", ref=False, n_towers=2, footprint=False, n_steps=2, lists="scalars"),
    dict(closure="MOSTM", footprint=True, precision="single", halo=30, modes=[12, 20],
         n_steps=1, lists1="all1"),
    dict(closure="MOST", ref=True, origin=(0.0, 37.3), n_towers=2, footprint=True),
    dict(closure="MOST", ref=True, origin=(51.4779, 0.0), n_towers=2, footprint=False),
    dict(closure="MOSTM", ref=True, origin=(0, 0), n_towers=1, footprint=True),
    # an explicit zero halo (plain periodic domain) is not "no halo given"
    dict(closure="MOST", halo=0, footprint=True, n_towers=1),
    dict(closure="MOST", halo=0.0, footprint=False, n_towers=2),
]


def _sequences(rng):
    """Members differ in one solver/domain option that only enters through the surface flux or
    the grid; dispersion mode (where the source values matter) and footprint mode."""
    for fp in (False, True):
        raw, _n = random_config(rng, dict(closure="MOST", footprint=fp, levels="default",
                                          n_towers=1, n_steps=1, lists1="scalars", ref=True,
                                          shape="diamond", nx=16, ny=12, xmax=160.0, ymax=90.0))
        raw.setdefault("solver", {})
        raw["solver"].pop("src_loc", None)

        def variant(**sol):
            r = copy.deepcopy(raw)
            for k, v in sol.items():
                if k in ("nx", "xmax"):
                    r["domain"][k] = v
                elif v is None:
                    r["solver"].pop(k, None)
                else:
                    r["solver"][k] = v
            return r
        yield [variant(), variant(src_loc=[40.0, 30.0]), variant(src_loc=[110.0, 60.0]), variant()]
        yield [variant(src_loc=[100.0, 20.0]), variant(src_loc=[100.0, 20.0], surface_flux_shape="circle"),
               variant(src_loc=[50.0, 45.0], surface_flux_shape="circle")]
        yield [variant(src_loc=[60.0, 40.0]), variant(src_loc=[60.0, 40.0], xmax=120.0),
               variant(src_loc=[60.0, 40.0], nx=20)]


def generate(tier, rng):
    n_cfg = 400 if tier == "thorough" else 40
    for rep in range(3 if tier == "thorough" else 1):
        for raws in _sequences(rng):
            yield "pipeline-sequence", dict(raws=raws)
    prev = None
    for k in range(n_cfg):
        force = _CORNERS[k] if k < len(_CORNERS) else None
        raw, n = random_config(rng, force)
        yield "yaml-equals-dict", dict(raw=raw)
        if prev is not None and k % 4 == 1:
            yield "yaml-history", dict(raws=[prev, raw, prev])
        prev = raw
        dom = raw["domain"]
        for ti in range(len(raw["towers"])):
            for mi in range(n):
                r = rng.random()
                if r < 0.6:
                    flux = None
                elif r < 0.85:
                    flux = dict(seed=rng.randrange(10 ** 6), ny=dom["ny"], nx=dom["nx"])
                else:  # a user field need not have the configured size
                    flux = dict(seed=rng.randrange(10 ** 6), ny=dom["ny"] + 2, nx=dom["nx"] - 4)
                yield "pipeline", dict(raw=raw, tower=ti, met_index=mi, flux=flux)
                if mi == 0 and ti == 0 and raw["domain"].get("ref_lat") is not None:
                    yield "pipeline", dict(raw=raw, tower=ti, met_index=mi, flux=flux,
                                           moved=[round(0.3 * float(dom["xmax"]), 2), round(0.6 * float(dom["ymax"]), 2)])


if __name__ == "__main__":
    S.main(generate)
