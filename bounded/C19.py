"""C19 - the Kormann-Meixner reference equals its published closed form for all inputs.

Native replay oracle.  The closed form below is written from Kormann & Meixner (2001),
independently of the code (log-space evaluation, other operation order):

    phi_m = (1-16 z/L)^(-1/4) | 1+5 z/L         phi_c = (1-16 z/L)^(-1/2) | 1+5 z/L     (33,34)
    psi_m = -2 ln((1+s)/2) - ln((1+s^2)/2) + 2 atan(s) - pi/2, s = 1/phi_m  | 5 z/L     (35)
    m = u* phi_m/(k u)       n = (1-24 z/L)/(1-16 z/L) | 1/(1+5 z/L)                    (36)
    kappa = k u* z/(phi_c z^n)      U = [u*/k (ln(z/z0) + psi_m)] / z^m                 (11,31,32)
    r = 2+m-n    mu = (1+m)/r    xi = U z^r/(r^2 kappa)                                 (19)
    f(x) = xi^mu e^(-xi/x) / (Gamma(mu) x^(1+mu))                                       (21)
    ubar(x) = Gamma(mu)/Gamma(1/r) (r^2 kappa/U)^(m/r) U x^(m/r)                        (18)
    sigma = sigma_v x/ubar     D = e^(-y^2/2 sigma^2)/(sqrt(2 pi) sigma)                (9)
    cell = f(x) D(x,y) res^2  for x > 0 (upwind), 0 otherwise
    mass upwind of X:  int_0^X f = Q(mu, xi/X)  (regularised upper incomplete gamma)

With a wind direction wd (clockwise from +Y, where the wind comes from) the along-wind
coordinate of a cell at (X, Y) relative to the receptor is X sin wd + Y cos wd and the cross-wind
coordinate -X cos wd + Y sin wd.
"""
import math
import os
import sys

sys.path.insert(0, os.path.dirname(__file__))
from _common import Suite, Verdict  # noqa: E402

S = Suite(
    "C19",
    what="ffm_kormann_meixner.estimateFootprint / estimateZ0 against the closed form of Kormann & "
         "Meixner (2001) written independently (scipy gammaln / gammaincc)",
    bound="zm 2..40 m, z0/zm 1e-3..0.1, u* 0.1..0.8, |L| 5..1e9 both signs and exactly +-inf, wind speed from the "
          "diabatic log law or perturbed by +-30 %, sigma_v 0.2..2.4, grids <= 1.5e6 cells, res "
          "0.5..8 m, receptor on/off cell centres, wd None / multiples of 90 / arbitrary; argument "
          "types float, int, numpy int64/int32/float32->float64 for integral values; estimateZ0 on "
          "20..400 observations, half window 5/22/45, rotations by whole degrees with wind "
          "directions on a 1/8-degree lattice; call histories (base conditions followed by 9 near-twins differing in one "
          "argument: sigma_v, z0, ws, u*, L, zm, res, receptor); U < 0 (empty footprint path) not examined",
    rule="cell by cell |got-want| <= 1e-9*want + 1e-25*max(want); exact zero downwind; mass within "
         "3 / 1 / 0.5 / 0.3 % of Q(mu, xi/X) at res 8/4/2/1 for plumes resolved at 8 m",
)

K = 0.4


# ----------------------------------------------------------------------------- the closed form
def km_params(zm, z0, ws, ustar, L):
    zm, z0, ws, ustar, L = float(zm), float(z0), float(ws), float(ustar), float(L)
    zl = zm / L
    if L < 0:
        phi_m = (1.0 - 16.0 * zl) ** -0.25
        phi_c = (1.0 - 16.0 * zl) ** -0.5
        s = 1.0 / phi_m
        psi_m = (-2.0 * math.log((1 + s) / 2) - math.log((1 + s * s) / 2)
                 + 2.0 * math.atan(s) - math.pi / 2)
        n = (1.0 - 24.0 * zl) / (1.0 - 16.0 * zl)
    else:
        phi_m = phi_c = 1.0 + 5.0 * zl
        psi_m = 5.0 * zl
        n = 1.0 / (1.0 + 5.0 * zl)
    m = ustar * phi_m / (K * ws)
    kappa = K * ustar * zm / (phi_c * zm ** n)
    U = ustar / K * (math.log(zm / z0) + psi_m) / zm ** m
    r = 2.0 + m - n
    mu = (1.0 + m) / r
    xi = U * zm ** r / (r * r * kappa)
    return dict(m=m, n=n, kappa=kappa, U=U, r=r, mu=mu, xi=xi, psi_m=psi_m)


def km_sigma(p, sigma_v, x):
    """Crosswind spread at upwind distance x (scalar or array)."""
    import numpy as np
    from scipy.special import gammaln
    m, r, kappa, U, mu = p["m"], p["r"], p["kappa"], p["U"], p["mu"]
    log_ubar = (gammaln(mu) - gammaln(1.0 / r) + (m / r) * math.log(r * r * kappa / U)
                + math.log(U) + (m / r) * np.log(x))
    return sigma_v * x / np.exp(log_ubar)


def km_cells(p, sigma_v, x, y, res):
    """Footprint weights of cells with along-wind / cross-wind coordinates x, y (arrays)."""
    import numpy as np
    from scipy.special import gammaln
    out = np.zeros(np.shape(x))
    up = x > 0
    xu, yu = x[up], y[up]
    mu, xi = p["mu"], p["xi"]
    sig = km_sigma(p, float(sigma_v), xu)
    logf = mu * math.log(xi) - xi / xu - gammaln(mu) - (1.0 + mu) * np.log(xu)
    logD = -0.5 * (yu / sig) ** 2 - 0.5 * math.log(2 * math.pi) - np.log(sig)
    with np.errstate(under="ignore"):
        out[up] = np.exp(logf + logD + 2.0 * math.log(res))
    return out


def _centres(dom, res):
    import numpy as np
    xmin, xmax, ymin, ymax = dom
    nx = int(math.ceil((xmax - (xmin + 0.5 * res)) / res - 1e-9))
    ny = int(math.ceil((ymax - 0.5 * res - ymin) / res - 1e-9))
    xc = xmin + 0.5 * res + res * np.arange(nx)
    yc = ymax - 0.5 * res - res * np.arange(ny)
    return np.meshgrid(xc, yc)


def _compare(got, want, tag, key, rtol=1e-9):
    import numpy as np
    if np.shape(got) != np.shape(want):
        return Verdict(False, "%s: shape %r, expected %r" % (tag, np.shape(got), np.shape(want)),
                       key="grid-shape")
    got = np.asarray(got, dtype=float)
    if not np.all(np.isfinite(got)):
        return Verdict(False, "%s: non-finite values" % tag, key=key)
    if np.any(got < 0):
        return Verdict(False, "%s: negative weight %r" % (tag, float(got.min())), key="negative")
    atol = 1e-25 * float(np.max(want)) if np.max(want) > 0 else 0.0
    bad = np.abs(got - want) > rtol * np.abs(want) + atol
    if np.any(bad):
        j, i = [int(v[0]) for v in np.nonzero(bad)]
        worst = float(np.max(np.abs(got - want)))
        return Verdict(False, "%s: %d of %d cells differ from the closed form; e.g. cell (%d,%d): "
                       "%r vs %r; max |diff| %.3e, closed-form max %.3e"
                       % (tag, int(bad.sum()), bad.size, j, i, float(got[j, i]),
                          float(want[j, i]), worst, float(np.max(want))), key=key)
    return None


# ----------------------------------------------------------------------------- kinds
@S.kind("closed-form")
def closed_form(zm, z0, ws, ustar, L, sigma_v, dom, res, mxy):
    """Along-wind grid (wd=None): cell by cell, zero downwind, non-negative, y-symmetric."""
    import numpy as np
    from bldfm.ffm_kormann_meixner import estimateFootprint
    p = km_params(zm, z0, ws, ustar, L)
    if not p["U"] > 0:
        return Verdict(True, "U<=0: outside the quantifier", nontrivial=False)
    gx, gy, ffm = estimateFootprint(zm, z0, ws, ustar, L, sigma_v, dom, res, mxy)
    X, Y = _centres(dom, res)
    if np.shape(gx) != X.shape or np.max(np.abs(gx - X)) > 1e-9 * res \
            or np.max(np.abs(gy - Y)) > 1e-9 * res:
        return Verdict(False, "grid is not the cell centres of %r at res %r: shape %r vs %r"
                       % (dom, res, np.shape(gx), X.shape), key="grid-centres")
    x, y = gx - mxy[0], gy - mxy[1]
    want = km_cells(p, sigma_v, x, y, res)
    tag = "zm=%r z0=%r ws=%r u*=%r L=%r sv=%r" % (zm, z0, ws, ustar, L, sigma_v)
    bad = _compare(ffm, want, tag, "closed-form")
    if bad:
        return bad
    if np.any(ffm[x <= 0] != 0.0):
        return Verdict(False, "%s: non-zero weight downwind" % tag, key="downwind-nonzero")
    # symmetry about the wind axis: mirror rows when the receptor's y is a mirror line of the grid
    yy = y[:, 0]
    if np.allclose(yy, -yy[::-1], rtol=0, atol=1e-12 * res):
        if not np.allclose(ffm, ffm[::-1, :], rtol=1e-12, atol=0.0):
            return Verdict(False, "%s: not symmetric about the wind axis" % tag, key="y-asymmetric")
    return Verdict(True, "%s cells=%d max=%.3e" % (tag, ffm.size, float(ffm.max())),
                   nontrivial=bool(ffm.max() > 0))


@S.kind("closed-form-history")
def closed_form_history(base, variants):
    """One process, several calls: the base conditions, then near-twins differing in ONE argument (crosswind spread,
    roughness length, wind speed, friction velocity, stability, height, the integer/float spelling of the same value,
    grid), each judged by the per-call oracle of `closed-form`; then the base again."""
    v0 = closed_form(**base)
    if not v0.ok:
        return v0
    for k, var in enumerate(variants + [{}]):
        v = closed_form(**dict(base, **var))
        if not v.ok:
            return Verdict(False, "call %d after the base call (%r changed): %s" % (k + 1, var or "nothing: base repeated", v.detail),
                           key="history-" + (v.key or "closed-form"))
    return Verdict(True, "%d calls" % (len(variants) + 2))


def _cast(v, t):
    import numpy as np
    return {"float": float, "int": int, "int64": np.int64, "int32": np.int32,
            "float64": np.float64}[t](v)


@S.kind("numeric-types")
def numeric_types(zm, z0, ws, ustar, L, sigma_v, types, dom, res, mxy):
    """'given as integers or floats alike': integral values passed as int / numpy integers."""
    from bldfm.ffm_kormann_meixner import estimateFootprint
    import warnings
    vals = dict(zm=zm, z0=z0, ws=ws, ustar=ustar, L=L, sigma_v=sigma_v)
    args = {k: _cast(v, types.get(k, "float")) for k, v in vals.items()}
    p = km_params(zm, z0, ws, ustar, L)
    with warnings.catch_warnings():
        warnings.simplefilter("ignore")
        gx, gy, ffm = estimateFootprint(args["zm"], args["z0"], args["ws"], args["ustar"],
                                        args["L"], args["sigma_v"], dom, res, mxy)
        _, _, fflt = estimateFootprint(float(zm), float(z0), float(ws), float(ustar), float(L),
                                       float(sigma_v), dom, res, mxy)
    want = km_cells(p, sigma_v, gx - mxy[0], gy - mxy[1], res)
    tag = "types %r (zm=%r z0=%r ws=%r u*=%r L=%r sv=%r)" % (types, zm, z0, ws, ustar, L, sigma_v)
    bad = _compare(fflt, want, "all-float call, " + tag, "closed-form")
    if bad:
        return bad            # not a matter of argument types
    ints = sorted(k for k, t in types.items() if t.startswith("int"))
    key = "integer-zm-truncation" if "zm" in ints else "numeric-type-%s" % "+".join(
        sorted(types) or ["none"])
    bad = _compare(ffm, want, tag, key)
    if bad:
        bad.detail += "; the all-float call agrees with the closed form"
    return bad or Verdict(True, tag)


@S.kind("rotation-90")
def rotation_90(zm, z0, ws, ustar, L, sigma_v, half, res):
    """Square grid centred on the receptor: wd = 90 is the along-wind grid itself, and every
    further quarter turn of the wind direction is a quarter turn of the array."""
    import numpy as np
    from bldfm.ffm_kormann_meixner import estimateFootprint
    dom = [-half, half, -half, half]
    p = km_params(zm, z0, ws, ustar, L)
    _, _, base = estimateFootprint(zm, z0, ws, ustar, L, sigma_v, dom, res, [0.0, 0.0])
    if not base.max() > 0:
        return Verdict(True, "empty", nontrivial=False)
    atol = 1e-25 * float(base.max())
    # rows run north -> south, columns west -> east; np.rot90(a, 1) turns east into north
    for wd, kq in ((90.0, 0), (0.0, 1), (270.0, 2), (180.0, 3), (360.0, 1), (450.0, 0),
                   (-90.0, 2)):
        gx, gy, f = estimateFootprint(zm, z0, ws, ustar, L, sigma_v, dom, res, [0.0, 0.0], wd=wd)
        want = np.rot90(base, kq)
        if f.shape != want.shape or not np.allclose(f, want, rtol=1e-9, atol=atol):
            d = float(np.max(np.abs(f - want))) if f.shape == want.shape else float("nan")
            return Verdict(False, "wd=%r is not the along-wind footprint turned by %d quarter turns: "
                           "max |diff| %.3e of max %.3e" % (wd, kq, d, float(base.max())),
                           key="rotation-90")
        # and the upwind half-plane is where the statement says it is
        th = math.radians(wd)
        along = gx * math.sin(th) + gy * math.cos(th)
        if np.any(f[along < -1e-9 * half] != 0.0) or not f[along > 0].sum() > 0:
            return Verdict(False, "wd=%r: weight on the downwind side" % wd, key="rotation-sense")
    return Verdict(True, "4 quarter turns")


@S.kind("rotation-any")
def rotation_any(zm, z0, ws, ustar, L, sigma_v, dom, res, mxy, wd):
    """Arbitrary wind direction: pointwise against the closed form in rotated coordinates."""
    import numpy as np
    from bldfm.ffm_kormann_meixner import estimateFootprint
    p = km_params(zm, z0, ws, ustar, L)
    gx, gy, f = estimateFootprint(zm, z0, ws, ustar, L, sigma_v, dom, res, mxy, wd=wd)
    X, Y = gx - mxy[0], gy - mxy[1]
    th = math.radians(wd)
    xr = X * math.sin(th) + Y * math.cos(th)
    yr = -X * math.cos(th) + Y * math.sin(th)
    want = km_cells(p, sigma_v, xr, yr, res)
    rho = np.hypot(X, Y)
    edge = np.abs(xr) < 1e-4 * np.maximum(rho, res)      # sign of x undecidable in floats
    f2 = np.where(edge, want, f)
    tag = "wd=%r zm=%r L=%r" % (wd, zm, L)
    bad = _compare(f2, want, tag, "rotation-any")
    if bad:
        return bad
    if np.any(f[xr < -1e-4 * np.maximum(rho, res)] != 0.0):
        return Verdict(False, "%s: non-zero weight downwind" % tag, key="downwind-nonzero")
    return Verdict(True, tag, nontrivial=bool(want.max() > 0))


MASS_TOL = {8.0: 0.03, 4.0: 0.01, 2.0: 0.005, 1.0: 0.003}


@S.kind("mass")
def mass(zm, z0, ws, ustar, L, sigma_v, X, Yh):
    """Sum over the grid -> Q(mu, xi/X) as the grid is refined (res 8, 4, 2, 1)."""
    from scipy.special import gammaincc
    from bldfm.ffm_kormann_meixner import estimateFootprint
    p = km_params(zm, z0, ws, ustar, L)
    # guards of the oracle itself: plume resolved at 8 m, crosswind tails inside the grid
    s4 = float(km_sigma(p, sigma_v, p["xi"] / 4.0))
    sX = float(km_sigma(p, sigma_v, float(X)))
    if min(p["xi"] / 16.0, s4) < 6.0 or Yh < 6.0 * sX:
        return Verdict(True, "not resolved at 8 m / grid too narrow; skipped", nontrivial=False)
    want = float(gammaincc(p["mu"], p["xi"] / X))
    errs = []
    for res in (8.0, 4.0, 2.0, 1.0):
        _, _, f = estimateFootprint(zm, z0, ws, ustar, L, sigma_v, [0.0, X, -Yh, Yh], res,
                                    [0.0, 0.0])
        e = abs(float(f.sum()) / want - 1.0)
        errs.append(e)
        if not e <= MASS_TOL[res]:
            return Verdict(False, "res=%g: sum %.6f vs Q(mu,xi/X)=%.6f (rel %.2e > %.1e); zm=%r "
                           "L=%r xi=%.1f mu=%.3f" % (res, float(f.sum()), want, e, MASS_TOL[res],
                                                     zm, L, p["xi"], p["mu"]), key="mass-limit")
    return Verdict(True, "errs " + " ".join("%.1e" % e for e in errs), measured=errs)


@S.kind("z0-inverse")
def z0_inverse(seed, nobs):
    """Without smoothing estimateZ0 inverts ws = u*/k (ln(zm/z0) + psi_m)."""
    import numpy as np
    from bldfm.ffm_kormann_meixner import estimateZ0
    rs = np.random.RandomState(seed)
    zm = np.exp(rs.uniform(np.log(2), np.log(40), nobs))
    z0 = zm * np.exp(rs.uniform(np.log(1e-3), np.log(0.1), nobs))
    ustar = rs.uniform(0.1, 0.8, nobs)
    L = rs.choice([-1.0, 1.0], nobs) * np.exp(rs.uniform(np.log(5), np.log(1e6), nobs))
    wd = rs.uniform(0, 360, nobs)
    ws = np.empty(nobs)
    for i in range(nobs):
        # the bracket must be positive for a wind to exist; redraw L on the unstable side
        while True:
            psi_m = km_params(zm[i], z0[i], 1.0, ustar[i], L[i])["psi_m"]
            if math.log(zm[i] / z0[i]) + psi_m > 0.3:
                break
            L[i] *= 2.0
        ws[i] = ustar[i] / K * (math.log(zm[i] / z0[i]) + psi_m)
    got = estimateZ0(zm, ws, wd, ustar, L, half_wd_win=0)
    rel = np.abs(np.asarray(got, dtype=float) / z0 - 1.0)
    if not np.all(rel <= 1e-9):
        i = int(np.nanargmax(np.where(np.isnan(rel), np.inf, rel)))
        return Verdict(False, "obs %d: z0 estimate %r, the log law was built with %r (zm=%r ws=%r "
                       "u*=%r L=%r)" % (i, got[i], z0[i], zm[i], ws[i], ustar[i], L[i]),
                       key="z0-not-inverse")
    return Verdict(True, "max rel %.1e" % float(rel.max()))


@S.kind("z0-rotation")
def z0_rotation(seed, nobs, half_win, shift, dense=False):
    """Smoothed estimate: rotating all wind directions by whole degrees changes nothing.
    dense: the directions populate EVERY one-degree bin (nobs/360 observations per bin, shuffled),
    so a window that is not circular at a single bin edge changes some median."""
    import numpy as np
    from bldfm.ffm_kormann_meixner import estimateZ0
    rs = np.random.RandomState(seed)
    zm = rs.uniform(2, 30, nobs)
    ustar = rs.uniform(0.1, 0.8, nobs)
    L = rs.choice([-1.0, 1.0], nobs) * np.exp(rs.uniform(np.log(10), np.log(1e5), nobs))
    ws = rs.uniform(1.0, 9.0, nobs)
    wd = rs.randint(0, 360 * 8, nobs) / 8.0             # exact binary fractions of a degree
    if dense:
        if nobs % 360:
            raise AssertionError("generator: dense needs a multiple of 360 observations")
        per = nobs // 360
        wd = np.repeat(np.arange(360.0), per) + np.tile((np.arange(per) + 0.5) / per, 360)
        wd = np.floor(wd * 8.0) / 8.0
        rs.shuffle(wd)
    import warnings
    wd2 = (wd + shift) % 360.0
    with warnings.catch_warnings():
        warnings.simplefilter("ignore")        # nanmedian of an empty window
        a = np.asarray(estimateZ0(zm, ws, wd.copy(), ustar, L, half_wd_win=half_win), dtype=float)
        b = np.asarray(estimateZ0(zm, ws, wd2.copy(), ustar, L, half_wd_win=half_win),
                       dtype=float)
    same_nan = np.array_equal(np.isnan(a), np.isnan(b))
    ok = same_nan and np.allclose(a[~np.isnan(a)], b[~np.isnan(b)], rtol=1e-12, atol=0.0)
    if not ok:
        d = np.where(np.isnan(a) | np.isnan(b), np.nan, np.abs(a - b))
        i = int(np.nanargmax(d)) if np.any(np.isfinite(d)) else 0
        return Verdict(False, "rotation by %d deg changes the smoothed z0 (window %r): obs %d "
                       "wd=%r: %r -> %r; nan pattern equal: %r"
                       % (shift, half_win, i, wd[i], a[i], b[i], same_nan), key="z0-rotation")
    return Verdict(True, "nobs=%d shift=%d" % (nobs, shift),
                   nontrivial=bool(np.any(np.isfinite(a))))


# ----------------------------------------------------------------------------- generator
def _physical(rng, zm_hi=40.0):
    while True:
        zm = math.exp(rng.uniform(math.log(2.0), math.log(zm_hi)))
        z0 = zm * math.exp(rng.uniform(math.log(1e-3), math.log(0.1)))
        ustar = rng.uniform(0.1, 0.8)
        if rng.random() < 0.15:
            L = rng.choice([1e9, -1e9, 1e5, -1e5])
        else:
            L = rng.choice([-1.0, 1.0]) * math.exp(rng.uniform(math.log(5.0), math.log(1e4)))
        psi_m = km_params(zm, z0, 1.0, ustar, L)["psi_m"]
        br = math.log(zm / z0) + psi_m
        if br < 0.5:
            continue
        ws = ustar / K * br * rng.choice([1.0, 1.0, rng.uniform(0.7, 1.3)])
        sigma_v = rng.uniform(0.2, 2.4)
        return zm, z0, ws, ustar, L, sigma_v


INT_SETS = [
    # zm, z0, ws, ustar, L, sigma_v (all integral where an integer type is tried)
    (10, 0.1, 3, 0.3, -50, 1),        # the witness of the design notes
    (10, 0.1, 3, 0.3, 100, 1),
    (20, 1, 8, 1, -100, 2),
    (5, 0.05, 4, 0.4, 25, 1),
    (3, 0.01, 2, 0.2, -7, 1),
    (30, 0.2, 6, 0.5, 1000000000, 1),
]


def generate(tier, rng):
    q = tier == "quick"
    # ---- closed form on along-wind grids
    for k in range(40 if q else 300):
        zm, z0, ws, ustar, L, sv = _physical(rng)
        res = rng.choice([0.5, 1.0, 2.0, 2.5, 4.0, 8.0])
        nx, ny = rng.randint(8, 60), rng.randint(6, 50)
        if k % 2:
            # receptor on a mirror line of the grid in y, somewhere inside in x
            ny = ny + ny % 2 if k % 4 == 1 else ny
            xmin = -res * rng.randint(0, nx // 2)
            dom = [xmin, xmin + nx * res, -ny * res / 2.0, ny * res / 2.0]
            mxy = [0.0, 0.0]
        else:
            xmin, ymin = rng.uniform(-50, 50), rng.uniform(-50, 50)
            dom = [xmin, xmin + nx * res, ymin, ymin + ny * res]
            mxy = [xmin + rng.uniform(0, 0.5) * nx * res, ymin + rng.uniform(0.2, 0.8) * ny * res]
        scale = rng.choice([1.0, 1.0, 5.0, 20.0])     # also far-field cells (res does not matter)
        if scale != 1.0:
            dom = [v * scale for v in dom]
            mxy = [v * scale for v in mxy]
            res = res * scale
        yield "closed-form", dict(zm=zm, z0=z0, ws=ws, ustar=ustar, L=L, sigma_v=sv, dom=dom,
                                  res=res, mxy=mxy)
    # ---- exact neutrality: L = +inf / -inf (z/L = 0 on either branch)
    for k in range(4 if q else 20):
        zm, z0, ws, ustar, L, sv = _physical(rng)
        res = rng.choice([1.0, 2.0, 4.0])
        nx, ny = rng.randint(8, 30), 2 * rng.randint(4, 12)
        dom = [-res * 2, -res * 2 + nx * res, -ny * res / 2.0, ny * res / 2.0]
        yield "closed-form", dict(zm=zm, z0=z0, ws=ws, ustar=ustar, L=(float("inf"), float("-inf"))[k % 2], sigma_v=sv, dom=dom, res=res,
                                  mxy=[0.0, 0.0])
    # ---- call histories: near-twin conditions in one process
    for k in range(4 if q else 30):
        zm, z0, ws, ustar, L, sv = _physical(rng)
        res = rng.choice([1.0, 2.0, 4.0])
        nx, ny = rng.randint(8, 30), 2 * rng.randint(4, 12)
        dom = [-res * 2, -res * 2 + nx * res, -ny * res / 2.0, ny * res / 2.0]
        base = dict(zm=zm, z0=z0, ws=ws, ustar=ustar, L=L, sigma_v=sv, dom=dom, res=res, mxy=[0.0, 0.0])
        yield "closed-form-history", dict(base=base, variants=[dict(sigma_v=sv * 2.0), dict(sigma_v=sv * 0.999), dict(z0=z0 * 1.01), dict(ws=ws * 1.02),
                                                              dict(ustar=ustar * 0.98), dict(L=L * 1.05), dict(zm=zm * 1.001), dict(res=res * 2.0),
                                                              dict(mxy=[res, 0.0])])
    # ---- integers and floats alike
    names = ("zm", "z0", "ws", "ustar", "L", "sigma_v")
    for vals in INT_SETS:
        integral = [n for n, v in zip(names, vals) if float(v).is_integer()]
        combos = [{}] + [{n: t} for n in integral for t in ("int", "int64", "int32", "float64")]
        combos.append({n: "int" for n in integral})
        combos.append({n: "int64" for n in integral})
        combos.append({n: "int" for n in integral if n != "zm"})
        if q:
            combos = [c for c in combos if not any(t in ("int32", "float64") for t in c.values())]
        for types in combos:
            yield "numeric-types", dict(zm=vals[0], z0=vals[1], ws=vals[2], ustar=vals[3],
                                        L=vals[4], sigma_v=vals[5], types=types,
                                        dom=[-40.0, 400.0, -120.0, 120.0], res=8.0,
                                        mxy=[0.0, 0.0])
    # ---- rotations
    for k in range(6 if q else 40):
        zm, z0, ws, ustar, L, sv = _physical(rng, 20.0)
        res = rng.choice([2.0, 4.0, 5.0])
        half = res * rng.randint(10, 30)
        yield "rotation-90", dict(zm=zm, z0=z0, ws=ws, ustar=ustar, L=L, sigma_v=sv, half=half,
                                  res=res)
    for k in range(24 if q else 240):
        zm, z0, ws, ustar, L, sv = _physical(rng, 20.0)
        res = rng.choice([2.0, 4.0, 5.0])
        nx, ny = rng.randint(20, 50), rng.randint(20, 50)
        xmin, ymin = rng.uniform(-30, 30), rng.uniform(-30, 30)
        dom = [xmin, xmin + nx * res, ymin, ymin + ny * res]
        mxy = [xmin + rng.uniform(0.3, 0.7) * nx * res, ymin + rng.uniform(0.3, 0.7) * ny * res]
        wd = float(15 * k % 360) + (rng.uniform(-7, 7) if k % 3 else 0.0)
        yield "rotation-any", dict(zm=zm, z0=z0, ws=ws, ustar=ustar, L=L, sigma_v=sv, dom=dom,
                                   res=res, mxy=mxy, wd=wd)
    # ---- mass captured within the upwind extent, grid refinement
    want = 4 if q else 24
    made = 0
    while made < want:
        zm, z0, ws, ustar, L, sv = _physical(rng, 20.0)
        p = km_params(zm, z0, ws, ustar, L)
        if not (p["U"] > 0 and 96.0 <= p["xi"] <= 400.0):
            continue
        X = 8.0 * math.ceil(rng.uniform(1.0, 3.0) * p["xi"] / 8.0)
        s4 = float(km_sigma(p, sv, p["xi"] / 4.0))
        sX = float(km_sigma(p, sv, X))
        Yh = 8.0 * math.ceil(6.5 * sX / 8.0)
        if s4 < 6.0 or X * 2 * Yh > 6e5:
            continue
        made += 1
        yield "mass", dict(zm=zm, z0=z0, ws=ws, ustar=ustar, L=L, sigma_v=sv, X=X, Yh=Yh)
    # ---- roughness-length estimate
    for k in range(5 if q else 40):
        yield "z0-inverse", dict(seed=rng.randrange(2 ** 31), nobs=rng.randint(5, 300))
    for k in range(10 if q else 50):
        yield "z0-rotation", dict(seed=rng.randrange(2 ** 31), nobs=rng.choice([20, 100, 400]),
                                  half_win=rng.choice([22, 22, 5, 45]),
                                  shift=rng.choice([1, 7, 45, 90, 133, 180, 271, 359]))
    # every degree bin populated: default window and others, shifts incl. across north
    for k, (hw, sh) in enumerate([(22, 100), (22, 1), (5, 180), (45, 271), (1, 359), (22, 45),
                                  (10, 7), (30, 133)] * (1 if q else 4)):
        yield "z0-rotation", dict(seed=rng.randrange(2 ** 31), nobs=(720, 360, 1080)[k % 3],
                                  half_win=hw, shift=sh, dense=True)


if __name__ == "__main__":
    S.main(generate)
