"""C07 - bounded native stand-in / replay oracle.

Property: the solution respects the symmetries of the PDE
  * mirror in x / y: source mirrored, that wind component negated, tower mirrored
                     -> fields mirrored (apart from Nyquist components);
  * axis swap: source transposed; u<->v, Kx<->Ky, domain extents, mode counts, tower swapped
                     -> fields transposed;
  * similarity (length): domain, heights, halo, tower and all diffusivities times s
                     -> flux and concentration unchanged;
  * similarity (speed): winds and diffusivities times c
                     -> flux unchanged, concentration above background divided by c.

Oracle = the statement, observed through the public API (halo=0.0 for mirrors as `observe_at`
says).  On the periodic grid the mirror about cell 0 is  np.roll(np.flip(a, axis), 1, axis).
The truncated spectrum keeps bin -n/2 without its partner +n/2, so before a mirrored comparison
the rows/columns at |m| = (retained modes)/2 of fft2 of the outputs are removed - exactly the
Nyquist exception of the statement.  Profiles are built by hand with Kx != Ky != Kz and a wind
that veers with height.  Double precision throughout.
"""
import os
import sys

sys.path.insert(0, os.path.dirname(os.path.abspath(__file__)))
from _common import Suite, Verdict, default_profiles, relerr  # noqa: E402,F401

import numpy as np  # noqa: E402

S = Suite(
    "C07",
    what="reflection in x, y and both; axis swap; length and speed similarity; two public solver "
         "calls per case on related inputs",
    bound="grids 6..24 x 6..20 (even with truncated/full modes, odd with clamped modes), dx!=dy, "
          "hand-built anisotropic veering profiles (Kx!=Ky!=Kz, 5 families, nz 6..12; 30 % of the cases with a "
          "subset of the components u, v, Kx, Ky, Kz held constant with height, 12 patterns; 10 % with Kx = Ky at the top node only), random / "
          "sparse sources, footprint and dispersion mode (with and without re-centring), halo 0 "
          "for mirrors, halo 0/None/commensurate/incommensurate for swap, halo 0 / robustly "
          "incommensurate / None (s a power of two) for scalings, factors 1e-6..1e6 (every "
          "decade, stratified) on profiles with Kz(z0) between 3e-3 and 8e-2 m2/s; a sample",
    rule="max|lhs-rhs| <= tol*max|rhs field|, tol = max(1e-9, 1000*eps*exp(G)) with G the rounding "
         "amplification estimate sum Re(lambda) dz below the output level; mirrors compared "
         "after removing the Nyquist / cut-off rows and columns; G>18 counted trivial; speed "
         "scaling: concentration above background, plus 100*eps*|background| representation error",
)

EPS = 2.220446049250313e-16
GMAX = 18.0


def growth(z, profiles, lev, nx, ny, dx, dy, halo, modes):
    u, v, Kx, Ky, Kz = profiles
    h = max(nx * dx, ny * dy) if halo is None else float(halo)
    nxe, nye = nx + 2 * int(h / dx), ny + 2 * int(h / dy)
    nlx, nly = modes
    if nlx > nxe or nly > nye:
        nlx, nly = nxe, nye
    kx = 2.0 * np.pi / (dx * nxe) * np.arange(0, nlx // 2 + 1)
    ky = 2.0 * np.pi / (dy * nye) * np.arange(-(nly // 2), nly // 2 + 1)
    KX, KY = np.meshgrid(kx, ky)
    dz = np.diff(z)
    G = np.zeros_like(KX)
    for i in range(min(int(lev), len(dz))):
        lam = np.sqrt((Kx[i] * KX ** 2 + Ky[i] * KY ** 2 + 1j * (u[i] * KX + v[i] * KY)) / Kz[i] + 0j)
        G += np.abs(lam.real) * dz[i]
    return float(G.max())


def tolerance(G):
    return max(1e-9, 1000.0 * EPS * float(np.exp(min(G, 700.0))))


def make_profiles(spec):
    """Hand-built column: stretched z grid, log-like speed, direction veering with height,
    three different diffusivity profiles."""
    nz = spec["nz"]
    s = np.linspace(0.0, 1.0, nz)
    z0, zt = spec["z0"], spec["ztop"]
    z = z0 + (zt - z0) * s ** spec.get("stretch", 1.0)
    speed = spec["U"] * np.log(1.0 + z / z0) / np.log(1.0 + zt / z0)
    ang = np.deg2rad(spec["wdir"] + spec.get("veer", 0.0) * s)
    K = 0.16 * z + spec.get("kmin", 0.02)
    comps = [speed * np.cos(ang), speed * np.sin(ang),
             spec["ax"] * K * (1.0 + 0.3 * s), spec["ay"] * K * (1.0 - 0.2 * s),
             spec["az"] * K * (1.0 + 0.1 * s * s)]
    # "const": components (0..4 = u, v, Kx, Ky, Kz) held at their mid-column value -- every pattern of
    # height-independent and height-dependent components is a legitimate column
    for k in spec.get("const", ()):
        comps[k] = np.full(nz, float(comps[k][nz // 2]))
    if spec.get("eq_top"):
        # horizontally isotropic at the top node only (Kx = Ky there), anisotropic below: what holds at one node says
        # nothing about the others
        comps[3] = comps[3].copy()
        comps[3][-1] = comps[2][-1]
    return z, tuple(comps)


def make_source(kind, ny, nx, seed):
    rng = np.random.default_rng(seed)
    if kind == "random":
        return rng.random((ny, nx)) - 0.3
    q = np.zeros((ny, nx))
    for _ in range(3):
        q[rng.integers(ny), rng.integers(nx)] += rng.uniform(0.5, 2.0)
    return q


def mirror0(a, axis):
    """Mirror about cell 0 on the periodic grid: index i -> (-i) mod n."""
    return np.roll(np.flip(a, axis=axis), 1, axis=axis)


def drop_bins(a, cols, rows):
    """Remove the given |m| columns and |n| rows of the 2-D spectrum of a real field."""
    ny, nx = a.shape
    F = np.fft.fft2(a)
    for m in cols:
        F[:, m % nx] = 0.0
        F[:, (-m) % nx] = 0.0
    for n in rows:
        F[n % ny, :] = 0.0
        F[(-n) % ny, :] = 0.0
    return np.fft.ifft2(F).real


def cutoff_bins(n, nl, other_exceeds):
    """|index| of the bins the statement excepts on one axis of an n-cell periodic grid when nl
    modes are requested: the unpaired bin at (retained modes)/2.  If the other axis requests
    more modes than it has, the grid Nyquist is excepted as well (harmless over-filtering that
    keeps the oracle independent of how mode counts are clamped)."""
    out = set()
    eff = min(nl, n)
    if eff % 2 == 0:
        out.add(eff // 2)
    if (other_exceeds or nl > n) and n % 2 == 0:
        out.add(n // 2)
    return sorted(out)


def _call(q0, z, profiles, domain, lev, modes, halo, meas, footprint, bg):
    from bldfm.solver import steady_state_transport_solver as solve
    _, c, f = solve(q0, z, profiles, domain, lev, modes=tuple(modes), meas_pt=meas,
                    srf_bg_conc=bg, footprint=footprint, halo=halo, precision="double")
    return np.asarray(c), np.asarray(f)


def _err(a, b, scale):
    if a.shape != b.shape:
        return float("inf")
    return float(np.max(np.abs(a - b))) / max(float(scale), 1e-300)


def _verdict(pairs, tol, G, key, head):
    """pairs: (name, lhs, rhs, scale[, extra]) - `extra` widens the tolerance of that pair (see
    scale_speed: representation error of background + small excess)."""
    pairs = [p if len(p) == 5 else tuple(p) + (0.0,) for p in pairs]
    errs = [(n, _err(a, b, sc), tol + ex) for n, a, b, sc, ex in pairs]
    worst = max(e / t for _, e, t in errs)
    nontrivial = G <= GMAX and all(sc > 0 for _, _, _, sc, _ in pairs)
    detail = "%s %s tol %s (G=%.1f)" % (head, " ".join("%s=%.2e" % (n, e) for n, e, _ in errs),
                                        "/".join("%.1e" % t for _, _, t in errs), G)
    return Verdict(worst <= 1.0, detail, nontrivial=nontrivial, key=key, measured=worst)


# ------------------------------------------------------------------ reflections
@S.kind("mirror")
def mirror(nx, ny, dx, dy, modes, axis, footprint, im, jm, level, prof, src, seed, bg):
    z, (u, v, Kx, Ky, Kz) = make_profiles(prof)
    lev = level if level >= 0 else len(z) + level
    domain = (nx * dx, ny * dy)
    G = growth(z, (u, v, Kx, Ky, Kz), lev, nx, ny, dx, dy, 0.0, modes)
    tol = tolerance(G)
    q0 = make_source(src, ny, nx, seed)
    cA, fA = _call(q0, z, (u, v, Kx, Ky, Kz), domain, lev, modes, 0.0, (im * dx, jm * dy),
                   footprint, bg)
    q1, u1, v1, i1, j1 = q0, u, v, im, jm
    if "x" in axis:
        q1, u1, i1 = mirror0(q1, 1), -u1, (-im) % nx
    if "y" in axis:
        q1, v1, j1 = mirror0(q1, 0), -v1, (-jm) % ny
    cB, fB = _call(q1, z, (u1, v1, Kx, Ky, Kz), domain, lev, modes, 0.0, (i1 * dx, j1 * dy),
                   footprint, bg)
    if cA.shape != (ny, nx) or cB.shape != (ny, nx):
        return Verdict(False, "shapes %s %s" % (cA.shape, cB.shape), key="mirror-shape")
    eC, eF = cA, fA
    if "x" in axis:
        eC, eF = mirror0(eC, 1), mirror0(eF, 1)
    if "y" in axis:
        eC, eF = mirror0(eC, 0), mirror0(eF, 0)
    cols = cutoff_bins(nx, modes[0], modes[1] > ny)
    rows = cutoff_bins(ny, modes[1], modes[0] > nx)
    filt = lambda a: drop_bins(a, cols, rows)  # noqa: E731
    sc_c = np.max(np.abs(eC - (0.0 if footprint else bg)))
    sc_f = np.max(np.abs(eF))
    return _verdict([("conc", filt(cB), filt(eC), sc_c), ("flx", filt(fB), filt(eF), sc_f)],
                    tol, G, "mirror-" + axis + ("-fp" if footprint else "-disp"),
                    "dropped cols %s rows %s" % (cols, rows))


# ------------------------------------------------------------------ axis swap
@S.kind("swap")
def swap(nx, ny, dx, dy, halo, modes, footprint, im, jm, level, prof, src, seed, bg):
    z, (u, v, Kx, Ky, Kz) = make_profiles(prof)
    lev = level if level >= 0 else len(z) + level
    G = growth(z, (u, v, Kx, Ky, Kz), lev, nx, ny, dx, dy, halo, modes)
    tol = tolerance(G)
    q0 = make_source(src, ny, nx, seed)
    cA, fA = _call(q0, z, (u, v, Kx, Ky, Kz), (nx * dx, ny * dy), lev, modes, halo,
                   (im * dx, jm * dy), footprint, bg)
    cB, fB = _call(np.ascontiguousarray(q0.T), z, (v, u, Ky, Kx, Kz), (ny * dy, nx * dx), lev,
                   [modes[1], modes[0]], halo, (jm * dy, im * dx), footprint, bg)
    if cA.shape != (ny, nx) or cB.shape != (nx, ny):
        return Verdict(False, "shapes %s %s" % (cA.shape, cB.shape), key="swap-shape")
    off = 0.0 if footprint else bg
    return _verdict([("conc", cB, cA.T, np.max(np.abs(cA - off))), ("flx", fB, fA.T, np.max(np.abs(fA)))],
                    tol, G, "swap" + ("-fp" if footprint else "-disp"), "")


# ------------------------------------------------------------------ similarity
@S.kind("scale-length")
def scale_length(nx, ny, dx, dy, halo, modes, footprint, im, jm, level, prof, src, seed, bg, s):
    z, (u, v, Kx, Ky, Kz) = make_profiles(prof)
    lev = level if level >= 0 else len(z) + level
    G = growth(z, (u, v, Kx, Ky, Kz), lev, nx, ny, dx, dy, halo, modes)
    tol = tolerance(G)
    q0 = make_source(src, ny, nx, seed)
    cA, fA = _call(q0, z, (u, v, Kx, Ky, Kz), (nx * dx, ny * dy), lev, modes, halo,
                   (im * dx, jm * dy), footprint, bg)
    h2 = None if halo is None else halo * s
    cB, fB = _call(q0, z * s, (u, v, Kx * s, Ky * s, Kz * s), (nx * dx * s, ny * dy * s), lev,
                   modes, h2, (im * dx * s, jm * dy * s), footprint, bg)
    off = 0.0 if footprint else bg
    return _verdict([("conc", cB, cA, np.max(np.abs(cA - off))), ("flx", fB, fA, np.max(np.abs(fA)))],
                    tol, G, "scale-length" + ("-fp" if footprint else "-disp"), "s=%g" % s)


@S.kind("scale-speed")
def scale_speed(nx, ny, dx, dy, halo, modes, footprint, im, jm, level, prof, src, seed, bg, c):
    z, (u, v, Kx, Ky, Kz) = make_profiles(prof)
    lev = level if level >= 0 else len(z) + level
    G = growth(z, (u, v, Kx, Ky, Kz), lev, nx, ny, dx, dy, halo, modes)
    tol = tolerance(G)
    q0 = make_source(src, ny, nx, seed)
    domain = (nx * dx, ny * dy)
    meas = (im * dx, jm * dy)
    cA, fA = _call(q0, z, (u, v, Kx, Ky, Kz), domain, lev, modes, halo, meas, footprint, bg)
    cB, fB = _call(q0, z, (u * c, v * c, Kx * c, Ky * c, Kz * c), domain, lev, modes, halo, meas,
                   footprint, bg)
    exc = (cA - bg) / c
    # the returned field is background + excess/c in double precision: its own representation
    # (and the last inverse FFT) is uncertain by a few ulps of the BACKGROUND, which for large
    # c is not small against the excess; 100 eps |bg| covers ulp x log2(padded cells)
    sc_c = np.max(np.abs(exc))
    rep = 100.0 * EPS * abs(bg) * max(1.0, 1.0 / c) / max(float(sc_c), 1e-300)
    return _verdict([("conc", cB - bg, exc, sc_c, rep), ("flx", fB, fA, np.max(np.abs(fA)))],
                    tol, G, "scale-speed" + ("-fp" if footprint else "-disp"), "c=%g" % c)


# ------------------------------------------------------------------ bounded family
SPACINGS = [  # (dx, dy, commensurate halo, robustly incommensurate halo)
    (10.0, 7.5, 30.0, 24.0),      # 2.4 / 3.2 cells
    (5.0, 7.5, 15.0, 17.0),       # 3.4 / 2.27
    (8.0, 4.0, 16.0, 10.0),       # 1.25 / 2.5
    (12.5, 6.25, 25.0, 30.0),     # 2.4 / 4.8
    (6.0, 9.0, 18.0, 14.0),       # 2.33 / 1.56
]
PROFILES = [
    dict(nz=8, z0=0.1, ztop=9.0, stretch=1.5, U=4.0, wdir=30.0, veer=25.0, ax=1.6, ay=0.7, az=1.0),
    dict(nz=11, z0=0.05, ztop=7.0, stretch=2.0, U=3.0, wdir=200.0, veer=-40.0, ax=0.6, ay=1.8, az=1.2),
    dict(nz=6, z0=0.3, ztop=12.0, stretch=1.0, U=5.0, wdir=115.0, veer=10.0, ax=1.3, ay=0.9, az=0.5),
    dict(nz=12, z0=0.02, ztop=5.0, stretch=1.3, U=2.0, wdir=-70.0, veer=60.0, ax=0.8, ay=2.5, az=1.5,
         kmin=0.05),
    # weak mixing next to the ground (Kz(z0) ~ 3e-3 m2/s): a few decades of down-scaling bring
    # the lowest layers to molecular-diffusion magnitudes, up-scaling the top to ~1e6 m2/s
    dict(nz=9, z0=0.02, ztop=6.0, stretch=1.6, U=3.5, wdir=60.0, veer=-20.0, ax=1.2, ay=0.8, az=0.9,
         kmin=0.0),
]
# "scale factors over several decades": 1e-6 .. 1e6.  The PDE has no intrinsic length, time or
# diffusivity scale, so every factor is admissible; with K of order 1e-2..1 m2/s before scaling
# this sweeps K across 1e-8 .. 1e6 m2/s and cell sizes across 1e-5 .. 1e7 m.
FACTORS = [1e-6, 1e-5, 1e-4, 1e-3, 0.01, 0.1, 0.25, 0.5, 2.0, 3.7, 10.0, 64.0, 100.0, 1e3, 1e4,
           1e5, 1e6]
# default halo (= max(domain)): exact cell counts need a power of two
FACTORS_POW2 = [2.0 ** -20, 2.0 ** -14, 2.0 ** -10, 0.25, 0.5, 2.0, 64.0, 2.0 ** 10, 2.0 ** 14,
                2.0 ** 20]


CONST_PATTERNS = [[0, 1, 2], [0, 1, 3], [0, 1, 2, 3], [0, 1], [2, 3], [2], [3], [0, 1, 4], [0], [1], [0, 1, 2, 3, 4], [4]]


def generate(tier, rng):
    n_each = 200 if tier == "quick" else 6000

    def base(hk):
        sp = rng.randrange(len(SPACINGS))
        dx, dy, hcomm, hinc = SPACINGS[sp]
        odd = rng.random() < 0.25
        nx = rng.choice([7, 9, 11, 15] if odd else [6, 8, 10, 12, 16, 20, 24])
        ny = rng.choice([7, 9, 13] if (odd and rng.random() < 0.5) else [6, 8, 10, 12, 16, 20])
        halo = {"zero": 0.0, "none": None, "comm": hcomm, "incomm": hinc}[hk]
        h = max(nx * dx, ny * dy) if halo is None else halo
        nxe, nye = nx + 2 * int(h / dx), ny + 2 * int(h / dy)
        mk = rng.choice(["trunc", "trunc", "at", "above"])
        if nx % 2 or ny % 2 or mk == "above":
            modes = [512, 512]
        elif mk == "at":
            modes = [nxe, nye]
        else:
            modes = [2 * rng.randint(1, nxe // 2), 2 * rng.randint(1, nye // 2)]
        pk = rng.randrange(len(PROFILES))
        nz = PROFILES[pk]["nz"]
        prof = PROFILES[pk]
        r_ = rng.random()
        if r_ < 0.3:
            prof = dict(prof, const=CONST_PATTERNS[rng.randrange(len(CONST_PATTERNS))])
        elif r_ < 0.4:
            prof = dict(prof, eq_top=True)
        fp = rng.random() < 0.5
        if fp or rng.random() < 0.5:
            im, jm = rng.randint(0, nx - 1), rng.randint(0, ny - 1)
        else:
            im, jm = 0, 0
        return dict(nx=nx, ny=ny, dx=dx, dy=dy, modes=modes, footprint=fp, im=im, jm=jm,
                    level=rng.choice([1, nz // 2, nz - 1, rng.randint(1, nz - 1)]),
                    prof=prof, src=rng.choice(["random", "sparse"]),
                    seed=rng.randint(0, 2 ** 31 - 1), bg=rng.choice([0.0, 1.5])), halo

    for it in range(n_each):
        p, _h = base("zero")
        p["axis"] = rng.choice(["x", "y", "xy"])
        yield "mirror", p

        p, h = base(rng.choice(["zero", "zero", "none", "comm", "incomm"]))
        p["halo"] = h
        yield "swap", p

        hk = rng.choice(["zero", "zero", "incomm", "none"])
        p, h = base(hk)
        p["halo"] = h
        # stratified over the decades (every factor met n_each/len times), not sampled
        p["s"] = (FACTORS_POW2[it % len(FACTORS_POW2)] if hk == "none"
                  else FACTORS[it % len(FACTORS)])
        yield "scale-length", p

        p, h = base(rng.choice(["zero", "zero", "none", "comm", "incomm"]))
        p["halo"] = h
        p["c"] = FACTORS[(it + 5) % len(FACTORS)]
        yield "scale-speed", p


if __name__ == "__main__":
    S.main(generate)
