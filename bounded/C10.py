"""C10 - bounded native stand-in / replay oracle.

Property: with several output levels requested, the k-th returned slice of concentration and
flux is the solution at the k-th requested level - the array a single-level request for that
level returns, and the corresponding slice of a full-column request - and the height coordinate
returned for slice k is z[levels[k]]; for any subset in any order, scalar / list / array level
arguments, footprint and dispersion mode, numerical and analytic, both precisions.

Oracle = the statement through the public API: one multi-level call against one single-level
(scalar) call per requested level, and the returned grid (X, Y, Z).  The two sides run the same
arithmetic, so double precision is compared at 1e-9 and single precision at 1e-5 of the slice
maximum.  An exception raised by an admitted multi-level request is a failure of the property
(reported with its own key), not a harness error.
"""
import os
import sys

sys.path.insert(0, os.path.dirname(os.path.abspath(__file__)))
from _common import Suite, Verdict, default_profiles, relerr  # noqa: E402,F401

import numpy as np  # noqa: E402

S = Suite(
    "C10",
    what="multi-level request vs single-level requests and full-column request; returned Z, X, Y; "
         "top-node slice vs the same node made interior by a thin constant layer on top; the same "
         "through parse_config_dict + run_bldfm_single with domain.output_levels / full_output",
    bound="vertical grids nz 6..33 (closure MOST/CONSTANT and hand-built anisotropic / constant "
          "columns), level selections: ascending, descending, unsorted, with the surface node, with "
          "the top node, one-element, full column (forward and reversed); level argument as python "
          "int, numpy integer, list, int64 array; grids 6..16 x 6..12, halo 0 / None / "
          "incommensurate, truncated and clamped modes; footprint and dispersion, numeric and "
          "analytic, single and double precision; distinct in-range levels (solver calls); one full column of 65 levels on a "
          "128 x 128 grid padded to 256 x 256 (thorough: also 130 levels, and 192 x 192 in single precision); through "
          "the configuration-driven interface: output_levels ascending / descending / unsorted / "
          "with a level listed twice / one level, and full_output, nz 6..9, default / single / "
          "double precision, closures MOST/MOSTM/CONSTANT (analytic); a sample",
    rule="slice k of the multi-level result equals the single-level result for levels[k] within "
         "1e-9 (double) / 1e-5 (single) of the slice maximum; Z[k]==z[levels[k]], X[j,i]==i*dx, "
         "Y[j,i]==j*dy exactly up to 1e-12 relative; shapes (m, ny, nx) squeezed; top-node kind at "
         "max(1e-5 (1e-4 single), 1000*eps*exp(G))",
)

TOL = {"double": 1e-9, "single": 1e-5}


def make_profiles(spec):
    kind = spec["kind"]
    if kind == "closure":
        z, prof = default_profiles(n=spec["n"], zm=spec["zm"], wind=tuple(spec["wind"]),
                                   ustar=spec.get("ustar", 0.4), mol=spec.get("mol", -50.0),
                                   closure=spec["closure"])
        z = np.asarray(z, dtype=float).reshape(-1)
        return z, tuple(np.asarray(p, dtype=float).reshape(-1) for p in prof)
    if kind == "const":
        nz = spec["nz"]
        z = spec["z0"] + (spec["ztop"] - spec["z0"]) * np.linspace(0.0, 1.0, nz) ** spec.get("stretch", 1.0)
        one = np.ones(nz)
        return z, (spec["u"] * one, spec["v"] * one, spec["Kx"] * one, spec["Ky"] * one,
                   spec["Kz"] * one)
    if kind == "hand":
        nz = spec["nz"]
        s = np.linspace(0.0, 1.0, nz)
        z0, zt = spec["z0"], spec["ztop"]
        z = z0 + (zt - z0) * s ** spec.get("stretch", 1.0)
        speed = spec["U"] * np.log(1.0 + z / z0) / np.log(1.0 + zt / z0)
        ang = np.deg2rad(spec["wdir"] + spec.get("veer", 0.0) * s)
        K = 0.16 * z + spec.get("kmin", 0.02)
        return z, (speed * np.cos(ang), speed * np.sin(ang),
                   spec["ax"] * K * (1.0 + 0.3 * s), spec["ay"] * K * (1.0 - 0.2 * s),
                   spec["az"] * K)
    raise ValueError(kind)


def order_class(levels):
    lv = list(levels)
    if len(lv) <= 1:
        return "single"
    if all(a < b for a, b in zip(lv, lv[1:])):
        return "ascending"
    if all(a > b for a, b in zip(lv, lv[1:])):
        return "descending"
    return "unsorted"


def level_arg(levels, form):
    if form == "list":
        return [int(l) for l in levels]
    if form == "array":
        return np.array(levels, dtype=np.int64)
    if form == "int":
        return int(levels[0])
    if form == "npint":
        return np.int64(levels[0])
    if form == "array0d":
        return np.array(int(levels[0]))
    raise ValueError(form)


class _Ctx:
    def __init__(self, nx, ny, dx, dy, halo, modes, footprint, analytic, precision, im, jm,
                 prof, seed, bg):
        self.z, self.profiles = make_profiles(prof)
        self.nx, self.ny, self.dx, self.dy = nx, ny, dx, dy
        self.q0 = np.random.default_rng(seed).random((ny, nx)) - 0.3
        self.kw = dict(modes=tuple(modes), meas_pt=(im * dx, jm * dy), srf_bg_conc=bg,
                       footprint=footprint, analytic=analytic, halo=halo, precision=precision)
        self.tol = TOL[precision]

    def solve(self, levels):
        from bldfm.solver import steady_state_transport_solver as solve
        (X, Y, Z), c, f = solve(self.q0, self.z, self.profiles,
                                (self.nx * self.dx, self.ny * self.dy), levels, **self.kw)
        return np.asarray(X), np.asarray(Y), np.asarray(Z), np.asarray(c), np.asarray(f)

    def check_grid(self, X, Y, Z, levels):
        """Problems with the returned coordinates of an m-level request (m = len(levels))."""
        m, ny, nx = len(levels), self.ny, self.nx
        want = (ny, nx) if m == 1 else (m, ny, nx)
        bad = []
        for name, A in (("X", X), ("Y", Y), ("Z", Z)):
            if A.shape != want:
                bad.append("%s.shape=%s want %s" % (name, A.shape, want))
        if bad:
            return bad
        X3, Y3, Z3 = (A.reshape(m, ny, nx) for A in (X, Y, Z))
        xi = np.arange(nx) * self.dx
        yj = np.arange(ny) * self.dy
        for k, l in enumerate(levels):
            if np.max(np.abs(Z3[k] - self.z[l])) > 1e-12 * abs(self.z[l]):
                bad.append("Z[%d]=%.6g but z[levels[%d]=%d]=%.6g" % (k, Z3[k].flat[0], k, l, self.z[l]))
            if np.max(np.abs(X3[k] - xi[None, :])) > 1e-12 * (nx * self.dx):
                bad.append("X[%d] != i*dx" % k)
            if np.max(np.abs(Y3[k] - yj[:, None])) > 1e-12 * (ny * self.dy):
                bad.append("Y[%d] != j*dy" % k)
        return bad


def _cmp(a, b):
    if a.shape != b.shape:
        return float("inf")
    return float(np.max(np.abs(a - b))) / max(float(np.max(np.abs(b))), 1e-300)


def _exc_key(e, analytic, m, oc):
    if analytic and m > 1:
        return "analytic-multilevel"
    return "raises-" + oc


# ------------------------------------------------------------------ kinds
@S.kind("multi-vs-single")
def multi_vs_single(nx, ny, dx, dy, halo, modes, footprint, analytic, precision, im, jm, prof,
                    seed, bg, levels, form):
    cx = _Ctx(nx, ny, dx, dy, halo, modes, footprint, analytic, precision, im, jm, prof, seed, bg)
    oc = order_class(levels)
    m = len(levels)
    tag = ("analytic " if analytic else "numeric ") + ("fp " if footprint else "disp ") + precision
    try:
        X, Y, Z, C, F = cx.solve(level_arg(levels, form))
    except Exception as e:  # an admitted request must not raise
        return Verdict(False, "%s levels=%s (%s): %s: %s" % (tag, levels, form, type(e).__name__,
                                                              str(e)[:160]),
                       key=_exc_key(e, analytic, m, oc))
    want = (ny, nx) if m == 1 else (m, ny, nx)
    if C.shape != want or F.shape != want:
        return Verdict(False, "%s levels=%s: conc %s flx %s want %s" % (tag, levels, C.shape, F.shape, want),
                       key="shape-" + oc)
    bad = cx.check_grid(X, Y, Z, levels)
    if bad:
        return Verdict(False, "%s levels=%s: %s" % (tag, levels, "; ".join(bad[:3])), key="grid-" + oc)
    C3, F3 = C.reshape(m, ny, nx), F.reshape(m, ny, nx)
    worst, where = 0.0, None
    for k, l in enumerate(levels):
        _, _, Z1, c1, f1 = cx.solve(int(l))
        e = max(_cmp(C3[k], c1), _cmp(F3[k], f1))
        if e > worst:
            worst, where = e, (k, l)
    ok = worst <= cx.tol
    detail = "%s levels=%s (%s): worst slice/single relerr %.2e at (k,level)=%s tol %.0e" % (
        tag, levels, form, worst, where, cx.tol)
    key = ("analytic-" if analytic else "") + "levels-" + oc
    return Verdict(ok, detail, nontrivial=(m > 1), key=key, measured=worst / cx.tol)


@S.kind("full-column")
def full_column(nx, ny, dx, dy, halo, modes, footprint, analytic, precision, im, jm, prof, seed,
                bg, form, reverse, subset):
    """Full-column request (0..nz-1, optionally reversed): slice of level l equals the single-level
    result for l, and a multi-level request `subset` returns full[l] for l in subset, in order."""
    cx = _Ctx(nx, ny, dx, dy, halo, modes, footprint, analytic, precision, im, jm, prof, seed, bg)
    nz = len(cx.z)
    levels = list(range(nz))[::-1] if reverse else list(range(nz))
    oc = order_class(levels)
    tag = ("analytic " if analytic else "numeric ") + ("fp " if footprint else "disp ") + precision
    try:
        X, Y, Z, C, F = cx.solve(level_arg(levels, form))
    except Exception as e:
        return Verdict(False, "%s full column (%s): %s: %s" % (tag, oc, type(e).__name__, str(e)[:160]),
                       key=_exc_key(e, analytic, nz, oc))
    if C.shape != (nz, ny, nx) or F.shape != (nz, ny, nx):
        return Verdict(False, "%s full column: conc %s flx %s" % (tag, C.shape, F.shape), key="shape-" + oc)
    bad = cx.check_grid(X, Y, Z, levels)
    if bad:
        return Verdict(False, "%s full column: %s" % (tag, "; ".join(bad[:3])), key="grid-" + oc)
    pos = {l: k for k, l in enumerate(levels)}
    worst, where = 0.0, None
    for l in range(nz):
        _, _, _, c1, f1 = cx.solve(int(l))
        e = max(_cmp(C[pos[l]], c1), _cmp(F[pos[l]], f1))
        if e > worst:
            worst, where = e, ("single", l)
    key = ("analytic-" if analytic else "") + "levels-" + oc
    if subset:
        soc = order_class(subset)
        try:
            _, _, Zs, Cs, Fs = cx.solve(level_arg(subset, form))
        except Exception as e:
            return Verdict(False, "%s subset %s: %s: %s" % (tag, subset, type(e).__name__, str(e)[:160]),
                           key=_exc_key(e, analytic, len(subset), soc))
        ms = len(subset)
        want = (ny, nx) if ms == 1 else (ms, ny, nx)
        if Cs.shape != want:
            return Verdict(False, "%s subset %s: conc %s" % (tag, subset, Cs.shape), key="shape-" + soc)
        Cs, Fs = Cs.reshape(ms, ny, nx), Fs.reshape(ms, ny, nx)
        for k, l in enumerate(subset):
            e = max(_cmp(Cs[k], C[pos[l]]), _cmp(Fs[k], F[pos[l]]))
            if e > worst:
                worst, where = e, ("subset", k, l)
                key = ("analytic-" if analytic else "") + "levels-" + soc
    ok = worst <= cx.tol
    return Verdict(ok, "%s full column %s subset %s: worst relerr %.2e at %s tol %.0e" % (
        tag, oc, subset, worst, where, cx.tol), key=key, measured=worst / cx.tol)


@S.kind("large-full-column")
def large_full_column(n, nz, footprint, precision, seed):
    """The full-column request the statement names, on a grid and a column that are not tiny: n x n cells padded to
    2n x 2n, nz nodes (so the output stack is nz x 2n x 2n spectral values -- work done level by level, or in blocks of
    levels, must cover every level).  Slices 0, 1, nz//2, nz-2, nz-1 against the single-level solves; heights of all."""
    dx = 5.0
    prof = dict(kind="const", nz=nz, z0=0.05, ztop=2.5, stretch=1.3, u=3.0, v=1.2, Kx=0.9, Ky=0.5, Kz=0.7)
    cx = _Ctx(n, n, dx, dx, (n // 2) * dx, (2 * n, 2 * n), footprint, False, precision, n // 3, n // 2, prof, seed, 0.8)
    levels = list(range(nz))
    tag = "large %dx%d (padded %dx%d), %d levels, %s %s" % (n, n, 2 * n, 2 * n, nz, "fp" if footprint else "disp", precision)
    try:
        X, Y, Z, C, F = cx.solve(levels)
    except Exception as e:
        return Verdict(False, "%s: %s: %s" % (tag, type(e).__name__, str(e)[:160]), key="raises-ascending")
    if C.shape != (nz, n, n) or F.shape != (nz, n, n):
        return Verdict(False, "%s: conc %s flx %s" % (tag, C.shape, F.shape), key="shape-ascending")
    Z3 = Z.reshape(nz, n, n)
    for k in range(nz):
        if abs(Z3[k, 0, 0] - cx.z[k]) > 1e-12 * abs(cx.z[k]):
            return Verdict(False, "%s: Z[%d]=%r but z[%d]=%r" % (tag, k, Z3[k, 0, 0], k, cx.z[k]), key="grid-ascending")
    worst, where = 0.0, None
    for l in sorted({0, 1, nz // 2, nz - 2, nz - 1}):
        _, _, _, c1, f1 = cx.solve(int(l))
        e = max(_cmp(C[l], c1), _cmp(F[l], f1))
        if e > worst:
            worst, where = e, l
    return Verdict(worst <= cx.tol, "%s: worst relerr %.2e at level %s tol %.0e" % (tag, worst, where, cx.tol), key="levels-ascending",
                   measured=worst / cx.tol)


@S.kind("scalar-forms")
def scalar_forms(nx, ny, dx, dy, halo, modes, footprint, analytic, precision, im, jm, prof, seed,
                 bg, level):
    """A scalar level (python int, numpy integer) behaves as the one-element list and
    the one-element array: 2-D fields, Z == z[level] everywhere."""
    cx = _Ctx(nx, ny, dx, dy, halo, modes, footprint, analytic, precision, im, jm, prof, seed, bg)
    ref = None
    worst = 0.0
    for form in ("int", "npint", "list", "array"):
        try:
            X, Y, Z, C, F = cx.solve(level_arg([level], form))
        except Exception as e:
            return Verdict(False, "level=%d as %s: %s: %s" % (level, form, type(e).__name__, str(e)[:160]),
                           key="raises-scalar-" + form)
        if C.shape != (ny, nx) or F.shape != (ny, nx):
            return Verdict(False, "level=%d as %s: conc %s" % (level, form, C.shape), key="shape-scalar-" + form)
        bad = cx.check_grid(X, Y, Z, [level])
        if bad:
            return Verdict(False, "level=%d as %s: %s" % (level, form, "; ".join(bad[:3])),
                           key="grid-scalar-" + form)
        if ref is None:
            ref = (C, F)
        else:
            worst = max(worst, _cmp(C, ref[0]), _cmp(F, ref[1]))
    return Verdict(worst <= cx.tol, "level=%d all forms: worst relerr %.2e tol %.0e" % (level, worst, cx.tol),
                   key="scalar-forms", measured=worst / cx.tol)


def growth(z, profiles, nxe, nye, dx, dy):
    """Rounding amplification estimate of the shooting solve over the whole column and all padded
    wavenumbers (DESIGN B.1): sum_i Re(lambda_i) dz_i, lambda^2 = (Kx kx^2+Ky ky^2+i(u kx+v ky))/Kz."""
    u, v, Kx, Ky, Kz = profiles
    kx = 2.0 * np.pi / (dx * nxe) * np.arange(0, nxe // 2 + 1)
    ky = 2.0 * np.pi / (dy * nye) * np.arange(-(nye // 2), nye // 2 + 1)
    KX, KY = np.meshgrid(kx, ky)
    dz = np.diff(z)
    G = np.zeros_like(KX)
    for i in range(len(dz)):
        lam = np.sqrt((Kx[i] * KX ** 2 + Ky[i] * KY ** 2 + 1j * (u[i] * KX + v[i] * KY)) / Kz[i] + 0j)
        G += np.abs(lam.real) * dz[i]
    return float(G.max())


@S.kind("top-node")
def top_node(nx, ny, dx, dy, halo, modes, footprint, precision, im, jm, prof, seed, bg, below,
             form, delta_rel):
    """The slice returned for the top node is the solution there: it equals the slice for the same
    node index on the column extended by one thin layer (thickness delta_rel * last layer) that
    repeats the top coefficients - the same physical problem, because the upper boundary
    condition is the constant-coefficient continuation; there the node is interior.  The two
    discrete problems differ by O(delta^3), so the comparison is at 1e-5 (1e-4 single), not at
    rounding level."""
    cx = _Ctx(nx, ny, dx, dy, halo, modes, footprint, False, precision, im, jm, prof, seed, bg)
    nz = len(cx.z)
    levels = [int(l) for l in below] + [nz - 1]
    arg = level_arg(levels, "list" if (form == "int" and len(levels) > 1) else form)
    h = max(nx * dx, ny * dy) if halo is None else float(halo)
    G = growth(cx.z, cx.profiles, nx + 2 * int(h / dx), ny + 2 * int(h / dy), dx, dy)
    tol = max(1e-5 if precision == "double" else 1e-4, 1000.0 * 2.220446049250313e-16 * float(np.exp(min(G, 700.0))))
    try:
        _, _, ZA, CA, FA = cx.solve(arg)
        cx.z = np.append(cx.z, cx.z[-1] + delta_rel * (cx.z[-1] - cx.z[-2]))
        cx.profiles = tuple(np.append(p, p[-1]) for p in cx.profiles)
        _, _, ZB, CB, FB = cx.solve(arg)
    except Exception as e:
        return Verdict(False, "levels=%s: %s: %s" % (levels, type(e).__name__, str(e)[:160]),
                       key="raises-top-node")
    if CA.shape != CB.shape:
        return Verdict(False, "shapes %s %s" % (CA.shape, CB.shape), key="shape-top-node")
    m = len(levels)
    CA, FA, CB, FB = (A.reshape(m, ny, nx) for A in (CA, FA, CB, FB))
    off = 0.0 if footprint else bg
    errs = []
    for k in range(m):
        errs.append(max(_cmp(CA[k] - off, CB[k] - off), _cmp(FA[k], FB[k])))
    worst = max(errs)
    return Verdict(worst <= tol, "levels=%s (top=%d) per-slice relerr vs extended column %s tol %.1e (G=%.1f)" % (
        levels, nz - 1, ["%.1e" % e for e in errs], tol, G), nontrivial=(G <= 18.0), key="top-node",
        measured=worst / tol)


# ------------------------------------------------------------------ configuration-driven interface
def _run_interface(raw, levels):
    """parse_config_dict + run_bldfm_single with domain.output_levels = levels
    ("full" -> full_output=True and no output_levels)."""
    import copy
    import bldfm.config as cfg
    from bldfm.config_parser import parse_config_dict
    from bldfm.interface import run_bldfm_single
    cfg.NUM_THREADS = 1
    raw = copy.deepcopy(raw)
    if isinstance(levels, str):
        raw["domain"]["full_output"] = True
    else:
        raw["domain"]["output_levels"] = [int(l) for l in levels]
    config = parse_config_dict(raw)
    res = run_bldfm_single(config, config.towers[0], 0)
    X, Y, Z = res["grid"]
    return np.asarray(X), np.asarray(Y), np.asarray(Z), np.asarray(res["conc"]), np.asarray(res["flx"])


def multiplicity_class(levels):
    return "repeated" if len(set(levels)) < len(levels) else order_class(levels)


@S.kind("interface-levels")
def interface_levels(raw, levels):
    """The anchor 'interface passes output_levels / full_output lists through': a run driven by a
    configuration whose output_levels is any ordered selection (ascending, descending, unsorted,
    with a level listed twice) returns m = len(output_levels) slices; slice k equals the run of
    the same configuration with output_levels = [levels[k]], and Z of slice k is that run's Z.
    levels == "full": full_output, slice k against output_levels = [k], k = 0..nz."""
    sol = raw.get("solver") or {}
    precision = sol.get("precision", "single")
    tol = TOL[precision]
    dom = raw["domain"]
    ny, nx = dom["ny"], dom["nx"]
    req = list(range(dom["nz"] + 1)) if isinstance(levels, str) else [int(l) for l in levels]
    oc = "full-output" if isinstance(levels, str) else multiplicity_class(req)
    m = len(req)
    tag = "interface %s%s%s levels=%s" % ("analytic " if sol.get("analytic") else "",
                                          "fp " if sol.get("footprint") else "disp ", precision, levels)
    try:
        X, Y, Z, C, F = _run_interface(raw, levels)
    except Exception as e:
        return Verdict(False, "%s: %s: %s" % (tag, type(e).__name__, str(e)[:160]),
                       key="interface-raises-" + oc)
    want = (ny, nx) if m == 1 else (m, ny, nx)
    got = [A.shape for A in (C, F, X, Y, Z)]
    if any(g != want for g in got):
        return Verdict(False, "%s: shapes conc/flx/X/Y/Z %s want %s" % (tag, got, want),
                       key="interface-shape-" + oc)
    C3, F3, Z3 = (A.reshape(m, ny, nx) for A in (C, F, Z))
    singles = {}
    worst, where, zbad = 0.0, None, []
    for k, l in enumerate(req):
        if l not in singles:
            _, _, Z1, c1, f1 = _run_interface(raw, [l])
            if c1.shape != (ny, nx):
                return Verdict(False, "%s: single-level run returns %s" % (tag, c1.shape),
                               key="interface-shape-single")
            singles[l] = (Z1, c1, f1)
        Z1, c1, f1 = singles[l]
        if not np.array_equal(Z3[k], Z1):
            zbad.append("Z[%d]=%.6g but level %d is at %.6g" % (k, Z3[k].flat[0], l, Z1.flat[0]))
        e = max(_cmp(C3[k], c1), _cmp(F3[k], f1))
        if e > worst:
            worst, where = e, (k, l)
    if zbad:
        return Verdict(False, "%s: %s" % (tag, "; ".join(zbad[:3])), key="interface-grid-" + oc)
    return Verdict(worst <= tol, "%s: worst slice/single relerr %.2e at (k,level)=%s tol %.0e" % (
        tag, worst, where, tol), nontrivial=(m > 1), key="interface-levels-" + oc,
        measured=worst / tol)


# ------------------------------------------------------------------ bounded family
PROFILES = [
    dict(kind="closure", closure="MOST", n=4, zm=4.0, wind=[3.0, 1.0], ustar=0.4, mol=-50.0),
    dict(kind="closure", closure="MOST", n=8, zm=5.0, wind=[-2.0, 2.5], ustar=0.3, mol=80.0),
    dict(kind="hand", nz=6, z0=0.3, ztop=10.0, stretch=1.0, U=5.0, wdir=115.0, veer=10.0,
         ax=1.3, ay=0.9, az=0.5),
    dict(kind="hand", nz=12, z0=0.1, ztop=9.0, stretch=1.5, U=4.0, wdir=30.0, veer=25.0,
         ax=1.6, ay=0.7, az=1.0),
    dict(kind="hand", nz=33, z0=0.1, ztop=8.0, stretch=1.3, U=3.0, wdir=200.0, veer=-40.0,
         ax=0.6, ay=1.8, az=1.2),
]
CONST = [
    dict(kind="const", nz=7, z0=0.2, ztop=8.0, stretch=1.0, u=3.0, v=1.0, Kx=1.2, Ky=0.8, Kz=0.6),
    dict(kind="const", nz=12, z0=0.1, ztop=6.0, stretch=1.6, u=-2.0, v=2.5, Kx=0.7, Ky=1.5, Kz=1.0),
    dict(kind="closure", closure="CONSTANT", n=5, zm=4.0, wind=[3.0, 1.0], ustar=0.4, mol=-50.0),
]
GRIDS = [  # nx, ny, dx, dy, halos (0, None, incommensurate)
    (8, 6, 10.0, 7.5, [0.0, None, 20.0]),
    (12, 10, 5.0, 7.5, [0.0, None, 17.0]),
    (16, 12, 10.0, 7.5, [0.0, 20.0]),
    (9, 7, 8.0, 4.0, [0.0, 10.0]),
]


def generate(tier, rng):
    n_random = 300 if tier == "quick" else 6000
    nzs = {}

    def nz_of(p):
        k = repr(sorted(p.items(), key=str))
        if k not in nzs:
            nzs[k] = len(make_profiles(p)[0])
        return nzs[k]

    def common(analytic=None, precision=None, footprint=None):
        nx, ny, dx, dy, halos = rng.choice(GRIDS)
        halo = rng.choice(halos)
        analytic = (rng.random() < 0.3) if analytic is None else analytic
        prof = rng.choice(CONST) if analytic else rng.choice(PROFILES + CONST[:1])
        if nx % 2 or ny % 2 or rng.random() < 0.4:
            modes = [512, 512]
        else:
            h = max(nx * dx, ny * dy) if halo is None else halo
            nxe, nye = nx + 2 * int(h / dx), ny + 2 * int(h / dy)
            modes = [2 * rng.randint(2, nxe // 2), 2 * rng.randint(2, nye // 2)]
        return dict(nx=nx, ny=ny, dx=dx, dy=dy, halo=halo, modes=modes,
                    footprint=(rng.random() < 0.5) if footprint is None else footprint,
                    analytic=analytic,
                    precision=rng.choice(["double", "double", "single"]) if precision is None else precision,
                    im=rng.randint(0, nx - 1), jm=rng.randint(0, ny - 1), prof=prof,
                    seed=rng.randint(0, 2 ** 31 - 1), bg=rng.choice([0.0, 2.0]))

    def selection(nz, style):
        m = rng.randint(3 if style == "unsorted" else 2, min(6, nz))
        sub = sorted(rng.sample(range(nz), m))
        if style == "ascending":
            return sub
        if style == "descending":
            return sub[::-1]
        if style == "unsorted":
            for _ in range(20):
                rng.shuffle(sub)
                if order_class(sub) == "unsorted":
                    break
            return sub
        if style == "with-top":
            sub = sorted(set(sub[:-1] + [nz - 1]))
            return rng.choice([sub, sub[::-1]])
        if style == "with-surface":
            sub = sorted(set([0] + sub[1:]))
            return rng.choice([sub, sub[::-1]])
        if style == "one":
            return [rng.randrange(nz)]
        raise ValueError(style)

    # systematic core: the design witnesses, every mode x solver x precision
    for footprint in (False, True):
        for analytic in (False, True):
            for precision in ("double", "single"):
                for levels in ([2, 5], [6, 2], [1, 6, 3], [6]):
                    for form in ("list", "array"):
                        p = common(analytic=analytic, precision=precision, footprint=footprint)
                        p["prof"] = CONST[0] if analytic else PROFILES[1]
                        p.update(levels=levels, form=form)
                        yield "multi-vs-single", p
    # configuration-driven interface: output_levels in any order / with repeats, full_output
    def raw_config(footprint, analytic, precision):
        nx, ny = rng.choice([(12, 8), (16, 10), (10, 12)])
        nz = rng.choice([6, 8, 9])
        dom = dict(nx=nx, ny=ny, xmax=nx * rng.choice([10.0, 12.5]), ymax=ny * rng.choice([7.5, 10.0]),
                   nz=nz, modes=rng.choice([[512, 512], [8, 6]]), halo=rng.choice([0.0, 25.0, None]),
                   ref_lat=50.95, ref_lon=11.586)
        if dom["halo"] is None:
            del dom["halo"]
        sol = dict(closure="CONSTANT" if analytic else rng.choice(["MOST", "MOSTM", "CONSTANT"]),
                   footprint=footprint, analytic=analytic)
        if precision is not None:
            sol["precision"] = precision
        return dict(domain=dom,
                    towers=[dict(name="T", lat=50.95 + rng.choice([0.0, 2e-4]),
                                 lon=11.586 + rng.choice([0.0, 3e-4]), z_m=rng.choice([3.0, 5.0]))],
                    met=dict(ustar=rng.choice([0.3, 0.5]), mol=rng.choice([-80.0, 150.0, 1e9]),
                             wind_speed=rng.choice([3.0, 5.0]), wind_dir=rng.uniform(0.0, 360.0)),
                    solver=sol), nz

    def interface_selection(nz, style):
        if style == "repeated":
            a, b = rng.sample(range(nz + 1), 2)
            return rng.choice([[a, a], [a, b, a], [b, a, a], [a, b, b, a]])
        if style == "full":
            return "full"
        top = nz + 1
        sel = selection(top, style)
        return sel

    ISTYLES = ["descending", "unsorted", "repeated", "ascending", "with-top", "full", "one"]
    witnesses = [[8, 4, 1], [6, 2, 5], [3, 3], [2, 5, 2], [1, 4, 8], [8, 0]]
    for footprint in (False, True):
        for analytic in (False, True):
            for precision in ("double", None):
                for w in witnesses[:3] if (analytic or precision is None) else witnesses:
                    raw, _nz = raw_config(footprint, analytic, precision)
                    raw["domain"]["nz"] = 8
                    yield "interface-levels", dict(raw=raw, levels=w)
    for i in range(42 if tier == "quick" else 700):
        raw, nz = raw_config(rng.random() < 0.5, rng.random() < 0.25,
                             rng.choice(["double", "double", "single", None]))
        yield "interface-levels", dict(raw=raw, levels=interface_selection(nz, ISTYLES[i % len(ISTYLES)]))

    # a full column on a larger grid (65 / 130 levels of a 256 x 256 padded domain)
    yield "large-full-column", dict(n=128, nz=65, footprint=True, precision="double", seed=rng.randint(0, 2 ** 31 - 1))
    if tier == "thorough":
        yield "large-full-column", dict(n=128, nz=130, footprint=False, precision="double", seed=rng.randint(0, 2 ** 31 - 1))
        yield "large-full-column", dict(n=192, nz=40, footprint=True, precision="single", seed=rng.randint(0, 2 ** 31 - 1))
    STYLES = ["ascending", "descending", "unsorted", "with-top", "with-surface", "one"]
    for i in range(n_random):
        p = common()
        nz = nz_of(p["prof"])
        p.update(levels=selection(nz, STYLES[i % len(STYLES)]), form=rng.choice(["list", "array"]))
        yield "multi-vs-single", p
        if i % 4 == 0:
            p = common()
            nz = nz_of(p["prof"])
            p.update(form=rng.choice(["list", "array"]), reverse=rng.random() < 0.4,
                     subset=rng.choice([[], selection(nz, rng.choice(STYLES[:5]))]))
            yield "full-column", p
        if i % 6 == 0:
            p = common()
            p["level"] = rng.randrange(nz_of(p["prof"]))
            yield "scalar-forms", p
        if i % 5 == 0:
            p = common(analytic=False)
            del p["analytic"]
            nz = nz_of(p["prof"])
            below = sorted(rng.sample(range(nz - 1), rng.randint(0, min(3, nz - 1))))
            p.update(below=below, form=rng.choice(["list", "array", "int"]), delta_rel=1e-4)
            yield "top-node", p


if __name__ == "__main__":
    S.main(generate)
