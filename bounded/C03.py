"""C03 -- bounded stand-in: level-by-level conservation, footprint weights sum to one, and
halo == caller-side zero padding.

Oracle: the conservation law of the statement.  The mean mode has no vertical flux divergence
(mean flux at every height = mean surface flux over the whole periodic domain) and
d(mean conc)/dz = -(mean flux)/Kz, integrated with the trapezoidal rule on the solver's nodes
(for height-independent Kz this is the exact integral h/Kz, which is what analytic mode is
held to).  Footprint weights are the response to a unit source, hence sum to one over the
periodic domain.  A halo of width h is int(h/dx), int(h/dy) cells of zero source on each side
of an enlarged periodic domain, of which the original window is returned.

Observation: public API, precision='double'.  The padded domain is observed by padding the
source explicitly (np.pad) and calling with halo=0.0, which returns the whole periodic domain.
"""
import os
import sys
import warnings

sys.path.insert(0, os.path.dirname(os.path.abspath(__file__)))
from _common import Suite, Verdict, CacheChangesResult  # noqa: E402

import numpy as np  # noqa: E402

warnings.filterwarnings("ignore")

S = Suite(
    "C03",
    what="horizontal means of flux and concentration per level on explicitly padded halo=0 "
         "runs; sum of footprint weights over the padded domain; halo=h run against the "
         "caller-padded halo=0 run, cropped",
    bound="grids 5..16 x 5..12 cells (odd and even, dx != dy), pads 0..12 cells, halo in "
          "{commensurate, incommensurate, None}, modes full / truncated / clamped, MOST / MOSTM / "
          "CONSTANT closures of vertical_profiles (n=6..10, stable/unstable/neutral) and a "
          "formula profile on a geometric grid, scalar and list levels incl. surface and top, "
          "numerical and analytic mode, random / sparse / smooth / sign-changing sources, "
          "background in {0, +, -}, meas_pt on and off grid",
    rule="identities to 1e-9 relative to the natural scale (max|source|, |bg| + max|source|*R, "
         "1 for footprint sums, field maximum for halo-vs-pad; numerical halo-vs-pad: "
         "1e-9 * max(1, e^(G-8)) with G = max sum Re(lambda)dz, the shooting growth)",
)

TOL = 1e-9


class SolverCrash(Exception):
    pass


def _quiet_exit():
    try:
        import atexit
        from bldfm import fft_manager
        m = fft_manager._fft_manager
        if m is not None:
            atexit.unregister(m._cleanup)
    except Exception:
        pass


def _solve(q0, z, prof, domain, levels, **kw):
    from bldfm.solver import steady_state_transport_solver
    lv = int(levels) if np.ndim(levels) == 0 else [int(l) for l in levels]
    prof = tuple(np.ascontiguousarray(a, dtype=float) for a in prof)
    try:
        _, conc, flx = steady_state_transport_solver(
            q0, np.ascontiguousarray(z, dtype=float), prof, domain, lv,
            precision="double", **kw)
    except CacheChangesResult:
        raise
    except Exception as e:
        raise SolverCrash("%s: %s" % (type(e).__name__, e))
    finally:
        _quiet_exit()
    nl = 1 if np.ndim(levels) == 0 else len(levels)
    ny, nx = q0.shape
    conc, flx = np.asarray(conc), np.asarray(flx)
    if conc.size != nl * ny * nx or flx.size != nl * ny * nx:
        raise SolverCrash("output shape %s for source %s, %d level(s)"
                          % (conc.shape, q0.shape, nl))
    return conc.reshape(nl, ny, nx), flx.reshape(nl, ny, nx)


def _crash(e, analytic, levels):
    multi = np.ndim(levels) != 0 and len(levels) > 1
    return Verdict(False, "crash: %s" % e,
                   key="analytic-multilevel-crash" if (analytic and multi) else "solver-crash")


# ------------------------------------------------------------------ inputs
def make_source(kind, ny, nx, seed):
    rng = np.random.default_rng(seed)
    if kind == "random":
        return rng.random((ny, nx))
    if kind == "signed":
        return rng.standard_normal((ny, nx)) + 0.25
    if kind == "sparse":
        q = np.zeros((ny, nx))
        for _ in range(3):
            q[rng.integers(ny), rng.integers(nx)] = rng.uniform(0.5, 2.0)
        return q
    if kind == "smooth":
        y, x = np.mgrid[0:ny, 0:nx]
        cx, cy = rng.uniform(0, nx), rng.uniform(0, ny)
        return 0.1 + np.exp(-((x - cx) ** 2 / (0.1 * nx ** 2 + 1) + (y - cy) ** 2 / (0.1 * ny ** 2 + 1)))
    raise ValueError(kind)


def make_profiles(spec):
    """z nodes and profile arrays: a closure of the real vertical_profiles, or a formula
    profile (power-law wind, linear anisotropic K) on a geometric grid."""
    if spec["type"] == "closure":
        from bldfm.pbl_model import vertical_profiles
        kw = dict(ustar=spec["ustar"], mol=spec["mol"], closure=spec["closure"])
        if spec.get("stretch") is not None:
            kw["stretch"] = spec["stretch"]
        z, prof = vertical_profiles(spec["n"], spec["zm"], tuple(spec["wind"]), **kw)
        return np.asarray(z, dtype=float), tuple(np.asarray(a, dtype=float) * np.ones(len(z))
                                                 for a in prof)
    if spec["type"] == "formula":
        n = spec["n"]
        z = spec["z0"] * (spec["zt"] / spec["z0"]) ** (np.arange(n + 1) / float(n))
        s = spec["uref"] * (z / 5.0) ** 0.2
        th = np.deg2rad(spec["dir"])
        k = spec["a"] * z + spec["b"]
        return z, (s * np.cos(th), s * np.sin(th), 2.0 * k, 0.5 * k, k)
    raise ValueError(spec["type"])


def resistance(z, Kz, levels):
    """Trapezoidal integral of dz/Kz from the surface node to each output node, and to the
    top node (the natural scale of the concentration)."""
    dz = np.diff(z)
    R = np.concatenate([[0.0], np.cumsum(dz * (0.5 / Kz[:-1] + 0.5 / Kz[1:]))])
    return R[np.atleast_1d(levels)], float(R[-1])


def pad_widths(nx, ny, X, Y, halo):
    h = max(X, Y) if halo is None else halo
    dx, dy = X / nx, Y / ny
    px, py = int(h / dx), int(h / dy)
    comm = abs(px * dx - h) <= 1e-9 * max(h, 1.0) and abs(py * dy - h) <= 1e-9 * max(h, 1.0)
    return px, py, dx, dy, comm


G_REF = 8.0


def shooting_growth(z, prof, nxe, nye, dx, dy, modes):
    """max over retained components of sum_i Re(lambda_i) dz_i.  The numerical mode combines
    two growing auxiliary solutions, so double-precision rounding in its result is of the
    order eps*exp(G); identities between two different runs are held to TOL*max(1, e^(G-8))
    (measured: <= 12 eps e^G, i.e. <= 1% of this tolerance)."""
    nlx, nly = modes
    if nlx > nxe or nly > nye:
        nlx, nly = nxe, nye
    KX, KY = np.meshgrid(2.0 * np.pi * np.fft.fftfreq(nlx, 1.0 / nlx) / (nxe * dx),
                         2.0 * np.pi * np.fft.fftfreq(nly, 1.0 / nly) / (nye * dy))
    u, v, Kx, Ky, Kz = prof
    dz = np.diff(z)
    G = np.zeros(KX.shape)
    for i in range(len(dz)):
        T = -(Kx[i] * KX ** 2 + Ky[i] * KY ** 2) - 1j * (u[i] * KX + v[i] * KY)
        G += np.sqrt(-T / Kz[i] + 0j).real * dz[i]
    return float(G.max())


def rounding_tol(G, analytic):
    return TOL if analytic else TOL * max(1.0, float(np.exp(G - G_REF)))


# ------------------------------------------------------------------ kinds
@S.kind("means")
def means(nx, ny, dx, dy, px, py, profile, levels, modes, meas_pt, bg, analytic, source, seed):
    """Dispersion mode on the explicitly padded periodic domain (halo=0)."""
    z, prof = make_profiles(profile)
    q0 = np.pad(make_source(source, ny, nx, seed), ((py, py), (px, px)))
    nye, nxe = q0.shape
    try:
        conc, flx = _solve(q0, z, prof, (nxe * dx, nye * dy), levels, modes=tuple(modes),
                           meas_pt=tuple(meas_pt), srf_bg_conc=bg, analytic=analytic, halo=0.0)
    except SolverCrash as e:
        return _crash(e, analytic, levels)
    qbar = float(q0.mean())
    qmax = float(np.max(np.abs(q0)))
    R, Rtop = resistance(z, prof[4], levels)
    mf = flx.mean(axis=(1, 2))
    mc = conc.mean(axis=(1, 2))
    ef = float(np.max(np.abs(mf - qbar))) / qmax
    scale_c = abs(bg) + qmax * Rtop
    ec = float(np.max(np.abs(mc - (bg - qbar * R)))) / scale_c
    mode = "analytic" if analytic else "numeric"
    detail = ("%s %dx%d pad(%d,%d) levels=%s: mean flux err %.2e, mean conc err %.2e"
              % (mode, nx, ny, px, py, levels, ef, ec))
    if not np.isfinite(ef) or ef > TOL:
        return Verdict(False, detail + " | mean flux per level %s vs mean source %.12g"
                       % (mf.tolist(), qbar), key="mean-flux-" + mode)
    if not np.isfinite(ec) or ec > TOL:
        return Verdict(False, detail + " | mean conc %s vs %s"
                       % (mc.tolist(), (bg - qbar * R).tolist()), key="mean-conc-" + mode)
    return Verdict(True, detail, nontrivial=abs(qbar) > 1e-6 * qmax)


@S.kind("footprint_sum")
def footprint_sum(nx, ny, dx, dy, px, py, profile, levels, modes, meas_pt, analytic, seed):
    """Footprint mode on the padded periodic domain (halo=0): weights sum to one per level;
    the concentration footprint of the unit source sums to -R (background 0)."""
    z, prof = make_profiles(profile)
    nxe, nye = nx + 2 * px, ny + 2 * py
    q0 = np.pad(make_source("random", ny, nx, seed), ((py, py), (px, px)))
    try:
        conc, flx = _solve(q0, z, prof, (nxe * dx, nye * dy), levels, modes=tuple(modes),
                           meas_pt=tuple(meas_pt), footprint=True, analytic=analytic, halo=0.0)
    except SolverCrash as e:
        return _crash(e, analytic, levels)
    R, Rtop = resistance(z, prof[4], levels)
    sf = flx.sum(axis=(1, 2))
    sc = conc.sum(axis=(1, 2))
    ef = float(np.max(np.abs(sf - 1.0)))
    ec = float(np.max(np.abs(sc + R))) / Rtop
    mode = "analytic" if analytic else "numeric"
    detail = ("%s %dx%d levels=%s: |sum(flx)-1| = %.2e, conc-sum err %.2e"
              % (mode, nxe, nye, levels, ef, ec))
    if not np.isfinite(ef) or ef > TOL:
        return Verdict(False, detail + " | sums %s" % sf.tolist(), key="footprint-sum-" + mode)
    if not np.isfinite(ec) or ec > TOL:
        return Verdict(False, detail + " | conc sums %s vs %s" % (sc.tolist(), (-R).tolist()),
                       key="footprint-conc-sum-" + mode)
    return Verdict(True, detail)


@S.kind("halo_vs_pad")
def halo_vs_pad(nx, ny, X, Y, halo, profile, levels, modes, meas_pt, bg, footprint, analytic,
                source, seed):
    """Run A: halo=h.  Run B: source zero-padded by int(h/dx), int(h/dy) cells, domain enlarged
    by the same cells, halo=0, the tower at the same physical point (meas_pt + pad offset),
    result cropped.  A == B."""
    z, prof = make_profiles(profile)
    q0 = make_source(source, ny, nx, seed)
    px, py, dx, dy, comm = pad_widths(nx, ny, X, Y, halo)
    tag = "halo-%s%s-%s-%s" % ("default-" if halo is None else "",
                               "commensurate" if comm else "incommensurate",
                               "footprint" if footprint else "dispersion",
                               "analytic" if analytic else "numeric")
    shifted = footprint or meas_pt[0] != 0.0 or meas_pt[1] != 0.0
    mB = (meas_pt[0] + px * dx, meas_pt[1] + py * dy) if shifted else (0.0, 0.0)
    kw = dict(modes=tuple(modes), srf_bg_conc=bg, footprint=footprint, analytic=analytic)
    try:
        cA, fA = _solve(q0, z, prof, (X, Y), levels, meas_pt=tuple(meas_pt), halo=halo, **kw)
        qB = np.pad(q0, ((py, py), (px, px)))
        cB, fB = _solve(qB, z, prof, (X + 2 * px * dx, Y + 2 * py * dy), levels, meas_pt=mB,
                        halo=0.0, **kw)
    except SolverCrash as e:
        return _crash(e, analytic, levels)
    nye, nxe = qB.shape
    G = shooting_growth(z, prof, nxe, nye, dx, dy, modes)
    tol = rounding_tol(G, analytic)
    worst = 0.0
    for name, a, b in (("conc", cA, cB), ("flux", fA, fB)):
        ref = b[:, py:nye - py, px:nxe - px]
        scale = float(np.max(np.abs(b - (bg if name == "conc" else 0.0)))) + abs(bg) * (name == "conc")
        d = float(np.max(np.abs(a - ref))) / scale
        worst = max(worst, d)
        if not np.isfinite(d) or d > tol:
            return Verdict(False, "%s: halo run differs from padded run by %.3e of the field "
                           "maximum (halo=%s, px*dx=%g, py*dy=%g, dx=%g, dy=%g, G=%.1f, tol %.1e)"
                           % (name, d, halo, px * dx, py * dy, dx, dy, G, tol), key=tag)
    return Verdict(True, "%s px=%d py=%d worst=%.2e (G=%.1f tol %.1e)"
                   % (tag, px, py, worst, G, tol),
                   nontrivial=px + py > 0)


# ------------------------------------------------------------------ the bounded family
PROFILES = [
    dict(type="closure", closure="MOST", n=8, zm=5.0, wind=[3.0, 1.0], ustar=0.4, mol=-50.0),
    dict(type="closure", closure="MOST", n=6, zm=4.0, wind=[-2.0, 2.5], ustar=0.3, mol=80.0),
    dict(type="closure", closure="MOSTM", n=8, zm=5.0, wind=[2.0, -3.0], ustar=0.35, mol=-30.0,
         stretch=8.0),
    dict(type="closure", closure="MOSTM", n=10, zm=6.0, wind=[1.0, 4.0], ustar=0.5, mol=1e9),
    dict(type="closure", closure="CONSTANT", n=8, zm=5.0, wind=[3.0, 1.0], ustar=0.4, mol=1e9),
    dict(type="formula", n=10, z0=0.1, zt=12.0, uref=3.5, dir=200.0, a=0.12, b=0.02),
]
CONSTANT = PROFILES[4]
SOURCES = ["random", "signed", "sparse", "smooth"]


def _nz(p):
    """Index of the top node (vertical_profiles with the default domain height)."""
    z, _ = make_profiles(p)
    return len(z) - 1


def _levels(p, c):
    top = _nz(p)
    opts = [top // 2, [0, 1, top // 2, top], top, [2, top - 1], 0]
    return opts[c % len(opts)]


def _modes(nxe, nye, c):
    even = nxe % 2 == 0 and nye % 2 == 0
    opts = [[512, 512]]
    if even:
        opts += [[nxe, nye], [nxe - 4, nye - 2], [4, 4]]
    elif nxe % 2 == 0 or nye % 2 == 0:
        # one odd axis (only the clamp is admissible there) and one even axis, which is really truncated
        def ax(n):
            return 512 if n % 2 else [max(n - 4, 2), 4, n][c % 3]
        return [ax(nxe), ax(nye)]
    return opts[c % len(opts)]


def _random_grid(rng):
    """Seeded random member of the grid/halo family (thorough tier)."""
    nx, ny = rng.randint(5, 14), rng.randint(5, 14)
    dx = rng.choice([4.0, 5.0, 7.5, 10.0, 12.5, 20.0])
    dy = rng.choice([d for d in (4.0, 5.0, 7.5, 10.0, 12.5, 20.0) if 0.5 <= d / dx <= 2.0])
    r = rng.random()
    if r < 0.15:
        halo = None
    elif r < 0.25:
        halo = 0.0
    elif r < 0.5:
        halo = rng.randint(1, 3) * dx
    else:
        halo = round(rng.uniform(0.2, 3.2) * dx, 2)
    return nx, ny, nx * dx, ny * dy, halo


def generate(tier, rng):
    thorough = tier == "thorough"
    reps = 3 if thorough else 1
    # ---- means / footprint sums on the explicitly padded domain
    shapes = [(8, 6, 10.0, 7.5, 2, 2), (7, 5, 10.0, 10.0, 3, 1), (12, 8, 5.0, 8.0, 0, 0),
              (6, 9, 4.0, 6.0, 2, 3), (16, 12, 10.0, 7.5, 4, 6), (5, 5, 20.0, 15.0, 5, 7),
              (12, 9, 5.0, 8.0, 1, 2), (9, 12, 6.0, 4.0, 2, 1)]
    c = 0
    for rep in range(reps):
        for (nx, ny, dx, dy, px, py) in shapes:
            for pi, p in enumerate(PROFILES):
                c += 1
                nxe, nye = nx + 2 * px, ny + 2 * py
                mp = [[0.0, 0.0], [2 * dx, 1 * dy], [1.7 * dx, 2.2 * dy]][c % 3]
                yield "means", dict(
                    nx=nx, ny=ny, dx=dx, dy=dy, px=px, py=py, profile=p, levels=_levels(p, c),
                    modes=_modes(nxe, nye, c), meas_pt=mp, bg=(0.0, 2.5, -1.0)[c % 3],
                    analytic=False, source=SOURCES[c % 4], seed=rng.randrange(10 ** 6))
                if (c + rep) % 2 == 0:
                    yield "footprint_sum", dict(
                        nx=nx, ny=ny, dx=dx, dy=dy, px=px, py=py, profile=p,
                        levels=_levels(p, c + 1), modes=_modes(nxe, nye, c + 1), meas_pt=mp,
                        analytic=False, seed=rng.randrange(10 ** 6))
            for lv in (3, [0, 2, 5, 8]):          # analytic mode: constant profiles
                c += 1
                nxe, nye = nx + 2 * px, ny + 2 * py
                yield "means", dict(
                    nx=nx, ny=ny, dx=dx, dy=dy, px=px, py=py, profile=CONSTANT, levels=lv,
                    modes=_modes(nxe, nye, c), meas_pt=[0.0, 0.0] if c % 2 else [dx, 2 * dy],
                    bg=(0.0, 2.5, -1.0)[c % 3], analytic=True, source=SOURCES[c % 4],
                    seed=rng.randrange(10 ** 6))
                yield "footprint_sum", dict(
                    nx=nx, ny=ny, dx=dx, dy=dy, px=px, py=py, profile=CONSTANT, levels=lv,
                    modes=_modes(nxe, nye, c + 1), meas_pt=[1.5 * dx, 0.5 * dy], analytic=True,
                    seed=rng.randrange(10 ** 6))
    # ---- halo == padding
    #        nx  ny   X      Y     halo
    halos = [(16, 12, 160.0, 90.0, 20.0),     # dx=10, dy=7.5: py*dy = 15 != 20
             (16, 12, 160.0, 90.0, 30.0),     # commensurate in both
             (16, 12, 160.0, 90.0, 25.0),     # incommensurate in both
             (16, 12, 160.0, 90.0, None),     # 160 = 16*10 = 21.33*7.5
             (12, 12, 60.0, 60.0, None),      # square default halo
             (9, 7, 90.0, 42.0, 12.0),        # odd sizes, dx=10, dy=6: commensurate in y only
             (7, 9, 28.0, 36.0, 8.0),         # odd sizes, dx=dy=4, commensurate
             (10, 8, 50.0, 64.0, 0.0),        # no halo at all
             (10, 6, 200.0, 90.0, 7.0)]       # halo narrower than a cell: no padding
    c = 0
    for rep in range(reps):
        for (nx, ny, X, Y, halo) in halos:
            for fp in (False, True):
                for an in (False, True):
                    for multi in ((False, True) if (thorough or an) else (bool((c // 2) % 2),)):
                        c += 1
                        p = CONSTANT if an else PROFILES[c % len(PROFILES)]
                        top = _nz(p)
                        lv = [1, top // 2, top] if multi else (top // 2 if c % 2 else top)
                        px, py, dx, dy, _ = pad_widths(nx, ny, X, Y, halo)
                        mp = [[0.0, 0.0], [3 * dx, 2 * dy], [2.3 * dx, 1.6 * dy]][c % 3]
                        yield "halo_vs_pad", dict(
                            nx=nx, ny=ny, X=X, Y=Y, halo=halo, profile=p, levels=lv,
                            modes=_modes(nx + 2 * px, ny + 2 * py, c + rep), meas_pt=mp,
                            bg=0.0 if fp else (0.0, 1.5)[c % 2], footprint=fp, analytic=an,
                            source=SOURCES[c % 4], seed=rng.randrange(10 ** 6))
    # ---- seeded random members (thorough only)
    if thorough:
        for i in range(360):
            nx, ny, X, Y, halo = _random_grid(rng)
            px, py, dx, dy, _ = pad_widths(nx, ny, X, Y, halo)
            an = rng.random() < 0.3
            p = CONSTANT if an else rng.choice(PROFILES)
            top = _nz(p)
            lv = sorted(rng.sample(range(top + 1), rng.randint(2, 4))) if rng.random() < 0.5 \
                else rng.randint(0, top)
            fp = rng.random() < 0.5
            mp = [0.0, 0.0] if rng.random() < 0.3 else \
                [round(rng.uniform(0, X), 2), round(rng.uniform(0, Y), 2)]
            modes = _modes(nx + 2 * px, ny + 2 * py, rng.randrange(4))
            if i % 3:
                yield "halo_vs_pad", dict(
                    nx=nx, ny=ny, X=X, Y=Y, halo=halo, profile=p, levels=lv, modes=modes,
                    meas_pt=mp, bg=0.0 if fp else round(rng.uniform(-1, 3), 2), footprint=fp,
                    analytic=an, source=rng.choice(SOURCES), seed=rng.randrange(10 ** 6))
            elif fp:
                yield "footprint_sum", dict(
                    nx=nx, ny=ny, dx=dx, dy=dy, px=px, py=py, profile=p, levels=lv, modes=modes,
                    meas_pt=mp, analytic=an, seed=rng.randrange(10 ** 6))
            else:
                yield "means", dict(
                    nx=nx, ny=ny, dx=dx, dy=dy, px=px, py=py, profile=p, levels=lv, modes=modes,
                    meas_pt=mp, bg=round(rng.uniform(-1, 3), 2), analytic=an,
                    source=rng.choice(SOURCES), seed=rng.randrange(10 ** 6))


if __name__ == "__main__":
    S.main(generate)
