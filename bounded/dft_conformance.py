"""Bounded conformance of the DFT contract (DESIGN 3.2) and of the textbook lemmas D1-D5 on the REAL
FFT layer (bldfm.fft_manager.fft2/ifft2 -> pyfftw): definitions against the O(n^2) sums for all shapes
up to 7x6, both norms, thread settings 1 and 4; D1 (DC bin <-> mean), D2 (linearity), D3 (shift
theorem), D4 (reciprocity, DESIGN B.2), D5 (reflection / transposition).  Runs under /venv/bin/python.
usage: dft_conformance.py [--max 7]   -> JSON on stdout; exit 0 / 3"""
import argparse, json, os, sys, shutil, atexit
import numpy as np

here = os.path.dirname(os.path.abspath(__file__))
work = os.path.join(os.path.dirname(here), ".work", "dft%d" % os.getpid())
os.makedirs(work, exist_ok=True)
os.chdir(work)
atexit.register(lambda: (os.chdir(here), shutil.rmtree(work, ignore_errors=True)))
import logging
logging.disable(logging.CRITICAL)
from bldfm import fft_manager, config  # noqa: E402


def dft2(a, sign, scale):
    ny, nx = a.shape[-2:]
    j, y = np.meshgrid(np.arange(ny), np.arange(ny), indexing="ij")
    i, x = np.meshgrid(np.arange(nx), np.arange(nx), indexing="ij")
    Wy = np.exp(sign * 2j * np.pi * j * y / ny)
    Wx = np.exp(sign * 2j * np.pi * i * x / nx)
    return np.einsum("jy,...yx,ix->...ji", Wy, a, Wx) * scale


def main():
    ap = argparse.ArgumentParser()
    ap.add_argument("--max", type=int, default=6)
    ap.add_argument("--replay", action="store_true", help="print REPLAY-PASS/REPLAY-FAIL for the definitional checks")
    a = ap.parse_args()
    rng = np.random.default_rng(0)
    n, fails, kinds = 0, [], {}

    def chk(name, x, y, tol=1e-10):
        nonlocal n
        n += 1
        kinds[name] = kinds.get(name, 0) + 1
        if not np.allclose(x, y, rtol=tol, atol=tol * max(1.0, np.abs(y).max())):
            fails.append({"what": name, "err": float(np.abs(x - y).max()), "shape": list(np.shape(x)),
                          "layer": "definition" if name.startswith(("fft2-", "ifft2-")) else "lemma"})

    for threads in (1, 4):
        config.NUM_THREADS = threads
        fft_manager.reset_fft_manager()
        fft_manager.get_fft_manager(num_threads=threads)
        for ny in range(1, a.max + 2):
            for nx in range(1, a.max + 1):
                A = rng.normal(size=(2, ny, nx)) + 1j * rng.normal(size=(2, ny, nx))
                N = ny * nx
                chk("fft2-forward-norm", fft_manager.fft2(A, norm="forward"), dft2(A, -1, 1.0 / N))
                chk("fft2-backward-norm", fft_manager.fft2(A, norm="backward"), dft2(A, -1, 1.0))
                chk("ifft2-forward-norm", fft_manager.ifft2(A, norm="forward"), dft2(A, +1, 1.0))
                chk("ifft2-backward-norm", fft_manager.ifft2(A, norm="backward"), dft2(A, +1, 1.0 / N))
                Rr = rng.normal(size=(2, ny, nx))          # real input (the solver transforms a real padded source)
                chk("fft2-real-input-forward", fft_manager.fft2(Rr, norm="forward"), dft2(Rr.astype(complex), -1, 1.0 / N))
                chk("fft2-real-input-2d", fft_manager.fft2(Rr[0], norm="forward"), dft2(Rr[0].astype(complex), -1, 1.0 / N))
                chk("ifft2-real-input", fft_manager.ifft2(Rr[0], norm="forward"), dft2(Rr[0].astype(complex), +1, 1.0))
                # batch of levels: every slice is transformed independently (no aliasing between levels)
                B3 = fft_manager.fft2(A, norm="backward")
                chk("fft2-batch-slices-independent", B3[1], fft_manager.fft2(A[1].copy(), norm="backward"))
                chk("fft2-batch-slices-independent", B3[0], fft_manager.fft2(A[0].copy(), norm="backward"))
                F = fft_manager.fft2(A[0], norm="forward")
                chk("D1-dc-is-mean", F[0, 0], A[0].mean())
                B = rng.normal(size=(ny, nx))
                chk("D2-linearity", fft_manager.fft2(2.5 * A[0] - 3 * B, norm="forward"), 2.5 * F - 3 * fft_manager.fft2(B, norm="forward"))
                sy, sx = int(rng.integers(0, ny)), int(rng.integers(0, nx))
                ky = np.fft.fftfreq(ny, d=1.0 / ny)[:, None]
                kx = np.fft.fftfreq(nx, d=1.0 / nx)[None, :]
                ph = np.exp(-2j * np.pi * (ky * sy / ny + kx * sx / nx))
                chk("D3-shift", fft_manager.fft2(np.roll(A[0], (sy, sx), axis=(0, 1)), norm="forward"), F * ph)
                chk("D5-reflection", fft_manager.fft2(F, norm="backward"), np.roll(np.flip(fft_manager.ifft2(F, norm="forward"), (0, 1)), (1, 1), (0, 1)))
                chk("D5-transposition", fft_manager.fft2(A[0].T, norm="forward"), F.T)
                # D4 reciprocity (B.2): sum_r q(r) G(r_m - r) = (q * G)(r_m), with G from a random transfer function H
                H = rng.normal(size=(ny, nx)) + 1j * rng.normal(size=(ny, nx))
                q = rng.normal(size=(ny, nx))
                fwd = fft_manager.ifft2(H * fft_manager.fft2(q, norm="forward"), norm="forward")
                jm, im = int(rng.integers(0, ny)), int(rng.integers(0, nx))
                shift = np.exp(2j * np.pi * (ky * jm / ny + kx * im / nx))
                fp = fft_manager.fft2(H * shift / N, norm="backward")
                chk("D4-reciprocity", (q * fp).sum(), fwd[jm, im])
    print(json.dumps({"what": "DFT contract and lemmas D1-D5 on bldfm.fft_manager (pyfftw), threads 1 and 4",
                      "bound": "all shapes up to %dx%d, both norms" % (a.max + 1, a.max), "evaluations": n, "distinct_nontrivial": n,
                      "per_kind": kinds, "n_failures": len(fails), "failures": fails[:5],
                      "n_definition_failures": sum(1 for f in fails if f["layer"] == "definition"),
                      "rule": "each evaluation compares one transform / lemma instance with the O(n^2) definition"}))
    defs = [f for f in fails if f["layer"] == "definition"]
    if a.replay:
        print(("REPLAY-FAIL " if defs else "REPLAY-PASS ") + "bldfm.fft_manager.fft2/ifft2 against the O(n^2) DFT sums, shapes up to %dx%d: %s"
              % (a.max + 1, a.max, json.dumps(defs[:3]) if defs else "all definitional checks hold"))
    sys.exit(3 if fails else 0)


if __name__ == "__main__":
    main()
