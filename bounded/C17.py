"""C17 - tower geolocation: local metres and lat/lon are mutual inverses, well oriented.

Bounded stand-in for the clause no contract decides (great-circle accuracy: 0.1 % in distance,
0.1 deg in bearing for offsets up to 5 km, |ref lat| <= 60) plus native replays of the proved
clauses (round trips both ways, origin -> (0,0), x east / y north, element-wise arrays, tower
coordinates filled at configuration time).

Oracle: haversine distance and initial great-circle bearing on the sphere of radius 6 371 000 m,
written here from the textbook formulas.  Longitudes: the reference may sit anywhere, including
within metres of the +-180 meridian; the point is ``reference + offset`` and keeps the
*unwrapped* longitude the inverse transform returns (so east of +180 it is > 180).  Wrapping a
longitude into (-180, 180] before the forward transform is not part of the statement and is not
demanded.
"""
import math
import os
import sys

sys.path.insert(0, os.path.dirname(__file__))
from _common import Suite, Verdict  # noqa: E402

S = Suite(
    "C17",
    what="latlon_to_xy / plotting._geo.xy_to_latlon: round trips, origin, orientation, arrays, "
         "TowerConfig local xy; distance and bearing against haversine / initial bearing",
    bound="seeded reference points |lat| <= 60, lon in [-180,180] (1/5 of them within 0.05 deg of "
          "the date line, unwrapped crossing; reference origins with latitude and / or longitude "
          "exactly 0 as float and int), offsets 50 m .. 5 km, bearings uniform; 2 000 "
          "points quick / 20 000 thorough; poles and wrapped date-line crossing not examined",
    rule="round trip <= 1e-9 deg / 1e-6 m; |d_local/d_haversine - 1| <= 1e-3; |bearing diff| <= "
         "0.1 deg; x strictly increases with lon, y with lat; origin maps to (0.0, 0.0) exactly",
)

R = 6_371_000.0
TOL_DEG = 1e-9     # 0.1 mm on the ground; float round-off is ~1e-13 deg
TOL_M = 1e-6


def haversine(lat1, lon1, lat2, lon2):
    p1, p2 = math.radians(lat1), math.radians(lat2)
    dp = p2 - p1
    dl = math.radians(lon2 - lon1)
    a = math.sin(dp / 2) ** 2 + math.cos(p1) * math.cos(p2) * math.sin(dl / 2) ** 2
    return 2 * R * math.asin(min(1.0, math.sqrt(a)))


def initial_bearing(lat1, lon1, lat2, lon2):
    p1, p2 = math.radians(lat1), math.radians(lat2)
    dl = math.radians(lon2 - lon1)
    yy = math.sin(dl) * math.cos(p2)
    xx = math.cos(p1) * math.sin(p2) - math.sin(p1) * math.cos(p2) * math.cos(dl)
    return math.degrees(math.atan2(yy, xx)) % 360.0


def angdiff(a, b):
    return abs((a - b + 180.0) % 360.0 - 180.0)


@S.kind("point")
def point(ref_lat, ref_lon, dist, bearing):
    from bldfm.config_parser import latlon_to_xy
    from bldfm.plotting._geo import xy_to_latlon
    th = math.radians(bearing)
    x, y = dist * math.sin(th), dist * math.cos(th)      # bearing clockwise from north
    # origin
    x0, y0 = latlon_to_xy(ref_lat, ref_lon, ref_lat, ref_lon)
    if not (x0 == 0.0 and y0 == 0.0):
        return Verdict(False, "origin maps to (%r,%r)" % (x0, y0), key="origin-not-zero")
    la0, lo0 = xy_to_latlon(0.0, 0.0, ref_lat, ref_lon)
    if abs(la0 - ref_lat) > TOL_DEG or abs(lo0 - ref_lon) > TOL_DEG:
        return Verdict(False, "(0,0) maps to (%r,%r)" % (la0, lo0), key="origin-inverse")
    # xy -> latlon -> xy
    lat, lon = xy_to_latlon(x, y, ref_lat, ref_lon)
    lat, lon = float(lat), float(lon)
    x2, y2 = latlon_to_xy(lat, lon, ref_lat, ref_lon)
    if abs(x2 - x) > TOL_M or abs(y2 - y) > TOL_M:
        return Verdict(False, "xy->latlon->xy: (%r,%r) -> (%r,%r) -> (%r,%r)"
                       % (x, y, lat, lon, x2, y2), key="roundtrip-xy")
    # latlon -> xy -> latlon
    lat3, lon3 = xy_to_latlon(x2, y2, ref_lat, ref_lon)
    if abs(lat3 - lat) > TOL_DEG or abs(lon3 - lon) > TOL_DEG:
        return Verdict(False, "latlon->xy->latlon: (%r,%r) -> (%r,%r)" % (lat, lon, lat3, lon3),
                       key="roundtrip-latlon")
    # orientation: the point lies north (south) of the origin iff y > 0, east iff x > 0
    if (y > 0) != (lat > ref_lat) and abs(y) > 1e-3:
        return Verdict(False, "y=%r but lat-ref=%r" % (y, lat - ref_lat), key="y-not-northward")
    if (x > 0) != (lon > ref_lon) and abs(x) > 1e-3:
        return Verdict(False, "x=%r but lon-ref=%r" % (x, lon - ref_lon), key="x-not-eastward")
    # strict monotonicity of the forward transform
    xe, ye = latlon_to_xy(lat, lon + 1e-4, ref_lat, ref_lon)
    xn, yn = latlon_to_xy(lat + 1e-4, lon, ref_lat, ref_lon)
    if not (xe > x2):
        return Verdict(False, "east step: x %r -> %r, y %r -> %r" % (x2, xe, y2, ye),
                       key="x-not-eastward")
    if not (yn > y2):
        return Verdict(False, "north step: y %r -> %r" % (y2, yn), key="y-not-northward")
    # great-circle agreement (the statement's own numbers)
    dh = haversine(ref_lat, ref_lon, lat, lon)
    bh = initial_bearing(ref_lat, ref_lon, lat, lon)
    dl = math.hypot(x2, y2)
    bl = math.degrees(math.atan2(x2, y2)) % 360.0
    rel = abs(dl / dh - 1.0)
    db = angdiff(bl, bh)
    if rel > 1e-3:
        return Verdict(False, "distance local %.4f vs great circle %.4f m (rel %.2e) at ref "
                       "(%r,%r)" % (dl, dh, rel, ref_lat, ref_lon), key="distance-off")
    if db > 0.1:
        return Verdict(False, "bearing local %.4f vs great circle %.4f deg (diff %.4f)"
                       % (bl, bh, db), key="bearing-off")
    return Verdict(True, "rel=%.2e dbear=%.4f" % (rel, db), measured={"rel": rel, "dbear": db})


@S.kind("arrays")
def arrays(ref_lat, ref_lon, seed, n, shape2d, layout="random"):
    """xy_to_latlon on arrays equals the scalar calls element by element -- for scattered points and for point sets with
    structure (meshgrids of either indexing, a polar sampling grid, a rotated grid, arrays whose first column / first row
    is constant while the interior is not)."""
    import numpy as np
    from bldfm.plotting._geo import xy_to_latlon
    rs = np.random.RandomState(seed)
    x = rs.uniform(-5000, 5000, n)
    y = rs.uniform(-5000, 5000, n)
    if shape2d:
        x = x.reshape(2, -1)
        y = y.reshape(2, -1)
    if layout != "random":
        m = max(3, int(round(math.sqrt(n))))
        ax, ay = np.sort(rs.uniform(-4000, 4000, m + 1)), np.sort(rs.uniform(-4000, 4000, m))
        if layout == "meshgrid-xy":
            x, y = np.meshgrid(ax, ay)
        elif layout == "meshgrid-ij":
            x, y = np.meshgrid(ax, ay, indexing="ij")
        elif layout == "polar":          # (azimuth, radius), radius from 0, azimuth from 0 counter-clockwise from east
            r, phi = np.linspace(0.0, 3000.0, m + 1), np.linspace(0.0, 2 * np.pi, m, endpoint=False)
            x, y = r[None, :] * np.cos(phi)[:, None], r[None, :] * np.sin(phi)[:, None]
        elif layout == "polar-T":
            r, phi = np.linspace(0.0, 3000.0, m + 1), np.linspace(0.0, 2 * np.pi, m, endpoint=False)
            x, y = (r[None, :] * np.cos(phi)[:, None]).T, (r[None, :] * np.sin(phi)[:, None]).T
        elif layout == "rotated":
            X, Y = np.meshgrid(ax, ay)
            x, y = 0.8 * X - 0.6 * Y, 0.6 * X + 0.8 * Y
        elif layout == "edge-constant":  # first column of x and first row of y constant, first row of x / column of y too
            x, y = rs.uniform(-4000, 4000, (m, m + 1)), rs.uniform(-4000, 4000, (m, m + 1))
            x[:, 0] = x[0, 0]
            y[0, :] = y[0, 0]
            if seed % 2:
                x[0, :] = x[0, 0]
                y[:, 0] = y[0, 0]
        elif layout == "3d":
            x, y = rs.uniform(-4000, 4000, (2, 3, 4)), rs.uniform(-4000, 4000, (2, 3, 4))
        else:
            raise ValueError(layout)
        x, y = np.array(x, dtype=float), np.array(y, dtype=float)
    x_before, y_before = x.copy(), y.copy()
    la, lo = xy_to_latlon(x, y, ref_lat, ref_lon)
    if not (np.array_equal(x, x_before) and np.array_equal(y, y_before)):
        return Verdict(False, "xy_to_latlon modified the coordinate arrays it was given", key="arguments-mutated")
    if np.shape(la) != x.shape or np.shape(lo) != x.shape:
        return Verdict(False, "shapes %r %r for input %r" % (np.shape(la), np.shape(lo), x.shape),
                       key="array-shape")
    for idx in np.ndindex(x.shape):
        a, b = xy_to_latlon(float(x[idx]), float(y[idx]), ref_lat, ref_lon)
        if abs(a - la[idx]) > 1e-12 or abs(b - lo[idx]) > 1e-12:
            return Verdict(False, "element %r: array (%r,%r) vs scalar (%r,%r)"
                           % (idx, la[idx], lo[idx], a, b), key="array-not-elementwise")
    return Verdict(True, "n=%d" % n)


@S.kind("tower-config")
def tower_config(ref_lat, ref_lon, offsets):
    """Tower local coordinates are filled when the configuration is built."""
    from bldfm.config_parser import parse_config_dict, latlon_to_xy
    from bldfm.plotting._geo import xy_to_latlon
    towers = []
    for k, (x, y) in enumerate(offsets):
        la, lo = xy_to_latlon(x, y, ref_lat, ref_lon)
        towers.append({"name": "T%d" % k, "lat": float(la), "lon": float(lo), "z_m": 3.0 + k})
    cfg = parse_config_dict({
        "domain": {"nx": 8, "ny": 8, "xmax": 100.0, "ymax": 100.0, "nz": 4,
                   "ref_lat": ref_lat, "ref_lon": ref_lon},
        "towers": towers, "met": {"ustar": 0.3}})
    for t, (x, y), d in zip(cfg.towers, offsets, towers):
        if abs(t.x - x) > TOL_M or abs(t.y - y) > TOL_M:
            return Verdict(False, "tower %s: local (%r,%r), placed at (%r,%r)"
                           % (t.name, t.x, t.y, x, y), key="tower-xy-not-filled")
        if (t.x, t.y) != latlon_to_xy(d["lat"], d["lon"], ref_lat, ref_lon):
            return Verdict(False, "tower xy differs from latlon_to_xy", key="tower-xy-not-filled")
    # the configuration rebuilt around the SAME tower objects (a parameter sweep with dataclasses.replace re-runs
    # __post_init__): the coordinates are those of the forward map again, not shifted, and an array grid handed to the
    # inverse map is not modified by it
    import dataclasses
    for rep in range(2):
        cfg = dataclasses.replace(cfg, met=dataclasses.replace(cfg.met, wind_dir=10.0 * (rep + 1)))
        for t, (x, y), d in zip(cfg.towers, offsets, towers):
            if (t.x, t.y) != latlon_to_xy(d["lat"], d["lon"], ref_lat, ref_lon):
                return Verdict(False, "tower %s after %d rebuild(s) of the configuration around the same towers: local (%r,%r), forward map "
                               "gives %r" % (t.name, rep + 1, t.x, t.y, latlon_to_xy(d["lat"], d["lon"], ref_lat, ref_lon)),
                               key="tower-xy-depends-on-history")
    return Verdict(True, "%d towers" % len(offsets))


def _ref(rng):
    lat = rng.uniform(-60.0, 60.0)
    r = rng.random()
    if r < 0.1:
        lon = 180.0 - rng.uniform(0.0, 0.05)
    elif r < 0.2:
        lon = -180.0 + rng.uniform(0.0, 0.05)
    elif r < 0.25:
        lon = rng.choice([0.0, 180.0, -180.0, 90.0, -90.0])
        lat = rng.choice([0.0, 60.0, -60.0, 45.0, lat])
    else:
        lon = rng.uniform(-180.0, 180.0)
    return lat, lon


def generate(tier, rng):
    npts = 2000 if tier == "quick" else 20000
    for k in range(npts):
        lat, lon = _ref(rng)
        if k % 10 == 0:
            dist = rng.choice([50.0, 5000.0])
        else:
            dist = math.exp(rng.uniform(math.log(50.0), math.log(5000.0)))
        if k % 7 == 0:
            bearing = float(rng.randrange(0, 360, 5))          # the 72 bearings of the design
        else:
            bearing = rng.uniform(0.0, 360.0)
        yield "point", dict(ref_lat=lat, ref_lon=lon, dist=dist, bearing=bearing)
    for k in range(20 if tier == "quick" else 200):
        lat, lon = _ref(rng)
        yield "arrays", dict(ref_lat=lat, ref_lon=lon, seed=rng.randrange(2 ** 31),
                             n=2 * rng.randint(1, 20), shape2d=bool(k % 2))
    for k, layout in enumerate(("meshgrid-xy", "meshgrid-ij", "polar", "polar-T", "rotated", "edge-constant", "edge-constant", "3d") * (1 if tier == "quick" else 6)):
        lat, lon = _ref(rng)
        yield "arrays", dict(ref_lat=lat, ref_lon=lon, seed=rng.randrange(2 ** 31), n=(16, 36, 64)[k % 3], shape2d=True, layout=layout)
    for k in range(20 if tier == "quick" else 200):
        lat, lon = _ref(rng)
        offs = [[rng.uniform(-5000, 5000), rng.uniform(-5000, 5000)]
                for _ in range(rng.randint(1, 4))]
        yield "tower-config", dict(ref_lat=lat, ref_lon=lon, offsets=offs)
    # reference origins on the equator and / or the Greenwich meridian, as float and as the
    # integer a YAML file yields: 0 is a coordinate like any other ("any longitude")
    for lat, lon in ((0.0, 37.3), (51.4779, 0.0), (0.0, 0.0), (0, 0), (-45.0, 0), (0, -120.5),
                     (0.0, 180.0), (60.0, 0.0)):
        for _ in range(1 if tier == "quick" else 5):
            offs = [[rng.uniform(-5000, 5000), rng.uniform(-5000, 5000)]
                    for _ in range(rng.randint(1, 4))]
            yield "tower-config", dict(ref_lat=lat, ref_lon=lon, offsets=offs)
            yield "point", dict(ref_lat=float(lat), ref_lon=float(lon),
                                dist=rng.uniform(50.0, 5000.0), bearing=rng.uniform(0.0, 360.0))


if __name__ == "__main__":
    S.main(generate)
