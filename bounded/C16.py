"""C16 - met time series: one step per list entry, scalars broadcast, mismatches rejected.

Bounded stand-in / replay oracle.  Exhaustive over the quantifier of the property:
all 2^4 list/scalar patterns of (ustar, mol, wind_speed, wind_dir) x lengths 1..4 x
timestamps absent / right length (strings, integers) / wrong length x ustar / z0 / both /
neither.  The oracle is the statement, evaluated on the *parameters* of the case (never on the
code): n = common length of the list-valued fields or 1; step i = i-th entry of lists, the
scalar otherwise; timestamp i-th or i; z0 present iff configured; build raises ValueError iff
lengths disagree / timestamps have another length than n / neither ustar nor z0.
"""
import itertools
import os
import sys

sys.path.insert(0, os.path.dirname(__file__))
from _common import Suite, Verdict  # noqa: E402

S = Suite(
    "C16",
    what="MetConfig.n_timesteps / get_step / validate-at-build via parse_config_dict and "
         "BLDFMConfig(...) against the statement, exhaustively over the small pattern space",
    bound="16 list/scalar patterns x lengths 1..4 x timestamps none/str/int/wrong(+1,+2,-1>=1) x "
          "forcing ustar/z0/both/neither x build path dict/dataclass; histories on ONE MetConfig "
          "instance: every ordered pair of valid forcings (quick: 13 first stages x all 61), "
          "fields replaced in place and the configuration rebuilt, plus 3..5-stage walks and "
          "walks through a rejected forcing; bldfm.cli.cmd_run on YAML files of the 16 patterns x "
          "lengths 1..4 x 1..3 towers with a recording single run; list lengths > 4 and non-list "
          "sequences are not examined",
    rule="n_timesteps == common list length (1 if none); get_step(i) == expected dict for all i; "
         "ValueError at build iff the statement rejects the forcing; in a history the same for "
         "the CURRENT fields after every replacement",
)

FIELDS = ("ustar", "mol", "wind_speed", "wind_dir")
# distinct, recognisable values: field f, entry i -> BASE[f] + i*STEP[f]
BASE = {"ustar": 0.25, "mol": -40.0, "wind_speed": 2.5, "wind_dir": 10.0}
STEP = {"ustar": 0.05, "mol": -15.0, "wind_speed": 0.75, "wind_dir": 35.0}
Z0 = 0.07


def _val(f, i):
    return BASE[f] + i * STEP[f]


def _met_dict(lengths, forcing, ts_len, ts_type):
    """lengths: {field: L or 0 (scalar)}; forcing in ustar|z0|both|neither."""
    met = {}
    for f in FIELDS:
        if f == "ustar" and forcing in ("z0", "neither"):
            continue
        L = lengths.get(f, 0)
        met[f] = [_val(f, i) for i in range(L)] if L else _val(f, 0)
    if forcing in ("z0", "both"):
        met["z0"] = Z0
    if ts_len is not None:
        if ts_type == "int":
            met["timestamps"] = [100 + 7 * i for i in range(ts_len)]
        else:
            met["timestamps"] = ["2024-06-%02dT12:00" % (i + 1) for i in range(ts_len)]
    return met


def _build(met, via):
    from bldfm.config_parser import (parse_config_dict, BLDFMConfig, DomainConfig,
                                     TowerConfig, MetConfig)
    if via == "dict":
        return parse_config_dict({
            "domain": {"nx": 8, "ny": 8, "xmax": 80.0, "ymax": 80.0, "nz": 4,
                       "ref_lat": 50.0, "ref_lon": 11.0},
            "towers": [{"name": "T", "lat": 50.0, "lon": 11.0, "z_m": 5.0}],
            "met": met,
        })
    return BLDFMConfig(
        domain=DomainConfig(nx=8, ny=8, xmax=80.0, ymax=80.0, nz=4),
        towers=[TowerConfig(name="T", lat=50.0, lon=11.0, z_m=5.0)],
        met=MetConfig(**met),
    )


def _pattern(lengths):
    names = [f for f in FIELDS if lengths.get(f, 0)]
    return "+".join(names) if names else "all-scalar"


def _check_forcing(mobj, met, lengths, forcing, ts_len, n, pat, prefix=""):
    """n_timesteps and every step of the MetConfig `mobj` against the statement for the forcing
    described by (lengths, forcing, ts_len); None when everything is as stated."""
    got_n = mobj.n_timesteps
    if got_n != n:
        if prefix:      # in a history the witness class is the staleness, not the pattern
            key = prefix + "n_timesteps-not-current"
        else:
            key = ("n_timesteps-ignores-%s" % pat) if got_n == 1 else ("n_timesteps-wrong-%s" % pat)
        return Verdict(False, "n_timesteps=%r, statement says %d (lists: %s, length %d); met=%r"
                       % (got_n, n, pat, n, met), key=key)
    for i in range(n):
        try:
            step = mobj.get_step(i)
        except Exception as e:
            return Verdict(False, "get_step(%d) of %d raised %s: %s; met=%r"
                           % (i, n, type(e).__name__, e, met), key=prefix + "get_step-raises")
        exp = {}
        for f in FIELDS:
            if f == "ustar" and forcing == "z0":
                exp[f] = None
            else:
                exp[f] = _val(f, i) if lengths.get(f, 0) else _val(f, 0)
        exp["timestamp"] = met["timestamps"][i] if ts_len is not None else i
        if forcing in ("z0", "both"):
            exp["z0"] = Z0
        for k, v in exp.items():
            if k not in step or step[k] != v or type(step[k]) is not type(v):
                return Verdict(False, "get_step(%d)[%r]=%r, statement says %r; met=%r"
                               % (i, k, step.get(k, "<missing>"), v, met),
                               key=prefix + "get_step-%s-wrong" % k)
        if ("z0" in step and step["z0"] is not None) != (forcing in ("z0", "both")):
            return Verdict(False, "get_step(%d): z0 present=%r but configured=%r"
                           % (i, "z0" in step, forcing), key=prefix + "get_step-z0-presence")
    return None


@S.kind("valid")
def valid(lengths, forcing, ts, via):
    """A forcing the statement admits: must build, n and every step as stated."""
    lens = [L for L in lengths.values() if L]
    n = lens[0] if lens else 1
    assert all(L == n for L in lens)
    ts_len = None if ts == "none" else n
    met = _met_dict(lengths, forcing, ts_len, ts)
    pat = _pattern(lengths)
    try:
        cfg = _build(met, via)
    except ValueError as e:
        return Verdict(False, "valid forcing rejected at build: %s; met=%r" % (e, met),
                       key="valid-forcing-rejected[%s]" % pat)
    bad = _check_forcing(cfg.met, met, lengths, forcing, ts_len, n, pat)
    if bad:
        return bad
    return Verdict(True, "n=%d pattern=%s" % (n, pat), nontrivial=True)


def _stage_n(lengths):
    lens = [L for L in lengths.values() if L]
    if lens and any(L != lens[0] for L in lens):
        return None                       # the statement rejects this forcing
    return lens[0] if lens else 1


@S.kind("history")
def history(stages, via):
    """One MetConfig instance lives through several forcings: built with stages[0], then for every
    further stage its fields are REPLACED on the same instance (scalar -> list, list -> scalar,
    other lengths) and the configuration is built again around it.  After every stage
    n_timesteps and every get_step(i) must be those of the CURRENT fields (the statement is
    about the forcing's fields, not about when they were set), and a stage whose lists disagree
    in length must be rejected by the rebuild.  n_timesteps and the steps are read after every
    stage, so anything remembered from an earlier stage shows."""
    from bldfm.config_parser import BLDFMConfig
    cfg = None
    trail = []
    for si, st in enumerate(stages):
        lengths, forcing, ts = st["lengths"], st["forcing"], st["ts"]
        n = _stage_n(lengths)
        ts_len = None if ts == "none" else (n if n is not None else max(lengths.values()))
        met = _met_dict(lengths, forcing, ts_len, ts)
        pat = _pattern(lengths)
        trail.append("%s/%s" % (pat, "x" if n is None else n))
        if si == 0:
            assert n is not None
            try:
                cfg = _build(met, via)
            except ValueError as e:
                return Verdict(False, "valid forcing rejected at build: %s; met=%r" % (e, met),
                               key="valid-forcing-rejected[%s]" % pat)
        else:
            m = cfg.met
            for f in FIELDS:
                setattr(m, f, met.get(f))          # ustar absent (z0 forcing) -> None
            m.z0 = met.get("z0")
            m.timestamps = met.get("timestamps")
            try:
                cfg = BLDFMConfig(domain=cfg.domain, towers=cfg.towers, met=m)
                raised = None
            except ValueError as e:
                raised = e
            if n is None:
                if raised is None:
                    return Verdict(False, "history %s: lists of different lengths accepted when the "
                                   "configuration is rebuilt; n_timesteps=%r; met=%r"
                                   % (" -> ".join(trail), m.n_timesteps, met),
                                   key="history-list-length-mismatch-accepted")
                continue                           # stays invalid until the next stage replaces it
            if raised is not None:
                return Verdict(False, "history %s: valid forcing rejected at rebuild: %s; met=%r"
                               % (" -> ".join(trail), raised, met),
                               key="history-valid-forcing-rejected")
            if cfg.met is not m:
                return Verdict(False, "BLDFMConfig copied the MetConfig; the history is not "
                               "observed", nontrivial=False, key="history-harness")
        bad = _check_forcing(cfg.met, met, lengths, forcing, ts_len, n, pat,
                             prefix="" if si == 0 else "history-")
        if bad:
            bad.detail = "history %s (stage %d): %s" % (" -> ".join(trail), si, bad.detail)
            return bad
    return Verdict(True, "history %s" % " -> ".join(trail), nontrivial=len(stages) > 1)


@S.kind("reject")
def reject(lengths, forcing, ts_len, ts, via, why):
    """A forcing the statement rejects: building the configuration must raise ValueError."""
    met = _met_dict(lengths, forcing, ts_len, ts)
    pat = _pattern(lengths)
    try:
        cfg = _build(met, via)
    except ValueError as e:
        return Verdict(True, "rejected: %s" % str(e)[:80])
    if why == "timestamps":
        key = ("timestamps-length-all-scalar" if pat == "all-scalar"
               else "timestamps-length-accepted[%s]" % pat)
    elif why == "mismatch":
        key = "list-length-mismatch-accepted[%s]" % pat
    else:
        key = "neither-ustar-nor-z0-accepted"
    return Verdict(False, "invalid forcing (%s) accepted at build; n_timesteps=%r; met=%r"
                   % (why, cfg.met.n_timesteps, met), key=key)


@S.kind("cli")
def cli(lengths, forcing, ts, n_towers, dry_run):
    """bldfm.cli.cmd_run on a YAML file of this forcing: one single run per (tower, step), towers in configuration
    order, steps 0..n-1 in time order (n from the statement); none with --dry-run.  run_bldfm_single is replaced by a
    recorder in the cli module's namespace (the solver itself is not what this property is about)."""
    import argparse
    import yaml
    import bldfm.cli as C
    lens = [L for L in lengths.values() if L]
    n = lens[0] if lens else 1
    ts_len = None if ts == "none" else n
    met = _met_dict(lengths, forcing, ts_len, ts)
    names = ["T%d" % k for k in range(n_towers)]
    doc = {"domain": {"nx": 8, "ny": 8, "xmax": 80.0, "ymax": 80.0, "nz": 4, "ref_lat": 50.0, "ref_lon": 11.0},
           "towers": [{"name": nm, "lat": 50.0 + 1e-4 * k, "lon": 11.0, "z_m": 5.0} for k, nm in enumerate(names)],
           "met": met}
    path = os.path.abspath("cli_case.yaml")
    with open(path, "w") as f:
        yaml.safe_dump(doc, f)
    calls = []

    def recorder(config, tower, met_index=0, **kw):
        calls.append((tower.name, met_index))
        step = config.met.get_step(met_index)
        return {"timestamp": step["timestamp"], "tower_name": tower.name}
    saved = (C.run_bldfm_single, C.initialize)
    C.run_bldfm_single, C.initialize = recorder, (lambda *a, **k: None)
    try:
        C.cmd_run(argparse.Namespace(config=path, dry_run=dry_run, plot=False))
    finally:
        C.run_bldfm_single, C.initialize = saved
        os.remove(path)
    want = [] if dry_run else [(nm, i) for nm in names for i in range(n)]
    if calls != want:
        return Verdict(False, "cmd_run performed the single runs %r, statement says %r; met=%r" % (calls[:12], want[:12], met),
                       key="cli-runs-not-one-per-tower-and-step")
    return Verdict(True, "cli %d towers x %d steps" % (n_towers, n), nontrivial=not dry_run)


def _cli_cases():
    for mask in range(16):
        listed = [f for k, f in enumerate(FIELDS) if mask >> k & 1]
        for L in ((1, 2, 3, 4) if listed else (0,)):
            for n_towers in (1, 2, 3):
                forcing = ("ustar", "both", "z0")[(mask + L + n_towers) % 3]
                if forcing == "z0" and "ustar" in listed:
                    forcing = "both"
                yield "cli", dict(lengths={f: L for f in listed}, forcing=forcing, ts=("none", "str", "int")[(mask + L) % 3],
                                  n_towers=n_towers, dry_run=False)
    yield "cli", dict(lengths={"mol": 3}, forcing="ustar", ts="none", n_towers=2, dry_run=True)


def _stages(forcings=("ustar", "both", "z0")):
    """All valid single stages: 16 patterns x lengths 1..4, forcing and timestamps cycled."""
    out = []
    c = 0
    for mask in range(16):
        listed = [f for k, f in enumerate(FIELDS) if mask >> k & 1]
        for L in ((1, 2, 3, 4) if listed else (0,)):
            c += 1
            forcing = forcings[c % len(forcings)]
            if forcing == "z0" and "ustar" in listed:
                forcing = "both"
            out.append(dict(lengths={f: L for f in listed}, forcing=forcing,
                            ts=("none", "str", "int")[c % 3]))
    return out


def _histories(tier, rng):
    allst = _stages()
    first = allst if tier == "thorough" else [
        st for st in allst if _pattern(st["lengths"]) in (
            "all-scalar", "wind_dir", "mol", "ustar", "ustar+wind_speed", "mol+wind_dir",
            "ustar+mol+wind_speed+wind_dir") and (not st["lengths"] or
                                                  max(st["lengths"].values()) in (1, 3))]
    for via in ("dict", "dataclass"):
        for a in first:
            for b in allst:
                yield "history", dict(stages=[a, b], via=via)
    # three stages with a rejected forcing in the middle, and longer random walks
    bad_mid = [dict(lengths={"ustar": 2, "wind_dir": 3}, forcing="ustar", ts="none"),
               dict(lengths={"mol": 4, "wind_speed": 1, "wind_dir": 4}, forcing="both", ts="str")]
    for k in range(40 if tier == "quick" else 600):
        via = ("dict", "dataclass")[k % 2]
        if k % 2:
            yield "history", dict(stages=[rng.choice(allst), bad_mid[k // 2 % 2], rng.choice(allst)],
                                  via=via)
        else:
            yield "history", dict(stages=[rng.choice(allst) for _ in range(rng.randint(3, 5))],
                                  via=via)


def generate(tier, rng):
    import json
    seen = set()
    for kind, params in itertools.chain(_generate(), _histories(tier, rng), _cli_cases()):
        sig = kind + json.dumps(params, sort_keys=True)
        if sig not in seen:        # the enumeration below names some forcings twice
            seen.add(sig)
            yield kind, params


def _generate():
    vias = ("dict", "dataclass")
    for via in vias:
        for forcing in ("ustar", "z0", "both"):
            for mask in range(16):
                listed = [f for k, f in enumerate(FIELDS) if mask >> k & 1]
                if forcing == "z0" and "ustar" in listed:
                    continue
                # ---- valid forcings
                for L in ((1, 2, 3, 4) if listed else (0,)):
                    lengths = {f: L for f in listed}
                    for ts in ("none", "str", "int"):
                        yield "valid", dict(lengths=lengths, forcing=forcing, ts=ts, via=via)
                    # ---- timestamps of another length (>= 1)
                    n = L if listed else 1
                    for wrong in (n - 1, n + 1, n + 2):
                        if wrong < 1:
                            continue
                        for ts in ("str", "int"):
                            yield "reject", dict(lengths=lengths, forcing=forcing, ts_len=wrong,
                                                 ts=ts, via=via, why="timestamps")
                # ---- list fields of different lengths
                if len(listed) >= 2:
                    for odd in listed:
                        for L, L2 in itertools.permutations((1, 2, 3, 4), 2):
                            lengths = {f: (L2 if f == odd else L) for f in listed}
                            for ts_len in (None, L, L2):
                                yield "reject", dict(lengths=lengths, forcing=forcing,
                                                     ts_len=ts_len, ts="str", via=via,
                                                     why="mismatch")
        # ---- neither ustar nor z0
        for mask in range(0, 16, 2):
            listed = [f for k, f in enumerate(FIELDS) if mask >> k & 1]
            for L in ((1, 2, 3, 4) if listed else (0,)):
                lengths = {f: L for f in listed}
                for ts_len in (None, L if listed else 1):
                    yield "reject", dict(lengths=lengths, forcing="neither", ts_len=ts_len,
                                         ts="str", via=via, why="neither")


if __name__ == "__main__":
    S.main(generate)
