"""C16 - met time series: one step per list entry, scalars broadcast, mismatches rejected.

Bounded stand-in / replay oracle.  Exhaustive over the quantifier of the property:
all 2^4 list/scalar patterns of (ustar, mol, wind_speed, wind_dir) x lengths 1..4 x
timestamps absent / right length (strings, integers) / wrong length x ustar / z0 / both /
neither.  The oracle is the statement, evaluated on the *parameters* of the case (never on the
code): n = common length of the list-valued fields or 1; step i = i-th entry of lists, the
scalar otherwise; timestamp i-th or i; z0 present iff configured; build raises ValueError iff
lengths disagree / timestamps have another length than n / neither ustar nor z0.
"""
import itertools
import os
import sys

sys.path.insert(0, os.path.dirname(__file__))
from _common import Suite, Verdict  # noqa: E402

S = Suite(
    "C16",
    what="MetConfig.n_timesteps / get_step / validate-at-build via parse_config_dict and "
         "BLDFMConfig(...) against the statement, exhaustively over the small pattern space",
    bound="16 list/scalar patterns x lengths 1..4 x timestamps none/str/int/wrong(+1,+2,-1>=1) x "
          "forcing ustar/z0/both/neither x build path dict/dataclass; list lengths > 4 and "
          "non-list sequences are not examined",
    rule="n_timesteps == common list length (1 if none); get_step(i) == expected dict for all i; "
         "ValueError at build iff the statement rejects the forcing",
)

FIELDS = ("ustar", "mol", "wind_speed", "wind_dir")
# distinct, recognisable values: field f, entry i -> BASE[f] + i*STEP[f]
BASE = {"ustar": 0.25, "mol": -40.0, "wind_speed": 2.5, "wind_dir": 10.0}
STEP = {"ustar": 0.05, "mol": -15.0, "wind_speed": 0.75, "wind_dir": 35.0}
Z0 = 0.07


def _val(f, i):
    return BASE[f] + i * STEP[f]


def _met_dict(lengths, forcing, ts_len, ts_type):
    """lengths: {field: L or 0 (scalar)}; forcing in ustar|z0|both|neither."""
    met = {}
    for f in FIELDS:
        if f == "ustar" and forcing in ("z0", "neither"):
            continue
        L = lengths.get(f, 0)
        met[f] = [_val(f, i) for i in range(L)] if L else _val(f, 0)
    if forcing in ("z0", "both"):
        met["z0"] = Z0
    if ts_len is not None:
        if ts_type == "int":
            met["timestamps"] = [100 + 7 * i for i in range(ts_len)]
        else:
            met["timestamps"] = ["2024-06-%02dT12:00" % (i + 1) for i in range(ts_len)]
    return met


def _build(met, via):
    from bldfm.config_parser import (parse_config_dict, BLDFMConfig, DomainConfig,
                                     TowerConfig, MetConfig)
    if via == "dict":
        return parse_config_dict({
            "domain": {"nx": 8, "ny": 8, "xmax": 80.0, "ymax": 80.0, "nz": 4,
                       "ref_lat": 50.0, "ref_lon": 11.0},
            "towers": [{"name": "T", "lat": 50.0, "lon": 11.0, "z_m": 5.0}],
            "met": met,
        })
    return BLDFMConfig(
        domain=DomainConfig(nx=8, ny=8, xmax=80.0, ymax=80.0, nz=4),
        towers=[TowerConfig(name="T", lat=50.0, lon=11.0, z_m=5.0)],
        met=MetConfig(**met),
    )


def _pattern(lengths):
    names = [f for f in FIELDS if lengths.get(f, 0)]
    return "+".join(names) if names else "all-scalar"


@S.kind("valid")
def valid(lengths, forcing, ts, via):
    """A forcing the statement admits: must build, n and every step as stated."""
    lens = [L for L in lengths.values() if L]
    n = lens[0] if lens else 1
    assert all(L == n for L in lens)
    ts_len = None if ts == "none" else n
    met = _met_dict(lengths, forcing, ts_len, ts)
    pat = _pattern(lengths)
    try:
        cfg = _build(met, via)
    except ValueError as e:
        return Verdict(False, "valid forcing rejected at build: %s; met=%r" % (e, met),
                       key="valid-forcing-rejected[%s]" % pat)
    got_n = cfg.met.n_timesteps
    if got_n != n:
        key = ("n_timesteps-ignores-%s" % pat) if got_n == 1 else ("n_timesteps-wrong-%s" % pat)
        return Verdict(False, "n_timesteps=%r, statement says %d (lists: %s, length %d); met=%r"
                       % (got_n, n, pat, n, met), key=key)
    for i in range(n):
        step = cfg.met.get_step(i)
        exp = {}
        for f in FIELDS:
            if f == "ustar" and forcing == "z0":
                exp[f] = None
            else:
                exp[f] = _val(f, i) if lengths.get(f, 0) else _val(f, 0)
        exp["timestamp"] = met["timestamps"][i] if ts_len is not None else i
        if forcing in ("z0", "both"):
            exp["z0"] = Z0
        for k, v in exp.items():
            if k not in step or step[k] != v or type(step[k]) is not type(v):
                return Verdict(False, "get_step(%d)[%r]=%r, statement says %r; met=%r"
                               % (i, k, step.get(k, "<missing>"), v, met),
                               key="get_step-%s-wrong" % k)
        if ("z0" in step and step["z0"] is not None) != (forcing in ("z0", "both")):
            return Verdict(False, "get_step(%d): z0 present=%r but configured=%r"
                           % (i, "z0" in step, forcing), key="get_step-z0-presence")
    return Verdict(True, "n=%d pattern=%s" % (n, pat), nontrivial=True)


@S.kind("reject")
def reject(lengths, forcing, ts_len, ts, via, why):
    """A forcing the statement rejects: building the configuration must raise ValueError."""
    met = _met_dict(lengths, forcing, ts_len, ts)
    pat = _pattern(lengths)
    try:
        cfg = _build(met, via)
    except ValueError as e:
        return Verdict(True, "rejected: %s" % str(e)[:80])
    if why == "timestamps":
        key = ("timestamps-length-all-scalar" if pat == "all-scalar"
               else "timestamps-length-accepted[%s]" % pat)
    elif why == "mismatch":
        key = "list-length-mismatch-accepted[%s]" % pat
    else:
        key = "neither-ustar-nor-z0-accepted"
    return Verdict(False, "invalid forcing (%s) accepted at build; n_timesteps=%r; met=%r"
                   % (why, cfg.met.n_timesteps, met), key=key)


def generate(tier, rng):
    import json
    seen = set()
    for kind, params in _generate():
        sig = kind + json.dumps(params, sort_keys=True)
        if sig not in seen:        # the enumeration below names some forcings twice
            seen.add(sig)
            yield kind, params


def _generate():
    vias = ("dict", "dataclass")
    for via in vias:
        for forcing in ("ustar", "z0", "both"):
            for mask in range(16):
                listed = [f for k, f in enumerate(FIELDS) if mask >> k & 1]
                if forcing == "z0" and "ustar" in listed:
                    continue
                # ---- valid forcings
                for L in ((1, 2, 3, 4) if listed else (0,)):
                    lengths = {f: L for f in listed}
                    for ts in ("none", "str", "int"):
                        yield "valid", dict(lengths=lengths, forcing=forcing, ts=ts, via=via)
                    # ---- timestamps of another length (>= 1)
                    n = L if listed else 1
                    for wrong in (n - 1, n + 1, n + 2):
                        if wrong < 1:
                            continue
                        for ts in ("str", "int"):
                            yield "reject", dict(lengths=lengths, forcing=forcing, ts_len=wrong,
                                                 ts=ts, via=via, why="timestamps")
                # ---- list fields of different lengths
                if len(listed) >= 2:
                    for odd in listed:
                        for L, L2 in itertools.permutations((1, 2, 3, 4), 2):
                            lengths = {f: (L2 if f == odd else L) for f in listed}
                            for ts_len in (None, L, L2):
                                yield "reject", dict(lengths=lengths, forcing=forcing,
                                                     ts_len=ts_len, ts="str", via=via,
                                                     why="mismatch")
        # ---- neither ustar nor z0
        for mask in range(0, 16, 2):
            listed = [f for k, f in enumerate(FIELDS) if mask >> k & 1]
            for L in ((1, 2, 3, 4) if listed else (0,)):
                lengths = {f: L for f in listed}
                for ts_len in (None, L if listed else 1):
                    yield "reject", dict(lengths=lengths, forcing="neither", ts_len=ts_len,
                                         ts="str", via=via, why="neither")


if __name__ == "__main__":
    S.main(generate)
