"""Bounded conformance of the index-level library contracts (pyvc.npshim / pyvc.arrays) against the
installed NumPy: every shim operation the contracts rely on is executed on CONCRETE small arrays
(exact rationals) and compared element by element with NumPy's result.  Runs under python3-vt
(z3 + numpy).  A mismatch is a checker failure ("trusted contract does not match the library"),
never a property violation.

usage: python3-vt bounded/np_conformance.py [--n CASES] [--seed S]   -> JSON on stdout, exit 0/3
"""
import argparse
import json
import os
import random
import sys
from fractions import Fraction

import numpy as np

sys.path.insert(0, os.path.dirname(os.path.dirname(os.path.abspath(__file__))))
from pyvc import sym, arrays, npshim, engine  # noqa: E402
from pyvc.sym import Num, Cx  # noqa: E402
from pyvc.arrays import Arr, Axis  # noqa: E402


def to_arr(a):
    a = np.asarray(a)
    kind = "bool" if a.dtype == bool else ("int" if a.dtype.kind in "iu" else ("complex" if a.dtype.kind == "c" else "float"))
    if a.ndim == 1 and kind in ("int", "float"):
        return arrays.from_list([Num(int(x)) if kind == "int" else Num(Fraction(float(x)).limit_denominator(10**6), True) for x in a])

    def fn(*c):
        v = a[tuple(int(x.t) for x in c)]
        if kind == "bool":
            return sym.SBool(bool(v))
        if kind == "complex":
            return Cx(Fraction(v.real).limit_denominator(10**6), Fraction(v.imag).limit_denominator(10**6))
        return Num(int(v)) if kind == "int" else Num(Fraction(float(v)).limit_denominator(10**6), True)
    return Arr([Axis(s) for s in a.shape], fn, kind)


def val(x):
    if isinstance(x, sym.SBool):
        return bool(x.t)
    if isinstance(x, Cx):
        return complex(float(x.re.t), float(x.im.t))
    x = sym.num(x)
    return float(x.t)


def to_np(A):
    if not isinstance(A, Arr):
        return np.asarray(val(A))
    shape = []
    for ax in A.axes:
        if ax.masked:
            raise ValueError("masked result")
        shape.append(int(ax.size.t))
    out = np.zeros(shape, dtype=complex if A.dtype == "complex" else (bool if A.dtype == "bool" else float))
    for idx in np.ndindex(*shape):
        out[idx] = val(A.at(*[Num(int(i)) for i in idx]))
    return out


def masked_to_np(A):
    """1-D result of a boolean-mask gather: row-major enumeration of the True cells."""
    ax = A.axes[-1]
    m = to_np(ax.mask).astype(bool)
    lead = [int(a.size.t) for a in A.axes[:-1]]
    cells = list(zip(*np.nonzero(m)))
    out = np.zeros(lead + [len(cells)], dtype=complex if A.dtype == "complex" else float)
    for li in np.ndindex(*lead):
        for k, cell in enumerate(cells):
            out[li + (k,)] = val(A.at(*[Num(int(i)) for i in li + tuple(cell)]))
    return out


def close(a, b):
    a, b = np.asarray(a), np.asarray(b)
    return a.shape == b.shape and np.allclose(a.astype(complex), b.astype(complex), rtol=1e-9, atol=1e-9)


def main():
    ap = argparse.ArgumentParser()
    ap.add_argument("--n", type=int, default=40)
    ap.add_argument("--seed", type=int, default=0)
    a = ap.parse_args()
    rng = random.Random(a.seed)
    nprng = np.random.default_rng(a.seed)
    ex = engine.Explorer()
    run = engine.Run(ex, [])
    sym._ENGINE[0] = run
    NP = npshim.NP()
    fails, count, kinds = [], 0, {}

    def check(name, got, want):
        nonlocal count
        count += 1
        kinds[name] = kinds.get(name, 0) + 1
        if not close(got, want):
            fails.append({"op": name, "got": np.asarray(got).tolist() if np.asarray(got).size < 40 else "...",
                          "want": np.asarray(want).tolist() if np.asarray(want).size < 40 else "..."})

    for case in range(a.n):
        ny, nx, m = rng.randint(1, 7), rng.randint(1, 7), rng.randint(1, 3)
        A2 = nprng.integers(-5, 6, size=(ny, nx)).astype(float)
        A3 = nprng.integers(-5, 6, size=(m, ny, nx)).astype(float) + 1j * nprng.integers(-3, 4, size=(m, ny, nx))
        v = nprng.integers(-5, 6, size=(nx,)).astype(float)
        S2, S3, sv = to_arr(A2), to_arr(A3), to_arr(v)
        py, px = rng.randint(0, 3), rng.randint(0, 3)
        check("pad2", to_np(NP.pad(S2, ((py, py), (px, px)), mode="constant", constant_values=0.0)), np.pad(A2, ((py, py), (px, px))))
        check("pad3", to_np(NP.pad(S3, ((0, 0), (py, py), (px, px)))), np.pad(A3, ((0, 0), (py, py), (px, px))))
        check("fftshift", to_np(npshim.fftshift(S2)), np.fft.fftshift(A2))
        check("ifftshift", to_np(npshim.ifftshift(S2)), np.fft.ifftshift(A2))
        check("fftshift-axes", to_np(npshim.fftshift(S3, axes=(1, 2))), np.fft.fftshift(A3, axes=(1, 2)))
        check("ifftshift-axes", to_np(npshim.ifftshift(S3, axes=(1, 2))), np.fft.ifftshift(A3, axes=(1, 2)))
        n = rng.randint(1, 9)
        check("fftfreq", to_np(npshim.fftfreq(n, d=Fraction(1, n))), np.fft.fftfreq(n, d=1.0 / n))
        check("fftfreq-d", to_np(npshim.fftfreq(n, d=Fraction(3, 2))), np.fft.fftfreq(n, d=1.5))
        X, Y = NP.meshgrid(sv, to_arr(A2[:, 0]))
        Xn, Yn = np.meshgrid(v, A2[:, 0])
        check("meshgrid-xy", to_np(X), Xn)
        check("meshgrid-xy", to_np(Y), Yn)
        Z3, Y3, X3 = NP.meshgrid(to_arr(np.arange(m, dtype=float)), to_arr(A2[:, 0]), sv, indexing="ij")
        Zn, Yn3, Xn3 = np.meshgrid(np.arange(m, dtype=float), A2[:, 0], v, indexing="ij")
        check("meshgrid-ij", to_np(Z3), Zn)
        check("meshgrid-ij", to_np(X3), Xn3)
        check("linspace", to_np(NP.linspace(0, Fraction(7, 2), nx, endpoint=False)), np.linspace(0, 3.5, nx, endpoint=False))
        check("squeeze", to_np(NP.squeeze(S3)), np.squeeze(A3))
        check("diff", to_np(NP.diff(sv)), np.diff(v))
        lo, hi = rng.randint(-2, nx + 1), rng.randint(-2, nx + 2)
        check("slice", to_np(S2[:, lo:hi]), A2[:, lo:hi])
        lo2, hi2 = rng.randint(0, ny), rng.randint(0, ny + 1)
        check("slice3", to_np(S3[:, lo2:hi2, lo:hi]), A3[:, lo2:hi2, lo:hi])
        check("index", to_np(S3[m - 1]), A3[m - 1])
        check("neg-index", to_np(sv[-1]), v[-1])
        check("reverse", to_np(sv[::-1]), v[::-1])
        check("newaxis", to_np(sv[:, None]), v[:, None])
        check("broadcast", to_np(S3 * S2 + sv), A3 * A2 + v)
        check("broadcast-col", to_np(S2 * to_arr(A2[:, :1])), A2 * A2[:, :1])
        check("where", to_np(NP.where(S2 > 0, S2, 0.5)), np.where(A2 > 0, A2, 0.5))
        if ny * nx > 1:
            check("ravel", to_np(S2.ravel()), A2.ravel())
        # boolean masks: gather, scatter, partial scatter on a leading index (as in the solver)
        msk = np.ones((ny, nx), dtype=bool)
        msk[0, 0] = False
        if rng.random() < 0.5 and ny * nx > 2:
            msk[rng.randrange(ny), rng.randrange(nx)] = False
        M = to_arr(msk)
        if msk.any():
            check("mask-gather", masked_to_np(S2[M]), A2[msk])
            check("mask-gather3", masked_to_np(S3[:, M]), A3[:, msk])
            T = NP.zeros((m, ny, nx), dtype=npshim.complex128)
            Tn = np.zeros((m, ny, nx), dtype=complex)
            T[0, 0, 0] = Fraction(5, 2)
            Tn[0, 0, 0] = 2.5
            T[:, 0, 0] = Cx(1, 2)
            Tn[:, 0, 0] = 1 + 2j
            T[0, M] = S2[M] * 2
            Tn[0, msk] = A2[msk] * 2
            check("mask-scatter-row", to_np(T), Tn)
            T[:, M] = S3[:, M] * S2[M]
            Tn[:, msk] = A3[:, msk] * A2[msk]
            check("mask-scatter-all", to_np(T), Tn)
        lev = nprng.integers(0, nx, size=(rng.randint(1, 4),))
        L = to_arr(lev)
        check("fancy-read", to_np(sv[L]), v[lev])
        T1 = NP.zeros((len(lev), 2, 2), dtype=npshim.complex128)
        T1n = np.zeros((len(lev), 2, 2), dtype=complex)
        i0 = int(lev[0])
        T1[L == i0, 0, 0] = Cx(3, 1)
        T1n[lev == i0, 0, 0] = 3 + 1j
        check("mask1-store", to_np(T1), T1n)
        m1 = v > 0
        if m1.any():
            R1 = NP.zeros_like(sv, dtype=float)
            R1n = np.zeros_like(v)
            flag = sv > 0
            R1[flag] = sv[flag] * 3
            R1n[m1] = v[m1] * 3
            check("mask1-gather-scatter", to_np(R1), R1n)
        # permutation store (argsort contract is a spec; here a concrete permutation)
        perm = nprng.permutation(nx)
        P = to_arr(perm)
        inv = np.argsort(perm)
        P.inverse = lambda c: Num(int(inv[int(c.t)]))
        G = NP.zeros_like(sv, dtype=float)
        Gn = np.zeros_like(v)
        G[P] = sv
        Gn[perm] = v
        check("permutation-store", to_np(G), Gn)
        Pr = P[::-1]
        G2 = NP.zeros_like(sv, dtype=float)
        G2n = np.zeros_like(v)
        G2[Pr] = sv
        G2n[perm[::-1]] = v
        check("permutation-store-reversed", to_np(G2), G2n)
    sym._ENGINE[0] = None
    res = {"what": "index-level library contracts (pad, shifts, fftfreq, meshgrid, linspace, squeeze, slices, masks, fancy/permutation index, broadcasting) vs installed NumPy %s" % np.__version__,
           "bound": "%d random small shapes (<= 3 x 7 x 7), exact comparison" % a.n, "evaluations": count,
           "distinct_nontrivial": count, "per_kind": kinds, "failures": fails[:10], "n_failures": len(fails),
           "rule": "each evaluation is one shim operation on one random concrete array compared with NumPy"}
    print(json.dumps(res, default=str))
    sys.exit(3 if fails else 0)


if __name__ == "__main__":
    main()
