"""C14 bounded stand-in: timeseries, multi-tower and parallel drivers equal the single runs.

One case = one configuration (1-3 towers x 1-3 steps, tiny 16x16 grid) and one driver call:
    strategy "timeseries"  run_bldfm_timeseries(config, tower) for every tower
    strategy "multitower"  run_bldfm_multitower(config)
    strategy "towers" / "time" / "both"   run_bldfm_parallel(config, max_workers, parallel_over)
with REAL process pools (fork).  Schedules are perturbed by wrapping
`bldfm.interface.run_bldfm_single` (the module attribute every driver and worker resolves at
call time) with a sleep before the pool forks; the sleep is a pure function of
(seed, tower name, time index), only taken in worker processes, and makes later tasks finish
before earlier ones in about half of the pairs.

Oracle: for every tower and every step, every field of the driver's result equals the
original `run_bldfm_single(config, tower, i)` executed serially in this process with one
thread and without a cache: grid/conc/flx to 1e-12 of the field maximum (workers force one
thread; the serial drivers run with the parent's thread setting), tower_name, tower_xy,
timestamp and step parameters with ==; dictionary keys in configuration order (tower names
are deliberately not in alphabetical order), lists in time order and of the right length.

With use_cache the drivers create `.bldfm_cache` in the (private) working directory; it is
removed before and after every case so that a case is a function of its parameters.
"prewarm" runs the serial multi-tower driver first, so the driver under test finds the
entries of an earlier run; "repeat_met" makes the last step repeat the first step's forcing.
"""
import inspect
import os
import shutil
import sys
import time
import zlib

sys.path.insert(0, os.path.dirname(os.path.abspath(__file__)))
from _common import Suite, Verdict, default_profiles, relerr  # noqa: E402,F401

import numpy as np  # noqa: E402

S = Suite(
    "C14",
    what="run_bldfm_timeseries / run_bldfm_multitower / run_bldfm_parallel (real fork pools, "
         "injected per-task delays) against serial run_bldfm_single, every field of every "
         "tower and step, key and list order",
    bound="(1..3 towers) x (1..3 steps) incl. 1x1; strategies towers/time/both and the two "
          "serial drivers; workers 1..5; parent thread setting 1 and 4 (parent has solved with "
          "that setting before the fork); cache on/off with footprint, explicit/default halo, "
          "pre-populated cache, repeated met conditions; dispersion mode with a configured source shape and an off-centre src_loc; hash-random per-task delays and the "
          "adversarial schedule (a worker per task, tasks complete in reverse submission "
          "order); 16x16 grid, nz=6, modes (16,16); "
          "quick 36 driver calls, thorough 330 (every shape x strategy x worker count x parent "
          "thread setting)",
    rule="1e-12 of the field maximum for grid/conc/flx; == for names, coordinates, "
         "timestamps, parameters, key order, list length",
)

TOL = 1e-12
_NAMES = ["T2", "T0", "T1"]          # configuration order != sorted order
_CACHE_DIR = ".bldfm_cache"


def build_config(n_towers, n_steps, use_cache, footprint, halo, repeat_met, seed, workers, pattern=None):
    import random
    rng = random.Random(seed)
    ref_lat, ref_lon = 50.95, 11.586
    dom = dict(nx=16, ny=16, xmax=160.0, ymax=120.0, nz=6, modes=[16, 16],
               ref_lat=ref_lat, ref_lon=ref_lon)
    if halo is not None:
        dom["halo"] = halo
    if rng.random() < 0.4:
        dom["output_levels"] = [2, 6]
    towers = []
    for k in range(n_towers):
        towers.append(dict(name=_NAMES[k],
                           lat=ref_lat + (0.2 + 0.25 * rng.random() + 0.1 * k) * 1.0e-3,
                           lon=ref_lon + (0.3 + 0.4 * rng.random() + 0.2 * k) * 1.0e-3,
                           z_m=[4.0, 6.0, 5.0][k] + rng.choice([0.0, 0.5])))

    def series(options):
        v = [rng.choice(options) for _ in range(n_steps)]
        if repeat_met and n_steps > 1:
            v[-1] = v[0]
        return v

    met = dict(ustar=series([0.3, 0.4, 0.5]), mol=series([-40.0, -150.0, 200.0]),
               wind_speed=series([2.5, 3.5, 5.0]), wind_dir=series([225.0, 270.0, 300.0]))
    if pattern:
        # a record in which whole forcings recur ("ABCADBA": the conditions of step 0 again at steps 3 and 6): every
        # letter is one (ustar, mol, wind_speed, wind_dir) quadruple
        quad = {c: (0.25 + 0.05 * j, [-40.0, -150.0, 200.0, -80.0, 400.0][j % 5], 2.5 + 0.5 * j, [225.0, 270.0, 300.0, 250.0, 285.0][j % 5])
                for j, c in enumerate(sorted(set(pattern)))}
        met = dict(ustar=[quad[c][0] for c in pattern], mol=[quad[c][1] for c in pattern],
                   wind_speed=[quad[c][2] for c in pattern], wind_dir=[quad[c][3] for c in pattern])
    if n_steps == 1 and rng.random() < 0.5:
        met = {k: v[0] for k, v in met.items()}
    else:
        for k in ("mol", "wind_dir"):     # scalars broadcast over the series
            if rng.random() < 0.25:
                met[k] = met[k][0]
    if rng.random() < 0.5 or pattern:
        met["timestamps"] = ["2024-07-01T%02d:00:00" % (6 + k) for k in range(n_steps)]
    sol = dict(closure="MOST", footprint=bool(footprint), precision=rng.choice(["single", "double"]))
    if not footprint:
        # dispersion runs use the configured synthetic source: its shape and (off-centre) location are part of "the
        # corresponding single run"
        sol["surface_flux_shape"] = rng.choice(["diamond", "circle", "point"])
        sol["src_loc"] = [round(dom["xmax"] * rng.uniform(0.15, 0.85), 2), round(dom["ymax"] * rng.uniform(0.15, 0.85), 2)]
    raw = dict(domain=dom, towers=towers, met=met,
               solver=sol,
               parallel=dict(num_threads=1, max_workers=int(workers), use_cache=bool(use_cache)))
    return raw


def _clear_cache():
    shutil.rmtree(os.path.join(os.getcwd(), _CACHE_DIR), ignore_errors=True)


class _Delays:
    """Wrap bldfm.interface.run_bldfm_single with a deterministic per-task sleep (workers only)."""

    def __init__(self, seed, delay_ms, schedule="hash"):
        self.seed, self.delay_ms, self.schedule = seed, delay_ms, schedule

    def __enter__(self):
        import bldfm.interface as itf
        self.itf = itf
        self.orig = orig = itf.run_bldfm_single
        sig = inspect.signature(orig)
        parent = os.getpid()
        seed, delay_ms, schedule = self.seed, self.delay_ms, self.schedule

        def run_bldfm_single(*args, **kwargs):
            if delay_ms and os.getpid() != parent:
                b = sig.bind(*args, **kwargs)
                b.apply_defaults()
                if schedule == "reverse":
                    # adversarial schedule: the EARLIER a task is in configuration / time order,
                    # the longer it sleeps (one delay unit per rank), so with a worker per task
                    # the tasks complete in exactly the reverse of their submission order
                    config, tower = b.arguments["config"], b.arguments["tower"]
                    names = [t.name for t in config.towers]
                    rank = (len(names) - 1 - names.index(tower.name)) + \
                        (config.met.n_timesteps - 1 - b.arguments["met_index"])
                    time.sleep(rank * delay_ms / 1000.0)
                else:
                    h = zlib.crc32(("%d|%s|%d" % (seed, b.arguments["tower"].name,
                                                  b.arguments["met_index"])).encode())
                    time.sleep((h % 1000) / 1000.0 * delay_ms / 1000.0)
            return orig(*args, **kwargs)

        itf.run_bldfm_single = run_bldfm_single
        return self

    def __exit__(self, *exc):
        self.itf.run_bldfm_single = self.orig
        return False


def _compare(got, want):
    """List of differences between two result dictionaries of run_bldfm_single."""
    bad = []
    if not isinstance(got, dict):
        return ["result is %s, not a dict" % type(got).__name__]
    if set(got) != set(want):
        bad.append("keys %s vs %s" % (sorted(got), sorted(want)))
        return bad
    for i, nm in enumerate("XYZ"):
        e = relerr(got["grid"][i], want["grid"][i])
        if not e <= TOL:
            bad.append("grid.%s rel %.3g" % (nm, e))
    for k in ("conc", "flx"):
        e = relerr(got[k], want[k])
        if not e <= TOL:
            bad.append("%s shape %s vs %s rel %.3g" % (k, np.shape(got[k]), np.shape(want[k]), e))
    for k in ("tower_name", "timestamp", "params"):
        if got[k] != want[k]:
            bad.append("%s %r vs %r" % (k, got[k], want[k]))
    if tuple(got["tower_xy"]) != tuple(want["tower_xy"]):
        bad.append("tower_xy %r vs %r" % (got["tower_xy"], want["tower_xy"]))
    return bad


@S.kind("driver")
def driver(n_towers, n_steps, strategy, workers, parent_threads, use_cache, footprint, halo,
           repeat_met, prewarm, seed, delay_ms, workers_from_config=False, schedule="hash", pattern=None):
    import bldfm.config as cfg
    import bldfm.interface as itf
    from bldfm.config_parser import parse_config_dict
    from bldfm.fft_manager import reset_fft_manager

    if pattern:
        n_steps = len(pattern)
    raw = build_config(n_towers, n_steps, use_cache, footprint, halo, repeat_met, seed, workers, pattern=pattern)
    config = parse_config_dict(raw)
    names = [t["name"] for t in raw["towers"]]
    _clear_cache()
    try:
        # serial references: one thread, no cache, the unwrapped function
        cfg.NUM_THREADS = 1
        single = itf.run_bldfm_single
        ref = {t.name: [single(config, t, i) for i in range(n_steps)] for t in config.towers}

        if prewarm:
            itf.run_bldfm_multitower(config)

        # the parent has been solving with its own thread setting before the drivers run
        cfg.NUM_THREADS = int(parent_threads)
        single(config, config.towers[0], 0)

        with _Delays(seed, delay_ms, schedule):
            if strategy == "timeseries":
                out = {t.name: itf.run_bldfm_timeseries(config, t) for t in config.towers}
            elif strategy == "multitower":
                out = itf.run_bldfm_multitower(config)
            else:
                out = itf.run_bldfm_parallel(
                    config, max_workers=None if workers_from_config else int(workers),
                    parallel_over=strategy)
    finally:
        cfg.NUM_THREADS = 1
        reset_fft_manager()
        _clear_cache()

    where = "%dx%d %s w=%d thr=%d cache=%s" % (n_towers, n_steps, strategy, workers,
                                              parent_threads, use_cache)
    if not isinstance(out, dict):
        return Verdict(False, "%s: returned %s" % (where, type(out).__name__), key="wrong-container")
    if list(out.keys()) != names:
        return Verdict(False, "%s: keys %s, configuration order %s" % (where, list(out.keys()), names),
                       key="tower-order")
    bad = []
    for nm in names:
        series = out[nm]
        if not isinstance(series, list) or len(series) != n_steps:
            return Verdict(False, "%s: tower %s has %s entries, expected a list of %d"
                           % (where, nm, len(series) if hasattr(series, "__len__") else "?", n_steps),
                           key="series-length")
        for i in range(n_steps):
            d = _compare(series[i], ref[nm][i])
            if d:
                bad.append("%s[%d]: %s" % (nm, i, "; ".join(d)))
    if bad:
        # classify: a permutation of correct results or a wrong value
        flat = [ref[nm][i] for nm in names for i in range(n_steps)]
        perm = all(any(not _compare(out[nm][i], r) for r in flat)
                   for nm in names for i in range(n_steps))
        return Verdict(False, "%s: %s" % (where, " | ".join(bad)[:500]),
                       key="results-misplaced" if perm else "driver-differs-from-single")
    f = [np.asarray(ref[nm][i]["flx"]) for nm in names for i in range(n_steps)]
    nontrivial = all(np.all(np.isfinite(a)) and np.max(np.abs(a)) > 0 for a in f)
    if len(f) > 1:   # the single runs must differ from each other, else order is unobservable
        nontrivial = nontrivial and any(relerr(f[0], a) > 1e-6 for a in f[1:])
    return Verdict(True, "%s: %d results equal" % (where, len(f)), nontrivial=nontrivial)


# -------------------------------------------------------------------------------- generator
_PAR = ["towers", "time", "both"]


def _case(rng, nt, ns, strategy, workers, k, threads=None):
    import numba
    threads = threads or [1, 4][(k // 2) % 2]
    if threads > numba.config.NUMBA_NUM_THREADS:   # numba refuses more than the core count
        threads = 1
    footprint = (k % 4) != 3
    use_cache = footprint and (k % 2 == 0)
    return dict(n_towers=nt, n_steps=ns, strategy=strategy, workers=workers,
                parent_threads=threads, use_cache=use_cache,
                footprint=footprint,
                halo=[None, 60.0][(k // 3) % 2], repeat_met=(ns > 1 and k % 3 != 1),
                prewarm=(use_cache and k % 4 == 0), seed=rng.randrange(10 ** 6),
                delay_ms=[40, 0, 25][k % 3], workers_from_config=(k % 5 == 4))


def _reverse_cases(rng, tier):
    """'any completion order of the workers': the one order a fair scheduler rarely produces -
    every task finishes before all tasks submitted ahead of it (a worker per task)."""
    shapes = [(2, 1), (3, 2), (2, 3), (1, 3), (3, 3)] if tier == "thorough" else \
        [(2, 1), (3, 2), (2, 3), (1, 3)]
    k = 1
    for nt, ns in shapes:
        for strategy in _PAR:
            if (strategy == "towers" and nt < 2) or (strategy == "time" and ns < 2):
                continue
            ntasks = {"towers": nt, "time": ns, "both": nt * ns}[strategy]
            if tier != "thorough" and strategy != "towers" and (nt, ns) not in ((3, 2), (1, 3)):
                continue
            c = _case(rng, nt, ns, strategy, min(ntasks, 6), k, threads=1)
            c.update(delay_ms=120, schedule="reverse", workers_from_config=False, prewarm=False)
            yield "driver", c
            k += 1


def generate(tier, rng):
    for c in _reverse_cases(rng, tier):
        yield c
    # records in which whole forcings recur, in patterns whose first-occurrence grouping is not an involution
    pats = ["ABCADBA", "ABBA", "ABCA", "AABCBCA", "ABCABC"] if tier == "thorough" else ["ABCADBA", "ABBA", "ABCA"]
    k = 0
    for pat in pats:
        for strategy in ("timeseries", "multitower", "towers", "time", "both"):
            if tier != "thorough" and (k % 2) and strategy in ("time", "both", "multitower"):
                k += 1
                continue
            c = _case(rng, 1 if strategy == "timeseries" else 2, len(pat), strategy, 1 if strategy in ("timeseries", "multitower") else 3, k)
            c.update(pattern=pat, delay_ms=0, prewarm=False)
            yield "driver", c
            k += 1
    k = 0
    if tier == "thorough":
        shapes = [(a, b) for a in (1, 2, 3) for b in (1, 2, 3)]
        for nt, ns in shapes:
            for strategy in _PAR:
                for w in (1, 2, 3, 4, 5):
                    for thr in (1, 4):
                        yield "driver", _case(rng, nt, ns, strategy, w, k, thr)
                        k += 1
            for strategy in ("timeseries", "multitower"):
                for thr in (1, 4):
                    yield "driver", _case(rng, nt, ns, strategy, 1, k, thr)
                    k += 1
        for _ in range(24):
            yield "driver", _case(rng, rng.choice((1, 2, 3)), rng.choice((1, 2, 3)),
                                  rng.choice(_PAR), rng.choice((1, 2, 3, 4, 5)), k)
            k += 1
    else:
        shapes = [(1, 1), (1, 3), (3, 1), (2, 2), (3, 3), (2, 3), (3, 2), (1, 2)]
        w = 0
        for nt, ns in shapes:
            for strategy in _PAR:
                yield "driver", _case(rng, nt, ns, strategy, 1 + w % 5, k)
                w += 1
                k += 1
        for nt, ns in shapes[:6]:
            for strategy in ("timeseries", "multitower"):
                yield "driver", _case(rng, nt, ns, strategy, 1, k)
                k += 1


def _quiet_exit():
    # one harmless "can't create new thread at interpreter shutdown" traceback per FFTManager
    # instance under Python 3.12 (atexit hook of the package); not this property's subject
    try:
        sys.stdout.flush()
        sys.stderr.flush()
        os.dup2(os.open(os.devnull, os.O_WRONLY), 2)
    except Exception:
        pass


if __name__ == "__main__":
    try:
        S.main(generate)
    except SystemExit:
        _quiet_exit()
        raise
