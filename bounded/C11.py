"""C11 - bounded native stand-in / replay oracle.

Property: for every accepted combination of grid size (even or odd), halo width and retained
mode count the returned fields have exactly the shape (ny, nx) of the surface-flux field with
coordinates x=i*dx, y=j*dy, and the call either returns such a result or raises - never a
silently cropped / misaligned field.  Retaining fewer modes only removes wavenumbers at or
beyond the cut-off and leaves every component strictly inside unchanged; requesting more modes
than the padded grid holds equals requesting exactly as many as it holds (per axis).

Oracle = the statement through the public API:
  shape-or-raise : small exhaustive sweep over (nx, ny, modes, halo, mode); an exception is an
                   accepted outcome, a returned field must have shape (ny, nx) and the grid
                   X[j,i]=i*dx, Y[j,i]=j*dy;
  low-pass       : halo=0; fft2 of the outputs of a run with (nlx, nly) modes against the run
                   with all modes: bins with |m|<nlx'/2 and |n|<nly'/2 agree, bins with
                   |m|>nlx'/2 or |n|>nly'/2 vanish (nl' = min(nl, size), per axis); the bins at the
                   cut-off itself are not constrained by the statement and are not compared;
  registration   : the content sits on the returned grid: dispersion flux at level 0 equals the
                   surface flux cell by cell (all modes retained), and the footprint for a tower
                   on a node reproduces the forward solution at that node (sum q0*footprint);
  clamp          : modes=(huge, b) equals modes=(nxe, b) whenever the latter is accepted (for an
                   odd padded size nxe the reference is the next even count nxe+1, also "more than
                   the grid holds"); likewise for y and for both axes.
"""
import os
import sys

sys.path.insert(0, os.path.dirname(os.path.abspath(__file__)))
from _common import Suite, Verdict, default_profiles, relerr  # noqa: E402,F401

import numpy as np  # noqa: E402

S = Suite(
    "C11",
    what="shape/coordinates or exception for every (size, halo, modes, mode); low-pass property "
         "via fft2 of halo=0 outputs; per-axis clamping of excessive mode counts",
    bound="exhaustive over nx, ny in 5..10 (quick) / 5..12 (thorough), dx=10, dy=7.5, halo in {0, None, "
          "17 (1 and 2 cells, incommensurate)} (+ 30 commensurate, 24 in thorough), per-axis mode counts "
          "{4, 6, largest even below the padded size, the padded size if even, next even above, 64} "
          "(+ one odd count), footprint and dispersion mode, one hand-built anisotropic column "
          "(two in thorough), double precision; content registration (level-0 flux == source; "
          "sum q0*footprint == forward value at the tower node) for every size parity x halo x "
          "clamped / exact / truncated accepted mode count",
    rule="returned => conc.shape==flx.shape==(ny,nx) and |X-i*dx|,|Y-j*dy| <= 1e-12*extent; spectra "
         "and fields compared at tol = max(1e-9, 300*eps*exp(G)) of the reference maximum",
)

EPS = 2.220446049250313e-16
BIG = 4096


def make_profiles(spec):
    nz = spec["nz"]
    s = np.linspace(0.0, 1.0, nz)
    z0, zt = spec["z0"], spec["ztop"]
    z = z0 + (zt - z0) * s ** spec.get("stretch", 1.0)
    speed = spec["U"] * np.log(1.0 + z / z0) / np.log(1.0 + zt / z0)
    ang = np.deg2rad(spec["wdir"] + spec.get("veer", 0.0) * s)
    K = 0.16 * z + spec.get("kmin", 0.02)
    return z, (speed * np.cos(ang), speed * np.sin(ang),
               spec["ax"] * K * (1.0 + 0.3 * s), spec["ay"] * K * (1.0 - 0.2 * s),
               spec["az"] * K)


def padded(nx, ny, dx, dy, halo):
    h = max(nx * dx, ny * dy) if halo is None else float(halo)
    return nx + 2 * int(h / dx), ny + 2 * int(h / dy)


def growth(z, profiles, lev, nxe, nye, dx, dy):
    """Rounding amplification estimate over all padded wavenumbers (DESIGN B.1)."""
    u, v, Kx, Ky, Kz = profiles
    kx = 2.0 * np.pi / (dx * nxe) * np.arange(0, nxe // 2 + 1)
    ky = 2.0 * np.pi / (dy * nye) * np.arange(-(nye // 2), nye // 2 + 1)
    KX, KY = np.meshgrid(kx, ky)
    dz = np.diff(z)
    G = np.zeros_like(KX)
    for i in range(min(int(lev), len(dz))):
        lam = np.sqrt((Kx[i] * KX ** 2 + Ky[i] * KY ** 2 + 1j * (u[i] * KX + v[i] * KY)) / Kz[i] + 0j)
        G += np.abs(lam.real) * dz[i]
    return float(G.max())


def tolerance(G):
    return max(1e-9, 300.0 * EPS * float(np.exp(min(G, 700.0))))


def _solve(q0, z, profiles, nx, ny, dx, dy, lev, modes, halo, meas, footprint, bg=0.0):
    from bldfm.solver import steady_state_transport_solver as solve
    (X, Y, Z), c, f = solve(q0, z, profiles, (nx * dx, ny * dy), lev, modes=tuple(modes),
                            meas_pt=meas, srf_bg_conc=bg, footprint=footprint, halo=halo,
                            precision="double")
    return np.asarray(X), np.asarray(Y), np.asarray(c), np.asarray(f)


def gap_is_odd(nx, ny, dx, dy, halo, modes):
    nxe, nye = padded(nx, ny, dx, dy, halo)
    return bool((nxe - min(modes[0], nxe)) % 2 or (nye - min(modes[1], nye)) % 2)


def shape_problem(X, Y, c, f, nx, ny, dx, dy):
    """(key-stem, message) or None."""
    if c.shape != (ny, nx) or f.shape != (ny, nx):
        return "shape", "conc %s flx %s, source is %s" % (c.shape, f.shape, (ny, nx))
    if X.shape != (ny, nx) or Y.shape != (ny, nx):
        return "coords", "X %s Y %s, source is %s" % (X.shape, Y.shape, (ny, nx))
    ex = float(np.max(np.abs(X - (np.arange(nx) * dx)[None, :])))
    ey = float(np.max(np.abs(Y - (np.arange(ny) * dy)[:, None])))
    if ex > 1e-12 * nx * dx or ey > 1e-12 * ny * dy:
        return "coords", "X differs from i*dx by %.3g, Y from j*dy by %.3g" % (ex, ey)
    return None


# ------------------------------------------------------------------ kinds
@S.kind("shape-or-raise")
def shape_or_raise(nx, ny, dx, dy, halo, modes, footprint, level, prof, seed):
    z, profiles = make_profiles(prof)
    q0 = np.random.default_rng(seed).random((ny, nx))
    tag = "%dx%d halo=%s modes=%s %s" % (nx, ny, halo, modes, "fp" if footprint else "disp")
    try:
        X, Y, c, f = _solve(q0, z, profiles, nx, ny, dx, dy, level, modes, halo,
                            (2 * dx, 3 * dy), footprint)
    except Exception as e:
        return Verdict(True, "%s raised %s: %s" % (tag, type(e).__name__, str(e)[:80]), nontrivial=False)
    bad = shape_problem(X, Y, c, f, nx, ny, dx, dy)
    if bad:
        odd = gap_is_odd(nx, ny, dx, dy, halo, modes)
        key = "odd-gap-silent-" + bad[0] if odd else bad[0] + "-mismatch"
        return Verdict(False, "%s returned %s" % (tag, bad[1]), key=key)
    return Verdict(True, "%s returned %s" % (tag, c.shape))


@S.kind("low-pass")
def low_pass(nx, ny, dx, dy, modes, footprint, im, jm, level, prof, seed, bg):
    z, profiles = make_profiles(prof)
    q0 = np.random.default_rng(seed).random((ny, nx)) - 0.3
    meas = (im * dx, jm * dy)
    tag = "%dx%d modes=%s %s" % (nx, ny, modes, "fp" if footprint else "disp")
    try:
        X, Y, cA, fA = _solve(q0, z, profiles, nx, ny, dx, dy, level, modes, 0.0, meas, footprint, bg)
    except Exception as e:
        return Verdict(True, "%s raised %s (not an accepted combination)" % (tag, type(e).__name__),
                       nontrivial=False)
    bad = shape_problem(X, Y, cA, fA, nx, ny, dx, dy)
    if bad:
        odd = gap_is_odd(nx, ny, dx, dy, 0.0, modes)
        return Verdict(False, "%s returned %s" % (tag, bad[1]),
                       key=("odd-gap-silent-" + bad[0]) if odd else bad[0] + "-mismatch")
    _, _, cR, fR = _solve(q0, z, profiles, nx, ny, dx, dy, level, (BIG, BIG), 0.0, meas, footprint, bg)
    G = growth(z, profiles, level, nx, ny, dx, dy)
    tol = tolerance(G)
    cx, cy = min(modes[0], nx) / 2.0, min(modes[1], ny) / 2.0
    mx = np.abs(np.fft.fftfreq(nx, 1.0 / nx))[None, :]
    my = np.abs(np.fft.fftfreq(ny, 1.0 / ny))[:, None]
    inside = (mx < cx) & (my < cy)
    beyond = (mx > cx) | (my > cy)
    worst_in = worst_out = 0.0
    for A, R in ((cA, cR), (fA, fR)):
        FA, FR = np.fft.fft2(A) / A.size, np.fft.fft2(R) / R.size
        sc = max(float(np.max(np.abs(FR))), 1e-300)
        if inside.any():
            worst_in = max(worst_in, float(np.max(np.abs(FA - FR)[inside])) / sc)
        if beyond.any():
            worst_out = max(worst_out, float(np.max(np.abs(FA)[beyond])) / sc)
    ok = worst_in <= tol and worst_out <= tol
    one_axis = (modes[0] > nx) != (modes[1] > ny)
    key = "clamp-per-axis" if one_axis else "low-pass"
    truncating = modes[0] < nx or modes[1] < ny
    return Verdict(ok, "%s inside-bins diff %.2e, beyond-cut-off amplitude %.2e, tol %.1e (G=%.1f)" % (
        tag, worst_in, worst_out, tol, G), nontrivial=truncating, key=key,
        measured=max(worst_in, worst_out) / tol)


@S.kind("registration")
def registration(nx, ny, dx, dy, halo, modes, i0, j0, level, prof, seed):
    """'correctly registered result ... never a silently misaligned field', for every accepted
    (size parity, halo, mode count), observed where the statement pins the content to the grid:
      * dispersion mode, level 0: the vertical flux at the surface IS the surface flux, cell by
        cell (all modes retained: exactly; the check is skipped when the request truncates);
      * footprint mode, tower on node (i0, j0): the weights are registered on the source grid,
        i.e. sum_cells q0 * footprint equals the forward solution at that node (flux and
        concentration) - for any retained mode set, both sides use the same one.
    A rejected combination (exception) is an accepted outcome."""
    z, profiles = make_profiles(prof)
    q0 = np.random.default_rng(seed).random((ny, nx)) - 0.3
    nxe, nye = padded(nx, ny, dx, dy, halo)
    tag = "%dx%d (padded %dx%d) halo=%s modes=%s tower node (%d,%d)" % (nx, ny, nxe, nye, halo, modes,
                                                                         j0, i0)
    try:
        X, Y, cD, fD = _solve(q0, z, profiles, nx, ny, dx, dy, [0, level], modes, halo, (0.0, 0.0),
                              False)
        _, _, cF, fF = _solve(q0, z, profiles, nx, ny, dx, dy, level, modes, halo,
                              (i0 * dx, j0 * dy), True)
    except Exception as e:
        return Verdict(True, "%s raised %s (not an accepted combination)" % (tag, type(e).__name__),
                       nontrivial=False)
    if cD.shape != (2, ny, nx) or fD.shape != (2, ny, nx) or cF.shape != (ny, nx) or fF.shape != (ny, nx):
        return Verdict(True, "%s: shapes %s %s (see shape-or-raise)" % (tag, cD.shape, cF.shape),
                       nontrivial=False)
    tol = tolerance(growth(z, profiles, level, nxe, nye, dx, dy))
    parity = "odd" if (nxe % 2 or nye % 2) else "even"
    full = modes[0] >= nxe and modes[1] >= nye
    e0 = 0.0
    if full:
        e0 = float(np.max(np.abs(fD[0] - q0))) / float(np.max(np.abs(q0)))
        if e0 > tol:
            return Verdict(False, "%s: dispersion flux at level 0 differs from the surface flux by "
                           "%.2e of its maximum (tol %.1e)" % (tag, e0, tol),
                           key="surface-flux-misregistered-%s-grid" % parity, measured=e0 / tol)
    sf = max(float(np.max(np.abs(fD[1]))), 1e-300)
    sc = max(float(np.max(np.abs(cD[1]))), 1e-300)
    ef = abs(float(np.sum(fF * q0)) - float(fD[1][j0, i0])) / sf
    ec = abs(float(np.sum(cF * q0)) - float(cD[1][j0, i0])) / sc
    h = max(nx * dx, ny * dy) if halo is None else float(halo)
    comm = (int(h / dx) * dx == h) and (int(h / dy) * dy == h)
    hk = "halo-zero" if h == 0.0 else ("halo-commensurate" if comm else "halo-incommensurate")
    ok = max(ef, ec) <= tol
    return Verdict(ok, "%s: level-0 flux vs source %.2e; sum(q0*footprint) vs forward value at the "
                   "node: flux %.2e conc %.2e of the field maximum, tol %.1e" % (tag, e0, ef, ec, tol),
                   key="footprint-misregistered-%s-%s-grid" % (hk, parity),
                   measured=max(ef, ec, e0) / tol)


@S.kind("clamp")
def clamp(nx, ny, dx, dy, halo, footprint, which, a, b, big, level, prof, seed):
    """which='x': modes=(big, b) vs (nxe', b); 'y': (a, big) vs (a, nye'); 'xy': (big, big) vs
    (nxe', nye'), with n' = n if n is even else n+1."""
    z, profiles = make_profiles(prof)
    q0 = np.random.default_rng(seed).random((ny, nx)) - 0.3
    nxe, nye = padded(nx, ny, dx, dy, halo)
    ex, ey = nxe + nxe % 2, nye + nye % 2
    if which == "x":
        req, ref = [big, b], [ex, b]
    elif which == "y":
        req, ref = [a, big], [a, ey]
    else:
        req, ref = [big, big], [ex, ey]
    meas = (1 * dx, 2 * dy)
    tag = "%dx%d (padded %dx%d) halo=%s %s modes=%s vs %s" % (
        nx, ny, nxe, nye, halo, "fp" if footprint else "disp", req, ref)
    try:
        X, Y, cR, fR = _solve(q0, z, profiles, nx, ny, dx, dy, level, ref, halo, meas, footprint)
    except Exception as e:
        return Verdict(True, "%s: reference raised %s (not accepted)" % (tag, type(e).__name__),
                       nontrivial=False)
    if shape_problem(X, Y, cR, fR, nx, ny, dx, dy):
        return Verdict(True, "%s: reference not a registered result (see shape-or-raise)" % tag,
                       nontrivial=False)
    key = "clamp-both" if which == "xy" else "clamp-per-axis"
    try:
        X, Y, cA, fA = _solve(q0, z, profiles, nx, ny, dx, dy, level, req, halo, meas, footprint)
    except Exception as e:
        return Verdict(False, "%s: raised %s: %s" % (tag, type(e).__name__, str(e)[:100]),
                       key=key + "-raises")
    bad = shape_problem(X, Y, cA, fA, nx, ny, dx, dy)
    if bad:
        return Verdict(False, "%s: returned %s" % (tag, bad[1]), key=key + "-" + bad[0])
    tol = tolerance(growth(z, profiles, level, nxe, nye, dx, dy))
    ec = float(np.max(np.abs(cA - cR))) / max(float(np.max(np.abs(cR))), 1e-300)
    ef = float(np.max(np.abs(fA - fR))) / max(float(np.max(np.abs(fR))), 1e-300)
    return Verdict(max(ec, ef) <= tol, "%s: conc relerr %.2e flx relerr %.2e tol %.1e" % (tag, ec, ef, tol),
                   key=key, measured=max(ec, ef) / tol)


# ------------------------------------------------------------------ bounded family
DX, DY = 10.0, 7.5
PROFS = [
    dict(nz=6, z0=0.3, ztop=8.0, stretch=1.2, U=4.0, wdir=35.0, veer=20.0, ax=1.4, ay=0.8, az=1.0),
    dict(nz=9, z0=0.1, ztop=6.0, stretch=1.6, U=3.0, wdir=210.0, veer=-30.0, ax=0.7, ay=1.6, az=1.2),
]


def mode_options(n_pad, with_odd=False):
    below = n_pad - 1 if (n_pad - 1) % 2 == 0 else n_pad - 2
    above = n_pad + 1 if (n_pad + 1) % 2 == 0 else n_pad + 2
    opts = {4, 6, below, above, 64}
    if n_pad % 2 == 0:
        opts.add(n_pad)
    if with_odd:
        opts.add(5)
    return sorted(o for o in opts if o >= 2)


def generate(tier, rng):
    quick = tier == "quick"
    sizes = list(range(5, 11)) if quick else list(range(5, 13))
    halos = [0.0, None, 17.0] if quick else [0.0, None, 17.0, 30.0, 24.0]
    profs = PROFS[:1] if quick else PROFS
    # design witnesses first
    yield "shape-or-raise", dict(nx=9, ny=7, dx=DX, dy=DY, halo=0.0, modes=[4, 4], footprint=True,
                                 level=3, prof=PROFS[0], seed=1)
    yield "low-pass", dict(nx=16, ny=12, dx=DX, dy=DY, modes=[1024, 8], footprint=False, im=3, jm=2,
                           level=3, prof=PROFS[0], seed=2, bg=0.0)
    yield "clamp", dict(nx=16, ny=12, dx=DX, dy=DY, halo=0.0, footprint=False, which="x", a=16, b=8,
                        big=1024, level=3, prof=PROFS[0], seed=3)
    # 1. exhaustive shape-or-raise sweep
    for prof in profs:
        lev = prof["nz"] // 2
        for nx in sizes:
            for ny in sizes:
                for halo in halos:
                    nxe, nye = padded(nx, ny, DX, DY, halo)
                    for mx in mode_options(nxe, with_odd=(nx == 5)):
                        for my in mode_options(nye, with_odd=(ny == 6)):
                            for fp in (False, True):
                                yield "shape-or-raise", dict(
                                    nx=nx, ny=ny, dx=DX, dy=DY, halo=halo, modes=[mx, my],
                                    footprint=fp, level=lev, prof=prof, seed=nx * 100 + ny)
    # 2. low-pass at halo=0: every even count up to the size, the size, and an excessive count
    for prof in profs:
        lev = prof["nz"] // 2
        for nx in sizes:
            for ny in sizes:
                ox = [m for m in range(2, nx + 1, 2)] + [64]
                oy = [m for m in range(2, ny + 1, 2)] + [64]
                for mx in ox:
                    for my in oy:
                        if mx >= nx and my >= ny:
                            continue
                        for fp in (False, True):
                            yield "low-pass", dict(
                                nx=nx, ny=ny, dx=DX, dy=DY, modes=[mx, my], footprint=fp,
                                im=rng.randint(0, nx - 1), jm=rng.randint(0, ny - 1), level=lev,
                                prof=prof, seed=rng.randint(0, 2 ** 31 - 1), bg=rng.choice([0.0, 1.0]))
    # 2b. registration of the content: every size parity x halo x accepted mode count
    for prof in profs:
        lev = prof["nz"] // 2
        for nx in sizes:
            for ny in sizes:
                for halo in halos:
                    nxe, nye = padded(nx, ny, DX, DY, halo)
                    opts = [[64, 64]]
                    if nxe % 2 == 0 and nye % 2 == 0:
                        opts += [[nxe, nye], [nxe - 2, max(nye - 4, 2)]]
                    elif nxe % 2 == 0:
                        opts += [[nxe - 2, 64]]
                    elif nye % 2 == 0:
                        opts += [[64, nye - 2]]
                    for modes in opts:
                        yield "registration", dict(
                            nx=nx, ny=ny, dx=DX, dy=DY, halo=halo, modes=modes,
                            i0=rng.randint(0, nx - 1), j0=rng.randint(0, ny - 1), level=lev,
                            prof=prof, seed=rng.randint(0, 2 ** 31 - 1))
    # 3. clamp, per axis and both
    for prof in profs:
        lev = prof["nz"] // 2
        for nx in sizes:
            for ny in sizes:
                for halo in halos:
                    nxe, nye = padded(nx, ny, DX, DY, halo)
                    for fp in (False, True):
                        for big in ((64, 1024) if not quick else (1024,)):
                            yield "clamp", dict(nx=nx, ny=ny, dx=DX, dy=DY, halo=halo, footprint=fp,
                                                which="xy", a=0, b=0, big=big, level=lev, prof=prof,
                                                seed=nx * 100 + ny)
                            for b in sorted({m for m in (4, nye - 2, nye - 4) if m >= 2 and m % 2 == 0 and (nye - m) % 2 == 0}):
                                yield "clamp", dict(nx=nx, ny=ny, dx=DX, dy=DY, halo=halo, footprint=fp,
                                                    which="x", a=0, b=b, big=big, level=lev, prof=prof,
                                                    seed=nx * 100 + ny)
                            for a in sorted({m for m in (4, nxe - 2, nxe - 4) if m >= 2 and m % 2 == 0 and (nxe - m) % 2 == 0}):
                                yield "clamp", dict(nx=nx, ny=ny, dx=DX, dy=DY, halo=halo, footprint=fp,
                                                    which="y", a=a, b=0, big=big, level=lev, prof=prof,
                                                    seed=nx * 100 + ny)


if __name__ == "__main__":
    S.main(generate)
