"""C08 - the meteorological wind-direction convention holds end to end.

Bounded stand-in for the clause no contract decides: on a resolved, tower-centred domain the
footprint returned by the configuration-driven interface lies UPWIND of the tower - the bearing
(clockwise from north) from the tower to the footprint's centre of mass equals wind_dir.
Also the native replay of the proved clause on compute_wind_fields (speed preserved; 0/90/180/270
degrees blow toward south/west/north/east).

Set-up (everything through the public interface): parse_config_dict with the tower's lat/lon
chosen so that its local (x, y) is the centre of the domain, footprint=True, run_bldfm_single;
centre of mass of result["flx"] on result["grid"].  "Resolved" is made concrete as: 5 m cells,
measurement height 2..4 m, halo = 1.5 * max(xmax, ymax) (a whole number of cells), all Fourier
modes of the padded grid retained.  The solver works on a periodic padded domain: the tail of the
footprint that leaves it re-enters as a periodic image, which for winds a few degrees off a grid
axis crosses the inner domain off-axis and pulls the centroid.  Explored on the unchanged solver
(every 1 deg, stable L=+100 being the worst): max bearing error 2.1 deg with this halo (3.4 deg
with halo = max, 1.1 deg with 2*max); truncated mode sets (64x64 of 192x192) add up to 5 deg
through Gibbs ringing and are therefore not used as evidence.  Tolerance: 5 degrees.
"""
import math
import os
import sys

sys.path.insert(0, os.path.dirname(__file__))
from _common import Suite, Verdict  # noqa: E402

S = Suite(
    "C08",
    what="run_bldfm_single on parse_config_dict configs: bearing tower -> footprint centroid vs "
         "wind_dir; utils.compute_wind_fields convention and speed",
    bound="decomposition: every whole degree 0..360 as float / int / array plus sub-degree and "
          "out-of-range angles; footprint: wind_dir every 45 deg (quick) / 15 deg (thorough), "
          "the first degrees either side of north, plus seeded off-lattice angles x "
          "{neutral, L=-50, L=+100} x {MOST, MOSTM} x grids {64x64 square, 128x64 and 64x128 with "
          "square cells, 64x64 with 2:1 cells} x 3 reference positions (50N 11E, 33S 179.9E, "
          "0N 70W) x speeds 2.5/4/7 m/s x zm 2/3/4 m; nz = 8, 5 m cells, single precision; other "
          "heights, resolutions, off-centre towers not examined; 4 (quick) / 12 (thorough) directions through "
          "run_bldfm_timeseries with use_cache and a repeated forcing (second step served from the cache); 2 / 8 directions on a "
          "configuration rebuilt twice around the same tower objects (dataclasses.replace sweep)",
    rule="|bearing(centroid - tower) - wind_dir| <= 5 deg, centroid at least two cells away from "
         "the tower; |hypot(u,v) - s| <= 1e-12 s; cardinals to 1e-12 s",
)

GRIDS = {
    "square": (64, 64, 5.0, 5.0),
    "wide": (128, 64, 5.0, 5.0),      # xmax = 2 ymax
    "tall": (64, 128, 5.0, 5.0),      # ymax = 2 xmax
    "cells21": (64, 64, 10.0, 5.0),   # 2:1 cells
}
REFS = {"jena": (50.95, 11.586), "dateline-south": (-33.0, 179.9), "equator-west": (0.0, -70.0)}


def angdiff(a, b):
    return abs((a - b + 180.0) % 360.0 - 180.0)


@S.kind("bearing")
def bearing(wind_dir, mol, closure, grid, ref, wind_speed, zm, via="single"):
    """via = "single": run_bldfm_single; "series-cached": the configuration asks for result caching and repeats the
    forcing, run_bldfm_timeseries -- the LAST result (served from the cache the series created) is judged."""
    import numpy as np
    from bldfm.config_parser import parse_config_dict
    from bldfm.interface import run_bldfm_single, run_bldfm_timeseries
    from bldfm.plotting._geo import xy_to_latlon
    nx, ny, dx, dy = GRIDS[grid]
    xmax, ymax = nx * dx, ny * dy
    ref_lat, ref_lon = REFS[ref]
    lat, lon = xy_to_latlon(xmax / 2.0, ymax / 2.0, ref_lat, ref_lon)
    halo = 1.5 * max(xmax, ymax)
    px, py = int(round(halo / dx)), int(round(halo / dy))
    cfg = parse_config_dict({
        "domain": {"nx": nx, "ny": ny, "xmax": xmax, "ymax": ymax, "nz": 8,
                   "modes": [nx + 2 * px, ny + 2 * py], "halo": halo,
                   "ref_lat": ref_lat, "ref_lon": ref_lon},
        "towers": [{"name": "T", "lat": float(lat), "lon": float(lon), "z_m": zm}],
        "met": {"ustar": 0.1 * wind_speed, "mol": mol, "wind_speed": wind_speed,
                # (the configurations of a sweep start from ANOTHER direction: whatever the first one derived from its own
                # forcing must not survive into the one under test)
                "wind_dir": [wind_dir, wind_dir] if via == "series-cached" else ((wind_dir + 77.0) % 360.0 if via in ("rebuilt", "reassigned") else wind_dir)},
        "solver": {"closure": closure, "footprint": True},
        "parallel": {"use_cache": via == "series-cached"},
    })
    tw = cfg.towers[0]
    if abs(tw.x - xmax / 2.0) > 1e-6 or abs(tw.y - ymax / 2.0) > 1e-6:
        return Verdict(False, "tower local xy (%r,%r) is not the domain centre (%r,%r)"
                       % (tw.x, tw.y, xmax / 2.0, ymax / 2.0), key="tower-not-centred")
    if via == "rebuilt":
        # a parameter sweep: the configuration is rebuilt (dataclasses.replace re-runs __post_init__) around the SAME
        # tower objects, first with two other directions, then with the one under test
        import dataclasses
        cfg.met.get_step(0)             # every configuration of the sweep is inspected / used before the next one is derived
        for wd_other in (wind_dir + 120.0, wind_dir + 240.0):
            cfg = dataclasses.replace(cfg, met=dataclasses.replace(cfg.met, wind_dir=wd_other % 360.0))
            cfg.met.get_step(0)
        cfg = dataclasses.replace(cfg, met=dataclasses.replace(cfg.met, wind_dir=wind_dir))
        tw = cfg.towers[0]
        # the tower's true position comes from its lat/lon, not from what the object carries
        from bldfm.config_parser import latlon_to_xy
        tx, ty = latlon_to_xy(float(lat), float(lon), ref_lat, ref_lon)
        r = run_bldfm_single(cfg, tw)
        tw = type("TruePosition", (), {"x": tx, "y": ty})()
    elif via == "reassigned":
        # the forcing of a configuration that has been used already is changed in place (MetConfig is a plain dataclass)
        cfg.met.wind_dir = (wind_dir + 150.0) % 360.0
        cfg.met.get_step(0)
        cfg.met.wind_dir = wind_dir
        r = run_bldfm_single(cfg, tw)
    elif via == "single":
        r = run_bldfm_single(cfg, tw)
    else:
        import shutil
        shutil.rmtree(".bldfm_cache", ignore_errors=True)
        r = run_bldfm_timeseries(cfg, tw)[-1]
        shutil.rmtree(".bldfm_cache", ignore_errors=True)
    X, Y = r["grid"][0], r["grid"][1]
    f = np.asarray(r["flx"], dtype=float)
    if f.shape != (ny, nx) or not np.all(np.isfinite(f)):
        return Verdict(False, "footprint shape %r / non-finite" % (f.shape,), key="footprint-shape")
    if np.shape(X) != f.shape or np.shape(Y) != f.shape:
        return Verdict(False, ("" if via == "single" else "[%s] " % via) + "grid shapes %r %r do not match the footprint %r"
                       % (np.shape(X), np.shape(Y), f.shape), key="grid-shape")
    tot = float(f.sum())
    if not tot > 0:
        return Verdict(False, "footprint sums to %r" % tot, key="footprint-empty")
    cx = float((f * X).sum()) / tot - tw.x        # east of the tower
    cy = float((f * Y).sum()) / tot - tw.y        # north of the tower
    dist = math.hypot(cx, cy)
    b = math.degrees(math.atan2(cx, cy)) % 360.0  # clockwise from north
    err = angdiff(b, wind_dir)
    tag = ("" if via == "single" else "[%s] " % via) + "wd=%r L=%r %s %s %s ws=%r zm=%r: centroid %.1f m from the tower at bearing %.2f" \
          % (wind_dir, mol, closure, grid, ref, wind_speed, zm, dist, b)
    if dist < 2.0 * max(dx, dy):
        return Verdict(False, tag + " - no upwind displacement", key="no-upwind-displacement")
    if err > 5.0:
        if angdiff(b, wind_dir + 180.0) <= 5.0:
            key = "footprint-downwind"
        elif angdiff(b, 90.0 - wind_dir) <= 5.0 or angdiff(b, 270.0 - wind_dir) <= 5.0 \
                or angdiff(b, -wind_dir) <= 5.0:
            key = "footprint-mirrored-or-axes-swapped"
        else:
            key = "bearing-off"
        return Verdict(False, tag + " (error %.2f deg)" % err, key=key)
    return Verdict(True, tag, measured={"err": err})


@S.kind("wind-fields")
def wind_fields(speed, wind_dir, as_array, as_int=False):
    import numpy as np
    from bldfm.utils import compute_wind_fields
    if as_int:                      # degrees typed without a decimal point (YAML: `wind_dir: 5`)
        if wind_dir != int(wind_dir):
            raise AssertionError("generator: as_int needs a whole number of degrees")
        wind_dir = int(wind_dir)
    if as_array:
        u, v = compute_wind_fields(speed, np.array([wind_dir, wind_dir]))
        u, v = float(u[0]), float(v[0])
    else:
        u, v = compute_wind_fields(speed, wind_dir)
        u, v = float(u), float(v)
    tol = 1e-12 * speed
    if abs(math.hypot(u, v) - speed) > tol:
        return Verdict(False, "speed %r -> |(u,v)| = %r" % (speed, math.hypot(u, v)),
                       key="speed-not-preserved")
    th = math.radians(wind_dir)
    # blowing FROM bearing th: the air moves toward th + 180 deg
    wu, wv = -speed * math.sin(th), -speed * math.cos(th)
    if abs(u - wu) > tol or abs(v - wv) > tol:
        return Verdict(False, "wind_dir=%r: (u,v)=(%r,%r), convention gives (%r,%r)"
                       % (wind_dir, u, v, wu, wv), key="wind-convention")
    card = {0.0: (0.0, -1.0), 90.0: (-1.0, 0.0), 180.0: (0.0, 1.0), 270.0: (1.0, 0.0)}
    if wind_dir % 360.0 in card:
        eu, ev = card[wind_dir % 360.0]
        if abs(u - eu * speed) > tol or abs(v - ev * speed) > tol:
            return Verdict(False, "wind_dir=%r must blow toward %s: (u,v)=(%r,%r)"
                           % (wind_dir, {0.0: "south", 90.0: "west", 180.0: "north",
                                         270.0: "east"}[wind_dir % 360.0], u, v),
                           key="cardinal-direction")
    return Verdict(True, "wd=%r" % wind_dir)


def generate(tier, rng):
    q = tier == "quick"
    # ---- wind decomposition
    for wd in (0.0, 90.0, 180.0, 270.0, 360.0, 450.0, -90.0):
        for s in (0.5, 3.0, 12.5):
            yield "wind-fields", dict(speed=s, wind_dir=wd, as_array=False)
    for k in range(40 if q else 400):
        yield "wind-fields", dict(speed=rng.uniform(0.1, 30.0), wind_dir=rng.uniform(0.0, 360.0),
                                  as_array=bool(k % 2))
    # the whole compass degree by degree, as float, int and array ("for every wind direction"):
    # a convention that holds on a lattice of 15 or 45 degrees can still fail in between
    for d in range(0, 361):
        yield "wind-fields", dict(speed=(2.0, 5.5, 11.0)[d % 3], wind_dir=float(d),
                                  as_array=bool(d % 2), as_int=bool(d % 4 < 2))
    # ... and the first degrees east of north and west of north in finer steps
    for wd in (0.25, 0.5, 1.5, 2.5, 3.14, 4.7, 6.0, 6.28, 6.3, 7.5, 57.3, 359.5, -0.5, -3.0, 363.0):
        for arr in (False, True):
            yield "wind-fields", dict(speed=3.0, wind_dir=wd, as_array=arr)
    # ---- footprint upwind of the tower
    for wd in (5.0, 3.0, 1.0, 355.0) if q else (5.0, 3.0, 1.0, 355.0, 2.0, 6.0, 0.5, 359.0):
        yield "bearing", dict(wind_dir=wd, mol=(1e9, -50.0)[int(wd) % 2], closure="MOST",
                              grid="square", ref="jena", wind_speed=4.0, zm=3.0)
    step = 45 if q else 15
    grids = ("square", "wide") if q else ("square", "wide", "tall", "cells21")
    refs = list(REFS)
    k = 0
    for grid in grids:
        for closure in ("MOST", "MOSTM"):
            for mol in (1e9, -50.0, 100.0):
                for wd in range(0, 360, step):
                    k += 1
                    yield "bearing", dict(wind_dir=float(wd), mol=mol, closure=closure, grid=grid,
                                          ref=refs[k % 3], wind_speed=(4.0, 2.5, 7.0)[(k // 3) % 3],
                                          zm=(4.0, 2.0, 3.0)[(k // 9) % 3])
    # ... the same through the series driver with result caching configured (second, identical step: a cache hit)
    for k, wd in enumerate((0.0, 110.0, 270.0, 45.0) if q else range(0, 360, 30)):
        yield "bearing", dict(wind_dir=float(wd), mol=(1e9, -50.0, 100.0)[k % 3], closure=("MOST", "MOSTM")[k % 2],
                              grid=("square", "wide")[k % 2 if not q else (k // 2) % 2], ref=refs[k % 3], wind_speed=4.0, zm=3.0, via="series-cached")
    # ... and on a configuration rebuilt twice around the same tower objects (a wind-direction sweep)
    for k, wd in enumerate((30.0, 210.0) if q else range(15, 360, 45)):
        yield "bearing", dict(wind_dir=float(wd), mol=(1e9, -50.0)[k % 2], closure="MOST", grid=("square", "wide")[k % 2], ref=refs[k % 3],
                              wind_speed=4.0, zm=3.0, via="rebuilt")
    for k, wd in enumerate((75.0, 300.0) if q else range(5, 360, 60)):
        yield "bearing", dict(wind_dir=float(wd), mol=(-50.0, 1e9)[k % 2], closure="MOST", grid=("wide", "square")[k % 2], ref=refs[k % 3],
                              wind_speed=4.0, zm=3.0, via="reassigned")
    for k in range(12 if q else 96):
        yield "bearing", dict(wind_dir=round(rng.uniform(0.0, 360.0), 3),
                              mol=rng.choice([1e9, -50.0, 100.0, -15.0, 400.0]),
                              closure=rng.choice(["MOST", "MOSTM"]),
                              grid=rng.choice(list(grids)), ref=rng.choice(refs),
                              wind_speed=rng.choice([2.5, 4.0, 7.0]),
                              zm=rng.choice([2.0, 3.0, 4.0]))


if __name__ == "__main__":
    S.main(generate)
