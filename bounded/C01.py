"""C01 -- bounded stand-in: refinement study of the transport solver against an independent
Riccati (admittance) integration of the per-mode boundary-value problem.

Oracle (from the property statement / DESIGN Appendix B.1, NOT from the code):

    p' = -q/Kz(z),   q' = T(z) p,   T = -(Kx kx^2 + Ky ky^2) - i (u kx + v ky),
    q(z0) = 1,       q(zt) = Kz(zt) * lam * p(zt),   lam = principal sqrt(-T(zt)/Kz(zt)).

With the impedance Z = p/q the BVP becomes the initial-value problem (downwards from the top)
    dZ/ds = 1/Kz + T Z^2,  dW/ds = T Z,   s = zt - z,  Z(0) = 1/(Kz_t lam),  W(0) = 0,
and  q(z)/q(z0) = exp(W(z0) - W(z)),  p(z)/q(z0) = Z(z) q(z)/q(z0).
It is integrated with scipy DOP853 at rtol 1e-11 on smooth profile FUNCTIONS.

Observation: public API, halo=0, precision='double'; per-mode transfer function
fft2(output)/fft2(source) of a random real source.
"""
import os
import sys
import warnings

sys.path.insert(0, os.path.dirname(os.path.abspath(__file__)))
from _common import Suite, Verdict  # noqa: E402

import numpy as np  # noqa: E402

warnings.filterwarnings("ignore")

S = Suite(
    "C01",
    what="native refinement study (n -> 4n -> 16n) of the per-mode transfer function of "
         "steady_state_transport_solver against a DOP853 Riccati integration of the BVP",
    bound="profile families {log,power-law wind (oblique, optional veer)} x {linear, power-law, "
          "Businger-Dyer K; anisotropic Kx!=Ky!=Kz} on uniform and geometric grids, n=16 "
          "(thorough: also n=64 and seeded random parameters), MOST/MOSTM/CONSTANT closures "
          "of vertical_profiles (n=8..12), grids <= 9x8 cells, every non-constant, non-Nyquist "
          "retained component with |T|dz^2/Kz<=1 in every coarse layer and sum Re(lam)dz<=18; "
          "output heights requested as scalar, ascending, descending, unsorted and repeated "
          "node selections (slot k judged against the exact solution at the k-th height); "
          "refinement chain n -> 4n -> 16n (thorough also 64 -> 256 -> 1024)",
    rule="per component: err = max over levels |H-Hexact| / max over levels |Hexact| (conc and "
         "flux); err <= 3*max(dz/z) on every grid and err(n)/err(4n) >= 2.5 "
         "(waived when err(4n) < 1e-8)",
)

KAP = 0.4
ERR_C = 3.0
MIN_RATIO = 2.5
FLOOR = 1e-8


# ------------------------------------------------------------------ real code under test
def _solver():
    from bldfm.solver import steady_state_transport_solver
    return steady_state_transport_solver


def _quiet_exit():
    """The FFT manager's atexit hook starts a thread at interpreter shutdown (noise on
    stderr under Python 3.12).  Drop the hook; it only saves FFTW wisdom."""
    try:
        import atexit
        from bldfm import fft_manager
        m = fft_manager._fft_manager
        if m is not None:
            atexit.unregister(m._cleanup)
    except Exception:
        pass


def _transfer(q0, z, prof, domain, levels, modes):
    """Per-bin transfer functions (conc, flux) of the real solver, shape (nlev, ny, nx)."""
    solve = _solver()
    prof = tuple(np.ascontiguousarray(a, dtype=float) for a in prof)
    lv = levels if np.ndim(levels) == 0 else np.asarray(levels, dtype=np.int64)
    _, conc, flx = solve(q0, np.ascontiguousarray(z, dtype=float), prof, domain, lv,
                         modes=tuple(modes), halo=0.0, precision="double")
    _quiet_exit()
    ny, nx = q0.shape
    conc = np.asarray(conc).reshape(-1, ny, nx)
    flx = np.asarray(flx).reshape(-1, ny, nx)
    s = np.fft.fft2(q0)
    with np.errstate(all="ignore"):
        return np.fft.fft2(conc, axes=(1, 2)) / s, np.fft.fft2(flx, axes=(1, 2)) / s


# ------------------------------------------------------------------ smooth profile families
def make_profiles(wind, K, aniso):
    ax, ay = aniso

    def f(z):
        z = np.asarray(z, dtype=float)
        if wind["type"] == "log":
            s = wind["ustar"] / KAP * np.log(z / wind["z00"])
        elif wind["type"] == "power":
            s = wind["uref"] * (z / wind["zref"]) ** wind["m"]
        else:
            raise ValueError(wind["type"])
        th = np.deg2rad(wind["dir"]) + wind.get("veer", 0.0) * z
        u, v = s * np.cos(th), s * np.sin(th)
        if K["type"] == "linear":
            k = K["a"] * z + K["b"]
        elif K["type"] == "power":
            k = K["kref"] * (z / K["zref"]) ** K["m"]
        elif K["type"] == "most":       # Businger-Dyer shape
            x = z / K["L"]
            phi = np.where(x > 0, 1.0 + 5.0 * x, (1.0 - 16.0 * np.minimum(x, 0.0)) ** -0.5)
            k = KAP * K["ustar"] * z / phi
        else:
            raise ValueError(K["type"])
        return u, v, ax * k, ay * k, k

    return f


def make_grid(kind, z0, zt, n):
    xi = np.arange(n + 1) / float(n)
    if kind == "uniform":
        return z0 + (zt - z0) * xi
    if kind == "geometric":
        return z0 * (zt / z0) ** xi
    raise ValueError(kind)


# ------------------------------------------------------------------ the oracle
def _T(prof, z, kx, ky):
    u, v, Kx, Ky, Kz = prof(z)
    return -(Kx * kx ** 2 + Ky * ky ** 2) - 1j * (u * kx + v * ky), Kz


def riccati_oracle(prof, z0, zt, zlev, kx, ky, rtol=1e-11):
    """Exact (to rtol) Hp = p(z)/q(z0), Hq = q(z)/q(z0) at heights zlev for components (kx,ky)."""
    from scipy.integrate import solve_ivp
    m = len(kx)
    Tt, Kzt = _T(prof, zt, kx, ky)
    lam = np.sqrt(-Tt / Kzt + 0j)
    if not np.all(lam.real > 0):
        raise AssertionError("oracle: Re(lambda) <= 0 for a non-constant component")
    y0 = np.concatenate([1.0 / (Kzt * lam), np.zeros(m, dtype=complex)])

    def rhs(s, y):
        T, Kz = _T(prof, zt - s, kx, ky)
        Z = y[:m]
        return np.concatenate([1.0 / Kz + T * Z * Z, T * Z])

    sl = zt - np.asarray(zlev, dtype=float)
    sl = np.clip(sl, 0.0, zt - z0)
    te = np.unique(np.append(sl, zt - z0))
    sol = solve_ivp(rhs, (0.0, zt - z0), y0, method="DOP853", rtol=rtol, atol=1e-14,
                    t_eval=te)
    if not sol.success or sol.y.shape[1] != len(te):
        raise AssertionError("oracle: integration failed: %s" % sol.message)
    idx = np.searchsorted(te, sl)
    Z = sol.y[:m, idx].T
    W = sol.y[m:, idx].T
    W0 = sol.y[m:, -1]
    Hq = np.exp(W0[None, :] - W)
    return Z * Hq, Hq


def _select(prof, zc, nx, ny, X, Y, modes, upto=None):
    """Retained, non-constant, unambiguous (non-edge) bins that the coarse grid resolves."""
    mx = np.fft.fftfreq(nx, 1.0 / nx)
    my = np.fft.fftfreq(ny, 1.0 / ny)
    MX, MY = np.meshgrid(mx, my)
    nlx, nly = modes
    if nlx > nx or nly > ny:
        nlx, nly = nx, ny
    ok = (np.abs(MX) < nlx / 2.0) & (np.abs(MY) < nly / 2.0)
    ok[0, 0] = False
    KX = 2.0 * np.pi * MX / X
    KY = 2.0 * np.pi * MY / Y
    dz = np.diff(zc)
    res = np.zeros((ny, nx))
    grow = np.zeros((ny, nx))
    for i in range(len(dz)):
        for node in (i, i + 1):
            T, Kz = _T(prof, zc[node], KX, KY)
            res = np.maximum(res, np.abs(T) * dz[i] ** 2 / Kz)
        T, Kz = _T(prof, zc[i], KX, KY)
        if upto is None or i < upto:
            # rounding in the two shooting solutions is amplified by their growth BELOW the output level; with `upto`
            # (deep columns, low output levels) the growth up to the highest requested node counts, not up to the top
            grow += np.sqrt(-T / Kz + 0j).real * dz[i]
    sel = ok & (res <= 1.0) & (grow <= 18.0)
    return sel, KX[sel], KY[sel], int(ok.sum())


def _component_errors(hp, hq, Hp, Hq):
    ep = np.max(np.abs(hp - Hp), axis=0) / np.max(np.abs(Hp), axis=0)
    eq = np.max(np.abs(hq - Hq), axis=0) / np.max(np.abs(Hq), axis=0)
    return np.maximum(ep, eq)


def _judge(errs, rels, nsel, nret, tag, extra=""):
    """errs: list over refinements of per-component errors; rels: max(dz/z) per refinement."""
    errs = [np.asarray(e) for e in errs]
    if not all(np.all(np.isfinite(e)) for e in errs):
        return Verdict(False, "non-finite transfer function " + extra, key="nonfinite-" + tag)
    worst_bound = max(float(e.max()) / r for e, r in zip(errs, rels))
    ratios = []
    for a, b in zip(errs[:-1], errs[1:]):
        live = b >= FLOOR
        ratios.append(float(np.min(a[live] / b[live])) if live.any() else float("inf"))
    detail = ("%s comps=%d/%d err=%s err/max(dz/z)=%.3f min-ratio=%s %s" % (
        tag, nsel, nret, ["%.3e" % e.max() for e in errs], worst_bound,
        ["%.2f" % r for r in ratios], extra))
    measured = {"err_over_rel": worst_bound, "min_ratio": min(ratios)}
    if worst_bound > ERR_C:
        return Verdict(False, detail, key="error-bound-" + tag, measured=measured)
    if min(ratios) < MIN_RATIO:
        return Verdict(False, detail, key="refinement-ratio-" + tag, measured=measured)
    return Verdict(True, detail, nontrivial=nsel >= 3, measured=measured)


# ------------------------------------------------------------------ kinds
@S.kind("refine")
def refine(wind, K, aniso, grid, z0, zt, n, factors, nx, ny, X, Y, modes, level_fracs, seed, deep=False):
    """Formula profiles on self-built grids; coarse n layers, refined n*f for f in factors."""
    prof = make_profiles(wind, K, aniso)
    rng = np.random.default_rng(seed)
    q0 = rng.standard_normal((ny, nx))
    zc = make_grid(grid, z0, zt, n)
    if min(np.min(a) for a in prof(zc)[2:]) <= 0 or np.min(np.hypot(*prof(zc)[:2])) <= 0:
        raise AssertionError("generator produced a non-positive profile")
    upto = None
    if deep:
        upto = max(int(round(f * n)) for f in np.atleast_1d(level_fracs))
    sel, kx, ky, nret = _select(prof, zc, nx, ny, X, Y, modes, upto=upto)
    nsel = int(sel.sum())
    if nsel == 0:
        return Verdict(True, "no resolved component", nontrivial=False)
    if np.ndim(level_fracs) == 0:
        levc = int(round(level_fracs * n))
        zlev = [zc[levc]]
    else:
        levc = [int(round(f * n)) for f in level_fracs]     # order and repeats as requested
        zlev = zc[levc]
    Hp, Hq = riccati_oracle(prof, z0, zt, zlev, kx, ky)
    errs, rels = [], []
    for f in [1] + list(factors):
        z = make_grid(grid, z0, zt, n * f)
        lv = levc * f if np.ndim(levc) == 0 else [l * f for l in levc]
        hp, hq = _transfer(q0, z, prof(z), (X, Y), lv, modes)
        errs.append(_component_errors(hp[:, sel], hq[:, sel], Hp, Hq))
        rels.append(float(np.max(np.diff(z) / z[:-1])))
    tag = "varying-profiles-%s-grid" % grid
    return _judge(errs, rels, nsel, nret, tag,
                  extra="wind=%s K=%s" % (wind["type"], K["type"]))


@S.kind("closure")
def closure(closure, n, zm, wind, ustar, mol, stretch, factors, nx, ny, X, Y, level_fracs,
            seed):
    """Profiles and stretched grid from the real vertical_profiles; the oracle integrates the
    same smooth profiles (cubic spline through a 64x finer sampling of the closure)."""
    from bldfm.pbl_model import vertical_profiles
    from scipy.interpolate import CubicSpline
    kw = dict(ustar=ustar, mol=mol, closure=closure)
    if stretch is not None:
        kw["stretch"] = stretch
    zc, pc = vertical_profiles(n, zm, tuple(wind), **kw)
    mt = len(zc) - 2                      # drop the last node: finer grids cover it
    zr, pr = vertical_profiles(64 * n, zm, tuple(wind), **kw)
    splines = [CubicSpline(zr, np.asarray(a, dtype=float) * np.ones(len(zr))) for a in pr]

    def prof(z):
        return tuple(s(z) for s in splines)

    zc_t = zc[:mt + 1]
    z0, zt = float(zc_t[0]), float(zc_t[-1])
    rng = np.random.default_rng(seed)
    q0 = rng.standard_normal((ny, nx))
    modes = (512, 512)
    sel, kx, ky, nret = _select(prof, zc_t, nx, ny, X, Y, modes)
    nsel = int(sel.sum())
    if nsel == 0:
        return Verdict(True, "no resolved component", nontrivial=False)
    levc = [int(round(f * mt)) for f in level_fracs]         # order and repeats as requested
    Hp, Hq = riccati_oracle(prof, z0, zt, zc_t[levc], kx, ky, rtol=1e-10)
    errs, rels = [], []
    for f in [1] + list(factors):
        z, p = vertical_profiles(n * f, zm, tuple(wind), **kw)
        if len(z) < mt * f + 1 or abs(z[mt * f] - zt) > 1e-9 * zt or abs(z[0] - z0) > 1e-12:
            raise AssertionError("refined closure grid does not contain the coarse nodes")
        z = z[:mt * f + 1]
        p = tuple(np.asarray(a, dtype=float)[:mt * f + 1] for a in p)
        hp, hq = _transfer(q0, z, p, (X, Y), [l * f for l in levc], modes)
        errs.append(_component_errors(hp[:, sel], hq[:, sel], Hp, Hq))
        rels.append(float(np.max(np.diff(z) / z[:-1])))
    tag = "closure-%s" % closure
    return _judge(errs, rels, nsel, nret, tag, extra="mol=%g" % mol)


# ------------------------------------------------------------------ the bounded family
WINDS = [
    dict(type="log", ustar=0.4, z00=0.02, dir=20.0),
    dict(type="power", uref=4.0, zref=5.0, m=0.25, dir=250.0),
    dict(type="log", ustar=0.25, z00=0.01, dir=135.0, veer=0.01),
]
KS = [
    dict(type="linear", a=0.16, b=0.0),
    dict(type="power", kref=0.8, zref=5.0, m=0.8),
    dict(type="most", ustar=0.4, L=-40.0),
    dict(type="most", ustar=0.3, L=60.0),
    dict(type="linear", a=0.05, b=0.3),
]
ANISO = [(1.0, 1.0), (2.0, 0.5)]
LEVELS = [0.0, 0.25, 0.5, 1.0]
# "every requested output height": the request is an ORDERED selection of nodes.  Slot k of the
# result is compared with the exact solution at the k-th requested height, so ascending,
# descending, unsorted and repeated requests are all part of the family.
LEVEL_ORDERS = [
    [0.0, 0.25, 0.5, 1.0],        # ascending incl. surface and top node
    [1.0, 0.5],                   # top node first
    [1.0, 0.5, 0.25, 0.0],        # descending
    [0.5, 1.0, 0.25],             # unsorted
    [0.25, 0.75, 0.25, 1.0],      # a level repeated out of order
    [0.75, 0.125],                # descending, interior only
]


def generate(tier, rng):
    thorough = tier == "thorough"
    shapes = [(8, 6), (7, 5), (6, 8), (9, 6)]
    c = 0
    for wi, w in enumerate(WINDS):
        for ki, K in enumerate(KS):
            for gi, g in enumerate(("uniform", "geometric")):
                c += 1
                an = ANISO[(wi + ki + gi) % 2]
                nx, ny = shapes[c % len(shapes)]
                full = (nx, ny) if (nx % 2 == 0 and ny % 2 == 0) else (512, 512)
                modes = (4, 4) if (c % 5 == 0 and nx % 2 == 0 and ny % 2 == 0) else full
                X = (300.0, 1500.0, 700.0)[c % 3]
                # scalar level every 4th case, otherwise cycle through the request orders
                lv = LEVEL_ORDERS[c % len(LEVEL_ORDERS)] if c % 4 else 0.5
                yield "refine", dict(
                    wind=w, K=K, aniso=list(an), grid=g,
                    z0=0.5 if g == "uniform" else 0.1, zt=10.0, n=16,
                    factors=[4, 16],
                    nx=nx, ny=ny, X=X, Y=0.8 * X, modes=list(modes), level_fracs=lv,
                    seed=rng.randrange(10 ** 6))
                if thorough:
                    yield "refine", dict(
                        wind=w, K=K, aniso=list(ANISO[(wi + ki + gi + 1) % 2]), grid=g,
                        z0=0.5 if g == "uniform" else 0.1, zt=10.0, n=64, factors=[4, 16],
                        nx=ny, ny=nx, X=0.5 * X, Y=0.6 * X, modes=[512, 512],
                        level_fracs=LEVEL_ORDERS[(c + 3) % len(LEVEL_ORDERS)],
                        seed=rng.randrange(10 ** 6))
    # a deep column over a small, finely gridded box with output near the surface: components that have decayed to
    # nothing at the top node are of order one where the output is taken
    for k in range(2):
        yield "refine", dict(
            wind=WINDS[0], K=KS[0], aniso=list(ANISO[k]), grid="uniform", z0=0.5, zt=20.5, n=320, factors=[4],
            nx=8, ny=6, X=12.0, Y=9.0, modes=[8, 6], level_fracs=([0.0, 0.025, 0.1], [0.05, 0.0125, 0.0])[k],
            seed=rng.randrange(10 ** 6), deep=True)
    # closures of the real vertical_profiles
    clos = [("MOST", -50.0), ("MOST", 80.0), ("MOSTM", -30.0), ("MOSTM", 1e9),
            ("CONSTANT", 1e9), ("MOST", 1e9)]
    for i, (cl, mol) in enumerate(clos):
        yield "closure", dict(
            closure=cl, n=8 + 2 * (i % 3), zm=5.0, wind=[3.0, 1.0] if i % 2 else [-2.0, 2.5],
            ustar=0.4 if i % 2 else 0.3, mol=mol, stretch=None if i % 3 else 8.0,
            factors=[4, 16], nx=8, ny=6, X=(400.0, 1200.0)[i % 2],
            Y=(300.0, 1000.0)[i % 2], level_fracs=LEVEL_ORDERS[i % len(LEVEL_ORDERS)],
            seed=rng.randrange(10 ** 6))
    # seeded random members of the same families (thorough only)
    if thorough:
        for _ in range(120):
            wt = rng.choice(["log", "power"])
            if wt == "log":
                w = dict(type="log", ustar=rng.uniform(0.15, 0.6), z00=rng.uniform(0.005, 0.04),
                         dir=rng.uniform(0, 360))
            else:
                w = dict(type="power", uref=rng.uniform(1.5, 6.0), zref=5.0,
                         m=rng.uniform(0.1, 0.4), dir=rng.uniform(0, 360))
            if rng.random() < 0.3:
                w["veer"] = rng.uniform(-0.02, 0.02)
            kt = rng.choice(["linear", "power", "most"])
            if kt == "linear":
                K = dict(type="linear", a=rng.uniform(0.04, 0.25), b=rng.uniform(0.0, 0.3))
            elif kt == "power":
                K = dict(type="power", kref=rng.uniform(0.3, 1.5), zref=5.0,
                         m=rng.uniform(0.5, 1.2))
            else:
                L = rng.choice([-1, 1]) * rng.uniform(20.0, 300.0)
                K = dict(type="most", ustar=rng.uniform(0.15, 0.6), L=L)
            g = rng.choice(["uniform", "geometric"])
            nx, ny = rng.choice(shapes)
            X = rng.choice([300.0, 600.0, 1500.0, 3000.0])
            yield "refine", dict(
                wind=w, K=K, aniso=[rng.uniform(0.3, 3.0), rng.uniform(0.3, 3.0)], grid=g,
                z0=rng.uniform(0.3, 0.8) if g == "uniform" else rng.uniform(0.05, 0.3),
                zt=rng.uniform(6.0, 15.0), n=16, factors=[4, 16],
                nx=nx, ny=ny, X=X, Y=X * rng.uniform(0.6, 1.4), modes=[512, 512],
                level_fracs=rng.choice(LEVEL_ORDERS + [rng.sample(
                    [0.0, 0.125, 0.25, 0.5, 0.75, 1.0], rng.randint(2, 4))]),
                seed=rng.randrange(10 ** 6))


if __name__ == "__main__":
    S.main(generate)
