"""C15 bounded stand-in: the result cache is transparent, complete, effective, crash-safe.

Observation is through the public API only: a `GreensFunctionCache` subclass that records
every `get` (hit / miss / exception) and `put` and forwards all arguments unchanged (so it
works for any signature of get/put), real solver calls with `cache=...`, and the files in
the cache directory.

kinds
  pair              request A, then request B against the same cache directory, A and B
                    differing in exactly ONE solver argument (every parameter of the signature
                    is enumerated, both orders).  A-with-cache must equal A-without-cache,
                    B-with-cache must equal B-without-cache.  Optionally A is solved by an
                    earlier interpreter (persistent directory).
  repeat-hit        the identical request twice (same object / new object on the directory /
                    earlier interpreter): the second call is a hit, stores nothing, does not
                    enter the IVP solver, and returns the cache-free result.
  driver-pair       the same staleness history through the drivers: run_bldfm_timeseries with
                    use_cache for configuration X, then for configuration Y (differing in one
                    option) in the same working directory; Y must equal its cache-free singles.
  series-repeat-hit run_bldfm_timeseries with use_cache and a repeated met condition: results
                    equal the cache-free singles and the repeated step is a hit.
  truncate          a stored entry cut at byte offset k (what an interrupted run leaves): the
                    next solver call must not raise, must return the right fields (a hit only
                    with the original arrays), and must leave a usable entry behind.
  npload-contract   conformance of the library assumption used by the repair: np.load + member
                    access on the truncated file either returns the original arrays or raises
                    one of OSError, ValueError, EOFError, zipfile.BadZipFile, KeyError.

Equality is exact (np.array_equal) whenever everything was computed in this process; when an
entry written by another interpreter may legitimately be served, 1e-12 of the field maximum
(C12's cross-process clause).  A stale entry differs by 1e-2 .. 1.
"""
import json
import os
import shutil
import subprocess
import sys
import tempfile
import zipfile

sys.path.insert(0, os.path.dirname(os.path.abspath(__file__)))
from _common import Suite, Verdict, default_profiles, relerr  # noqa: E402

import numpy as np  # noqa: E402

S = Suite(
    "C15",
    what="ordered pairs of footprint requests differing in one solver argument against one "
         "cache directory (in-process and across interpreters), repeated requests counted by a "
         "recording cache subclass, the same histories through the timeseries driver, and "
         "every truncation point of a stored entry",
    bound="16x12 base request (nz=6, modes (16,16)); 30 one-argument changes (levels: value, "
          "scalar/list, order, multiplicity) x both orders x "
          "default/explicit halo base; quick: 6 cross-interpreter pairs, 46 truncation offsets of a 2-D and a 3-D entry; "
          "thorough: all pairs also across interpreters, every byte offset of both entries",
    rule="np.array_equal in-process, 1e-12 of the maximum when another interpreter's entry "
         "may be served; hit/miss/put counts from the subclass; no exception from the solver "
         "call on a truncated entry",
)

TOL_XPROC = 1e-12
# the np.load contract: a damaged entry raises SOME exception (truncations: OSError / ValueError / EOFError / BadZipFile /
# KeyError; a damaged archive directory: NotImplementedError, RuntimeError) -- never returns other data silently
_NPLOAD_OK = (OSError, ValueError, EOFError, zipfile.BadZipFile, KeyError, NotImplementedError, RuntimeError)

# ------------------------------------------------------------------------------- requests
BASE = dict(nx=16, ny=12, flux_seed=1, nz=6, zm=5.0, closure="MOST", zscale=1.0,
            pscale=[1.0, 1.0, 1.0, 1.0, 1.0], domain=[160.0, 90.0], levels=3, modes=[16, 16],
            meas_pt=[55.0, 30.0], srf_bg_conc=0.0, footprint=True, analytic=False, halo=None,
            precision="single")

# parameter of the solver signature -> list of (override of A, override of B)
CHANGES = [
    ("srf_flx.values", {}, {"flux_seed": 2}),
    ("srf_flx.shape", {}, {"nx": 20}),
    ("srf_flx.shape", {}, {"ny": 16}),
    ("z", {}, {"zscale": 1.1}),
    ("profiles.u", {}, {"pscale": [1.3, 1.0, 1.0, 1.0, 1.0]}),
    ("profiles.v", {}, {"pscale": [1.0, 0.4, 1.0, 1.0, 1.0]}),
    ("profiles.Kx", {}, {"pscale": [1.0, 1.0, 1.6, 1.0, 1.0]}),
    ("profiles.Ky", {}, {"pscale": [1.0, 1.0, 1.0, 0.6, 1.0]}),
    ("profiles.Kz", {}, {"pscale": [1.0, 1.0, 1.0, 1.0, 1.4]}),
    ("domain", {}, {"domain": [160.0, 120.0]}),
    ("levels", {}, {"levels": 5}),
    ("levels", {"levels": 3}, {"levels": 8}),
    ("levels", {}, {"levels": [2, 5]}),
    ("levels", {"levels": [2, 5]}, {"levels": [3, 5]}),
    # the request is an ORDERED selection: slice k belongs to levels[k], so requests that differ
    # only in the order or the multiplicity of the levels have different results (C10)
    ("levels-order", {"levels": [2, 8]}, {"levels": [8, 2]}),
    ("levels-order", {"levels": [2, 5, 3]}, {"levels": [3, 2, 5]}),
    ("levels-multiplicity", {"levels": [3]}, {"levels": [3, 3]}),
    ("levels-multiplicity", {"levels": 3}, {"levels": [3, 3]}),
    ("levels-multiplicity", {"levels": [2, 5]}, {"levels": [2, 2, 5]}),
    ("levels-multiplicity", {"levels": [5, 2]}, {"levels": [2, 5, 2]}),
    ("modes", {}, {"modes": [24, 16]}),
    ("meas_pt", {}, {"meas_pt": [80.0, 45.0]}),
    ("srf_bg_conc", {}, {"srf_bg_conc": 2.5}),
    ("analytic", {"closure": "CONSTANT"}, {"closure": "CONSTANT", "analytic": True}),
    ("halo", {}, {"halo": 40.0}),                 # default against explicit
    ("halo", {}, {"halo": 160.0}),                # default against its own resolved value
    ("halo", {"halo": 40.0}, {"halo": 80.0}),
    ("precision", {}, {"precision": "double"}),
    ("precision", {"halo": 40.0}, {"halo": 40.0, "precision": "double"}),
    ("footprint", {}, {"footprint": False}),      # a dispersion solve must not see the entry
]


def _req(**over):
    r = json.loads(json.dumps(BASE))
    r.update(over)
    return r


def build(req):
    """Solver keyword arguments (without cache) of a request record."""
    rng = np.random.default_rng(req["flux_seed"])
    q0 = rng.random((req["ny"], req["nx"]))
    z, prof = default_profiles(n=req["nz"], zm=req["zm"], wind=(3.0, 1.0), ustar=0.4, mol=-50.0,
                               closure=req["closure"])
    z = z * req["zscale"]
    prof = tuple(np.array(p, dtype=float) * s for p, s in zip(prof, req["pscale"]))
    lv = req["levels"]
    return dict(srf_flx=q0, z=z, profiles=prof, domain=tuple(req["domain"]),
                levels=list(lv) if isinstance(lv, list) else lv, modes=tuple(req["modes"]),
                meas_pt=tuple(req["meas_pt"]), srf_bg_conc=req["srf_bg_conc"],
                footprint=req["footprint"], analytic=req["analytic"], halo=req["halo"],
                precision=req["precision"])


def solve(req, cache=None):
    import bldfm.config as cfg
    from bldfm.solver import steady_state_transport_solver
    cfg.NUM_THREADS = 1
    grid, conc, flx = steady_state_transport_solver(cache=cache, **build(req))
    return [np.asarray(grid[0]), np.asarray(grid[1]), np.asarray(grid[2]),
            np.asarray(conc), np.asarray(flx)]


_NAMES = ("X", "Y", "Z", "conc", "flx")


def differs(got, want, tol=0.0):
    """Names of the fields of `got` that are not those of `want`."""
    bad = []
    for nm, a, b in zip(_NAMES, got, want):
        if a.shape != b.shape:
            bad.append("%s shape %s vs %s" % (nm, a.shape, b.shape))
        elif tol == 0.0:
            if not np.array_equal(a, b, equal_nan=True):
                bad.append("%s rel %.3g" % (nm, relerr(a, b)))
        elif not relerr(a, b) <= tol:
            bad.append("%s rel %.3g" % (nm, relerr(a, b)))
    return bad


def _nontrivial(r):
    return bool(all(np.all(np.isfinite(a)) for a in r) and np.max(np.abs(r[4])) > 0
                and np.max(np.abs(r[3])) > 0)


# ------------------------------------------------------------------------- recording cache
_REC = {}


def rec_class():
    """GreensFunctionCache subclass recording hits, misses, puts and exceptions of get."""
    import bldfm.cache as bc
    base = _REC.get("base") or bc.GreensFunctionCache
    if "cls" not in _REC:
        class RecordingCache(base):
            instances = []

            def __init__(self, *a, **k):
                super().__init__(*a, **k)
                self.hits = self.misses = self.puts = 0
                self.raised = []
                type(self).instances.append(self)

            def get(self, *a, **k):
                try:
                    r = super().get(*a, **k)
                except Exception as e:
                    self.raised.append(type(e).__name__)
                    raise
                if r is None:
                    self.misses += 1
                else:
                    self.hits += 1
                return r

            def put(self, *a, **k):
                self.puts += 1
                return super().put(*a, **k)

        _REC["base"] = base
        _REC["cls"] = RecordingCache
    return _REC["cls"]


class _CountIVP:
    """Count entries into the IVP kernel (supplementary evidence for 'without solving')."""

    def __enter__(self):
        import bldfm.solver as bs
        self.bs = bs
        self.calls = 0
        self.orig = getattr(bs, "ivp_solver", None)
        if self.orig is not None:
            def counted(*a, **k):
                self.calls += 1
                return self.orig(*a, **k)
            bs.ivp_solver = counted
        return self

    def __exit__(self, *exc):
        if self.orig is not None:
            self.bs.ivp_solver = self.orig
        return False


def _tmpdir():
    return tempfile.mkdtemp(dir=os.getcwd())


_CHILD_ENTRIES = {}


def solve_in_child(req, cache_dir):
    """Solve `req` with a plain GreensFunctionCache(cache_dir) in a fresh interpreter.
    What that interpreter leaves in an empty directory is a function of `req` alone, so the
    files are kept and copied when the same request is needed again (a fresh interpreter costs
    ~2 s; the base requests recur in dozens of pairs)."""
    sig = json.dumps(req, sort_keys=True)
    if sig in _CHILD_ENTRIES and not os.listdir(cache_dir):
        for name, raw in _CHILD_ENTRIES[sig].items():
            with open(os.path.join(cache_dir, name), "wb") as f:
                f.write(raw)
        return
    empty = not os.listdir(cache_dir)
    _solve_in_child(req, cache_dir)
    if empty:
        files = {}
        for name in os.listdir(cache_dir):
            path = os.path.join(cache_dir, name)
            if os.path.isfile(path):
                with open(path, "rb") as f:
                    files[name] = f.read()
        _CHILD_ENTRIES[sig] = files


def _solve_in_child(req, cache_dir):
    d = _tmpdir()
    try:
        p = subprocess.run([sys.executable, os.path.abspath(__file__), "--child",
                            json.dumps({"req": req, "cache_dir": cache_dir})],
                           cwd=d, stdout=subprocess.DEVNULL, stderr=subprocess.PIPE)
        if p.returncode != 0:
            raise RuntimeError("child interpreter failed: " + p.stderr.decode(errors="replace")[-800:])
    finally:
        shutil.rmtree(d, ignore_errors=True)


def _child_main(argv):
    import logging
    logging.disable(logging.CRITICAL)
    spec = json.loads(argv[2])
    from bldfm.cache import GreensFunctionCache
    solve(spec["req"], GreensFunctionCache(spec["cache_dir"]))
    _quiet_exit()


# ------------------------------------------------------------------------------------ kinds
@S.kind("pair")
def pair(param, a, b, cross_process=False):
    Rec = rec_class()
    d = _tmpdir()
    try:
        want_a = solve(a)
        want_b = solve(b)
        tol = TOL_XPROC if cross_process else 0.0
        if cross_process:
            solve_in_child(a, d)
        else:
            ca = Rec(d)
            got_a = solve(a, ca)
            bad = differs(got_a, want_a)
            if bad:
                return Verdict(False, "first request (empty cache) differs from the cache-free "
                               "solve: %s" % bad, key="cache-changes-first-result")
        cb = Rec(d)
        try:
            got_b = solve(b, cb)
        except Exception as e:
            return Verdict(False, "request B raised %s: %s after A was stored (%s changed)"
                           % (type(e).__name__, e, param), key="cached-solve-raises")
        bad = differs(got_b, want_b, tol)
        files = len([f for f in os.listdir(d) if f.endswith(".npz")])
    finally:
        shutil.rmtree(d, ignore_errors=True)
    same = not differs(want_a, want_b)
    if bad:
        stale = not differs(got_b, want_a, tol)
        return Verdict(False, "A then B differing only in %s (%s -> %s): B with the cache %s: %s; "
                       "hits=%d misses=%d" % (param, _delta(a, b)[0], _delta(a, b)[1],
                                              "returns A's stored result" if stale
                                              else "differs from the cache-free B", bad,
                                              cb.hits, cb.misses),
                       key="key-omits-" + param)
    return Verdict(True, "%s %s -> %s: transparent (B: hits=%d misses=%d, %d entries%s)"
                   % (param, _delta(a, b)[0], _delta(a, b)[1], cb.hits, cb.misses, files,
                      ", results coincide" if same else ""),
                   nontrivial=_nontrivial(want_a) and _nontrivial(want_b))


def _delta(a, b):
    ks = [k for k in a if a[k] != b[k]]
    return ({k: a[k] for k in ks}, {k: b[k] for k in ks})


@S.kind("repeat-hit")
def repeat_hit(req, mode):
    """mode: same-object | new-object | cross-process"""
    Rec = rec_class()
    d = _tmpdir()
    try:
        want = solve(req)
        if mode == "cross-process":
            solve_in_child(req, d)
            c1 = None
        else:
            c1 = Rec(d)
            first = solve(req, c1)
            bad = differs(first, want)
            if bad:
                return Verdict(False, "first request differs from the cache-free solve: %s" % bad,
                               key="cache-changes-first-result")
            if c1.puts < 1 or not any(f.endswith(".npz") for f in os.listdir(d)):
                return Verdict(False, "a footprint solve with a cache stored nothing "
                               "(puts=%d)" % c1.puts, key="nothing-stored")
        c2 = c1 if mode == "same-object" else Rec(d)
        h0, m0, p0 = c2.hits, c2.misses, c2.puts
        with _CountIVP() as ivp:
            got = solve(req, c2)
        hits, misses, puts = c2.hits - h0, c2.misses - m0, c2.puts - p0
    finally:
        shutil.rmtree(d, ignore_errors=True)
    bad = differs(got, want, TOL_XPROC if mode == "cross-process" else 0.0)
    if bad:
        return Verdict(False, "repeated request returns different fields: %s" % bad,
                       key="repeat-returns-wrong-data")
    if hits < 1 or misses or puts or ivp.calls:
        return Verdict(False, "identical request repeated (%s, halo=%r): hits=%d misses=%d puts=%d "
                       "ivp_solver calls=%d - not served from the cache"
                       % (mode, req["halo"], hits, misses, puts, ivp.calls),
                       key="hit-but-solved-again" if hits >= 1 else
                       "default-halo-never-hits" if req["halo"] is None else "repeat-never-hits")
    return Verdict(True, "repeat (%s, halo=%r): hit, nothing stored, no IVP solve"
                   % (mode, req["halo"]), nontrivial=_nontrivial(want))


@S.kind("mutate-then-repeat")
def mutate_then_repeat(req, mode):
    """History: solve with a cache, the caller modifies the returned arrays in place (scales the
    footprint, zeroes the concentration), then repeats the identical request (same cache object or a
    new object on the same directory): it must again get what a cache-free solve returns."""
    Rec = rec_class()
    d = _tmpdir()
    try:
        want = solve(req)
        c1 = Rec(d)
        first = solve(req, c1)
        for a in first:
            if a.flags.writeable:
                a *= 3.0
                a += 1.0
        second = solve(req, c1)              # served from whatever the cache keeps for this key
        for a in second:
            if a.flags.writeable:
                a[...] = -7.0
        c2 = c1 if mode == "same-object" else Rec(d)
        got = solve(req, c2)
    finally:
        shutil.rmtree(d, ignore_errors=True)
    bad = differs(got, want)
    if bad:
        return Verdict(False, "after the caller modified earlier results in place, the repeated request (%s) returns %s" % (mode, bad),
                       key="cache-hands-out-shared-arrays")
    return Verdict(True, "repeat after in-place modification of earlier results (%s): unchanged" % mode, nontrivial=_nontrivial(want))


# ----- the same histories through the drivers
def _driver_config(over):
    dom = dict(nx=16, ny=12, xmax=160.0, ymax=90.0, nz=6, modes=[16, 16],
               ref_lat=50.95, ref_lon=11.586)
    sol = dict(closure="MOST", footprint=True)
    met = dict(ustar=[0.4, 0.3, 0.4], mol=[-50.0, -120.0, -50.0], wind_speed=[3.0, 4.0, 3.0],
               wind_dir=[250.0, 270.0, 250.0])
    for k, v in over.items():
        sec, key = k.split(".")
        {"domain": dom, "solver": sol, "met": met}[sec][key] = v
    return dict(domain=dom, towers=[dict(name="T", lat=50.9504, lon=11.5866, z_m=5.0)],
                met=met, solver=sol, parallel=dict(use_cache=True))


def _res(r):
    return [np.asarray(r["grid"][0]), np.asarray(r["grid"][1]), np.asarray(r["grid"][2]),
            np.asarray(r["conc"]), np.asarray(r["flx"])]


class _PatchedCacheClass:
    """Make the drivers' _make_cache build the recording subclass (module attribute)."""

    def __enter__(self):
        import bldfm.cache as bc
        self.bc = bc
        Rec = rec_class()
        Rec.instances.clear()
        self.orig = bc.GreensFunctionCache
        bc.GreensFunctionCache = Rec
        return Rec

    def __exit__(self, *exc):
        self.bc.GreensFunctionCache = self.orig
        return False


def _clear_default_cache():
    shutil.rmtree(os.path.join(os.getcwd(), ".bldfm_cache"), ignore_errors=True)


@S.kind("driver-pair")
def driver_pair(param, x, y):
    import bldfm.config as cfg
    from bldfm.config_parser import parse_config_dict
    from bldfm.interface import run_bldfm_single, run_bldfm_timeseries
    cfg.NUM_THREADS = 1
    cx = parse_config_dict(_driver_config(x))
    cy = parse_config_dict(_driver_config(y))
    want = [_res(run_bldfm_single(cy, cy.towers[0], i)) for i in range(3)]
    _clear_default_cache()
    try:
        run_bldfm_timeseries(cx, cx.towers[0])
        try:
            got = [_res(r) for r in run_bldfm_timeseries(cy, cy.towers[0])]
        except Exception as e:
            return Verdict(False, "second series raised %s: %s" % (type(e).__name__, e),
                           key="cached-solve-raises")
    finally:
        _clear_default_cache()
    bad = ["step %d: %s" % (i, differs(g, w)) for i, (g, w) in enumerate(zip(got, want))
           if differs(g, w)]
    if bad:
        return Verdict(False, "series with %s, then series with %s in the same directory "
                       "(use_cache): second series differs from its cache-free singles: %s"
                       % (x or "defaults", y, "; ".join(bad)[:300]), key="key-omits-" + param)
    return Verdict(True, "driver pair %s -> %s transparent" % (x or "defaults", y),
                   nontrivial=all(_nontrivial(w) for w in want))


@S.kind("series-repeat-hit")
def series_repeat_hit(halo):
    import bldfm.config as cfg
    from bldfm.config_parser import parse_config_dict
    from bldfm.interface import run_bldfm_single, run_bldfm_timeseries
    cfg.NUM_THREADS = 1
    config = parse_config_dict(_driver_config({} if halo is None else {"domain.halo": halo}))
    want = [_res(run_bldfm_single(config, config.towers[0], i)) for i in range(3)]
    _clear_default_cache()
    try:
        with _PatchedCacheClass() as Rec:
            got = [_res(r) for r in run_bldfm_timeseries(config, config.towers[0])]
            made = list(Rec.instances)
    finally:
        _clear_default_cache()
    bad = ["step %d: %s" % (i, differs(g, w)) for i, (g, w) in enumerate(zip(got, want))
           if differs(g, w)]
    if bad:
        return Verdict(False, "cached series differs from the cache-free singles: %s"
                       % "; ".join(bad)[:300], key="cache-changes-series-result")
    if not made:
        return Verdict(False, "use_cache with footprint created no cache", key="no-cache-created")
    hits = sum(c.hits for c in made)
    puts = sum(c.puts for c in made)
    if hits < 1 or puts > 2:
        return Verdict(False, "series of 3 steps with step 2 == step 0 (halo=%r): hits=%d puts=%d "
                       "- the repeated condition was solved again" % (halo, hits, puts),
                       key="default-halo-never-hits" if halo is None else "repeat-never-hits")
    return Verdict(True, "series (halo=%r): hits=%d puts=%d" % (halo, hits, puts),
                   nontrivial=all(_nontrivial(w) for w in want))


# ----- crash safety
_VARIANTS = {
    # explicit halo: the default-halo defect (lookup under another key) is a different witness
    "2d": dict(nx=8, ny=6, modes=[8, 8], halo=40.0, levels=3),
    "3d": dict(nx=8, ny=6, modes=[8, 8], halo=40.0, levels=[2, 5], precision="double"),
}
_ENTRY = {}


def entry(variant):
    """(bytes of the stored entry, its file name, cache-free result) - pure in `variant`."""
    if variant not in _ENTRY:
        req = _req(**_VARIANTS[variant])
        want = solve(req)
        d = _tmpdir()
        try:
            solve(req, rec_class()(d))
            files = [f for f in os.listdir(d) if f.endswith(".npz")]
            if len(files) != 1:
                raise RuntimeError("expected one cache entry, found %s" % files)
            with open(os.path.join(d, files[0]), "rb") as f:
                raw = f.read()
        finally:
            shutil.rmtree(d, ignore_errors=True)
        _ENTRY[variant] = (raw, files[0], want, req)
    return _ENTRY[variant]


def _damage(raw, k, how):
    """What an interrupted or disturbed write leaves behind: the file cut at byte k; a block of zeros where the pages
    after byte k never reached the disk (length kept, tail intact); one byte flipped at k."""
    if how == "cut":
        return raw[:k]
    if how == "zero-block":
        n = max(1, len(raw) // 8)
        return raw[:k] + bytes(min(n, len(raw) - k)) + raw[k + n:]
    if how == "flip":
        if k >= len(raw):
            return raw
        return raw[:k] + bytes([raw[k] ^ 0xFF]) + raw[k + 1:]
    raise ValueError(how)


@S.kind("truncate")
def truncate(variant, offset, damage="cut"):
    raw, fname, want, req = entry(variant)
    k = min(int(offset), len(raw))
    if damage != "cut":
        return _damaged(variant, k, damage)
    Rec = rec_class()
    d = _tmpdir()
    try:
        with open(os.path.join(d, fname), "wb") as f:
            f.write(raw[:k])
        c = Rec(d)
        try:
            got = solve(req, c)
        except Exception as e:
            return Verdict(False, "entry of %d bytes cut at %d: solver call raised %s (%s)"
                           % (len(raw), k, type(e).__name__, str(e)[:80]),
                           key="truncated-entry-raises")
        bad = differs(got, want)
        if bad:
            return Verdict(False, "entry cut at %d/%d: %s, fields differ: %s"
                           % (k, len(raw), "served as a hit" if c.hits else "after the miss", bad),
                           key="truncated-entry-wrong-data" if c.hits else
                           "wrong-result-after-corrupt-miss")
        c3 = Rec(d)
        try:
            again = solve(req, c3)
        except Exception as e:
            return Verdict(False, "entry cut at %d/%d: the call after the corrupt miss raised %s"
                           % (k, len(raw), type(e).__name__), key="corrupt-entry-not-replaced")
        if differs(again, want) or c3.hits < 1:
            return Verdict(False, "entry cut at %d/%d: after the corrupt miss the next identical "
                           "request: hits=%d, differs=%s" % (k, len(raw), c3.hits, differs(again, want)),
                           key="corrupt-entry-not-replaced")
    finally:
        shutil.rmtree(d, ignore_errors=True)
    return Verdict(True, "cut at %d/%d: %s, right fields, entry usable afterwards"
                   % (k, len(raw), "hit with the original arrays" if c.hits else "miss"),
                   nontrivial=_nontrivial(want) and (k < len(raw) or c.hits > 0))


def _damaged(variant, k, damage):
    """An entry damaged in its interior (length and tail intact): the request must not raise and must return the right
    fields -- either the damage is detected (a miss, solved again) or the damaged bytes were padding."""
    raw, fname, want, req = entry(variant)
    bad_bytes = _damage(raw, k, damage)
    Rec = rec_class()
    d = _tmpdir()
    try:
        with open(os.path.join(d, fname), "wb") as f:
            f.write(bad_bytes)
        c = Rec(d)
        try:
            got = solve(req, c)
        except Exception as e:
            return Verdict(False, "entry of %d bytes, %s at %d: solver call raised %s (%s)"
                           % (len(raw), damage, k, type(e).__name__, str(e)[:80]), key="damaged-entry-raises")
        bad = differs(got, want)
        if bad:
            return Verdict(False, "entry %s at %d/%d: %s, fields differ: %s" % (damage, k, len(raw), "served as a hit" if c.hits else "after the miss", bad),
                           key="damaged-entry-wrong-data" if c.hits else "wrong-result-after-corrupt-miss")
    finally:
        shutil.rmtree(d, ignore_errors=True)
    return Verdict(True, "%s at %d/%d: %s, right fields" % (damage, k, len(raw), "hit" if c.hits else "miss"),
                   nontrivial=_nontrivial(want) and bad_bytes != raw)


@S.kind("damage-any-file")
def damage_any_file(variant, which, frac, damage):
    """Whatever files the cache keeps in its directory (entries, and any book-keeping a cache may write next to them): one
    of them, picked by position, is left damaged by an interrupted run; a new process then makes the stored request, a
    different request, and both again.  Nothing may raise and every answer must be the cache-free result."""
    _, _, want, req = entry(variant)
    other = dict(req, meas_pt=[req["meas_pt"][0] + 10.0, req["meas_pt"][1]])
    want_other = solve(other)
    Rec = rec_class()
    d = _tmpdir()
    try:
        solve(req, rec_class()(d))
        files = sorted(os.path.relpath(os.path.join(r, f), d) for r, _, fs in os.walk(d) for f in fs)
        if not files:
            return Verdict(False, "the cache wrote no file", key="cache-wrote-nothing")
        name = files[which % len(files)]
        with open(os.path.join(d, name), "rb") as f:
            raw = f.read()
        k = min(int(frac * len(raw)), max(len(raw) - 1, 0))
        with open(os.path.join(d, name), "wb") as f:
            f.write(_damage(raw, k, damage))
        c = Rec(d)
        for step, (r_, w_) in enumerate(((req, want), (other, want_other), (req, want), (other, want_other))):
            try:
                got = solve(r_, c)
            except Exception as e:
                return Verdict(False, "file %s of the cache directory (%d bytes) %s at %d: request %d afterwards raised %s (%s)"
                               % (name if not name.endswith(".npz") else "<entry>.npz", len(raw), damage, k, step, type(e).__name__, str(e)[:80]),
                               key="damaged-cache-file-is-fatal")
            bad = differs(got, w_)
            if bad:
                return Verdict(False, "file %s %s at %d/%d: request %d afterwards returned wrong fields: %s" % (name, damage, k, len(raw), step, bad),
                               key="damaged-cache-file-wrong-data")
    finally:
        shutil.rmtree(d, ignore_errors=True)
    return Verdict(True, "%d file(s); #%d %s at %d/%d; four requests served correctly" % (len(files), which % len(files), damage, k, len(raw)),
                   nontrivial=_nontrivial(want))


@S.kind("npload-contract")
def npload_contract(variant, offset, damage="cut"):
    raw, fname, want, req = entry(variant)
    k = min(int(offset), len(raw))
    d = _tmpdir()
    try:
        path = os.path.join(d, fname)
        with open(path, "wb") as f:
            f.write(_damage(raw, k, damage))
        try:
            with np.load(path) as data:
                got = [data[n] for n in _NAMES]
        except _NPLOAD_OK as e:
            return Verdict(True, "cut at %d/%d: %s" % (k, len(raw), type(e).__name__))
        except Exception as e:
            return Verdict(False, "cut at %d/%d: np.load raised %s outside the assumed set"
                           % (k, len(raw), type(e).__name__), key="npload-unlisted-exception")
    finally:
        shutil.rmtree(d, ignore_errors=True)
    bad = differs(got, want)
    return Verdict(not bad, "cut at %d/%d: loaded %s" % (k, len(raw), bad or "the original arrays"),
                   key="npload-returns-wrong-data")


# -------------------------------------------------------------------------------- generator
_DRIVER_PAIRS = [
    ("levels", {}, {"domain.output_levels": [3]}),
    ("levels", {"domain.output_levels": [2, 5]}, {"domain.output_levels": [3, 6]}),
    ("levels-order", {"domain.output_levels": [2, 5]}, {"domain.output_levels": [5, 2]}),
    ("levels-multiplicity", {"domain.output_levels": [3]}, {"domain.output_levels": [3, 3]}),
    ("srf_flx.shape", {}, {"domain.nx": 20}),
    ("analytic", {"solver.closure": "CONSTANT"},
     {"solver.closure": "CONSTANT", "solver.analytic": True}),
    ("halo", {}, {"domain.halo": 40.0}),
    ("precision", {}, {"solver.precision": "double"}),
]


def _offsets(n, tier):
    if tier == "thorough":
        return list(range(n + 1))
    return sorted(set([0, 1, n - 1, n] + [round(i * n / 41) for i in range(1, 41)]))


def generate(tier, rng):
    thorough = tier == "thorough"
    xproc_quick = {"levels", "levels-order", "srf_flx.shape", "analytic", "srf_bg_conc", "halo",
                   "meas_pt"}
    seen = set()
    for param, oa, ob in CHANGES:
        # every change on a default-halo base and on an explicit-halo base (with the default
        # halo the lookup/store disagreement of the unchanged tree hides every stale entry)
        bases = [{}] if ("halo" in oa or "halo" in ob) else [{"halo": 40.0}, {}]
        for base in bases:
            a, b = _req(**dict(base, **oa)), _req(**dict(base, **ob))
            yield "pair", dict(param=param, a=a, b=b, cross_process=False)
            yield "pair", dict(param=param, a=b, b=a, cross_process=False)
            # (the order / multiplicity variants go through another interpreter on the
            # explicit-halo base only: a child interpreter costs ~2 s)
            if (thorough and (base or not param.startswith("levels-"))) or (
                    (param, str(base)) not in seen and param in xproc_quick and base):
                yield "pair", dict(param=param, a=a, b=b, cross_process=True)
                if thorough and not param.startswith("levels-"):
                    yield "pair", dict(param=param, a=b, b=a, cross_process=True)
            seen.add((param, str(base)))
    reqs = [_req(), _req(halo=40.0), _req(halo=160.0), _req(levels=[2, 5], precision="double"),
            _req(nx=20, ny=16, halo=None, srf_bg_conc=1.0),
            _req(closure="CONSTANT", analytic=True, halo=55.0)]
    for r in reqs:
        for mode in ("same-object", "new-object"):
            yield "repeat-hit", dict(req=r, mode=mode)
    for r in (reqs if thorough else reqs[:3]):
        for mode in ("same-object", "new-object"):
            yield "mutate-then-repeat", dict(req=r, mode=mode)
    for r in (reqs if thorough else reqs[:2]):
        yield "repeat-hit", dict(req=r, mode="cross-process")
    for param, x, y in _DRIVER_PAIRS:
        bases = [{}] if param == "halo" else [{"domain.halo": 40.0}, {}]
        for base in bases:
            yield "driver-pair", dict(param=param, x=dict(base, **x), y=dict(base, **y))
            yield "driver-pair", dict(param=param, x=dict(base, **y), y=dict(base, **x))
    for halo in (None, 40.0, 160.0):
        yield "series-repeat-hit", dict(halo=halo)
    for variant in ("2d", "3d"):
        n = len(entry(variant)[0])
        for k in _offsets(n, tier):
            yield "truncate", dict(variant=variant, offset=k)
        for k in _offsets(n, tier):
            yield "npload-contract", dict(variant=variant, offset=k)
        # damage that keeps length and tail (zero-filled block, one flipped byte) at a coarser set of positions
        for damage in ("zero-block", "flip"):
            for k in _offsets(n, tier)[1:-1:(1 if tier == "thorough" else 4)]:
                yield "truncate", dict(variant=variant, offset=k, damage=damage)
                yield "npload-contract", dict(variant=variant, offset=k, damage=damage)
    # every file the cache keeps in its directory, damaged one at a time
    for which in range(3):
        for frac in (0.0, 0.02, 0.34, 0.67, 0.999):
            for damage in ("cut", "zero-block", "flip"):
                if which == 0 or tier == "thorough" or damage == "cut":
                    yield "damage-any-file", dict(variant=("2d", "3d")[which % 2], which=which, frac=frac, damage=damage)


def _quiet_exit():
    # one harmless "can't create new thread at interpreter shutdown" traceback per FFTManager
    # instance under Python 3.12 (atexit hook of the package); not this property's subject
    try:
        sys.stdout.flush()
        sys.stderr.flush()
        os.dup2(os.open(os.devnull, os.O_WRONLY), 2)
    except Exception:
        pass


if __name__ == "__main__":
    if len(sys.argv) > 1 and sys.argv[1] == "--child":
        _child_main(sys.argv)
    else:
        try:
            S.main(generate)
        except SystemExit:
            _quiet_exit()
            raise
