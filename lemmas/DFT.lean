import Mathlib
open Finset

/-!
# The DFT contract of `bldfm.fft_manager.fft2 / ifft2` and its textbook consequences D1-D5

DESIGN 3.2: for an array of trailing shape `(ny, nx)`
  `fft2(A, "forward")[j,i]  = (1/(ny nx)) Σ_{y,x} A[y,x] ω_y^{-jy} ω_x^{-ix}`,
  `fft2(A, "backward")[j,i] =               Σ_{y,x} A[y,x] ω_y^{-jy} ω_x^{-ix}`,
  `ifft2(F, "forward")[y,x] =               Σ_{j,i} F[j,i] ω_y^{+jy} ω_x^{+ix}`,   `ω_n = exp(2πi/n)`.
Indices are taken in `ZMod ny × ZMod nx` (bin `j` and bin `j + ny` are the same bin).  The verifier treats the
transforms as opaque functions with exactly this contract (conformance against the installed library is
bounded/dft_conformance.py); the lemmas below are what the contracts of C02-C07 use of it.
-/

noncomputable section

variable {ny nx : ℕ} [NeZero ny] [NeZero nx]

/-- `ω_y^{j y} · ω_x^{i x}` for the bin `κ = (j,i)` and the cell `r = (y,x)` -/
def chi (κ r : ZMod ny × ZMod nx) : ℂ :=
  ZMod.stdAddChar (κ.1 * r.1) * ZMod.stdAddChar (κ.2 * r.2)

/-- `ω_n^{k}` really is `exp(2πi k / n)` -/
theorem omega_formula (n : ℕ) [NeZero n] (k : ℤ) :
    (ZMod.stdAddChar (N := n) (k : ZMod n) : ℂ) = Complex.exp (2 * Real.pi * Complex.I * k / n) := by
  rw [ZMod.stdAddChar_coe]

def cells (ny nx : ℕ) : ℂ := ((ny * nx : ℕ) : ℂ)

/-- `fft2(A, norm="forward")` -/
def fftFwd (A : ZMod ny × ZMod nx → ℂ) (κ : ZMod ny × ZMod nx) : ℂ :=
  (1 / cells ny nx) * ∑ r, A r * chi κ (-r)
/-- `fft2(A, norm="backward")` -/
def fftBwd (A : ZMod ny × ZMod nx → ℂ) (κ : ZMod ny × ZMod nx) : ℂ := ∑ r, A r * chi κ (-r)
/-- `ifft2(F, norm="forward")` -/
def ifftFwd (F : ZMod ny × ZMod nx → ℂ) (r : ZMod ny × ZMod nx) : ℂ := ∑ κ, F κ * chi κ r

theorem chi_add (κ r s : ZMod ny × ZMod nx) : chi κ (r + s) = chi κ r * chi κ s := by
  simp only [chi, Prod.fst_add, Prod.snd_add, mul_add, AddChar.map_add_eq_mul]; ring

theorem chi_symm (κ r : ZMod ny × ZMod nx) : chi κ r = chi r κ := by
  simp only [chi, mul_comm]

theorem chi_zero_right (κ : ZMod ny × ZMod nx) : chi κ 0 = 1 := by simp [chi]
theorem chi_zero_left (r : ZMod ny × ZMod nx) : chi (0 : ZMod ny × ZMod nx) r = 1 := by simp [chi]

theorem chi_neg_left (κ r : ZMod ny × ZMod nx) : chi (-κ) r = chi κ (-r) := by simp [chi]

theorem chi_sub (κ r s : ZMod ny × ZMod nx) : chi κ (r - s) = chi κ r * chi κ (-s) := by
  rw [sub_eq_add_neg, chi_add]

/-- orthogonality: the sum of a non-trivial character over the grid vanishes -/
theorem sum_chi (κ : ZMod ny × ZMod nx) :
    ∑ r, chi κ r = if κ = 0 then cells ny nx else 0 := by
  have h1 : ∀ (n : ℕ) [NeZero n] (b : ZMod n),
      ∑ x : ZMod n, (ZMod.stdAddChar (N := n) (b * x) : ℂ) = if b = 0 then (n : ℂ) else 0 := by
    intro n _ b
    have := AddChar.sum_mulShift (ψ := ZMod.stdAddChar (N := n)) b (ZMod.isPrimitive_stdAddChar n)
    simp only [ZMod.card] at this
    calc ∑ x : ZMod n, (ZMod.stdAddChar (N := n) (b * x) : ℂ)
        = ∑ x : ZMod n, (ZMod.stdAddChar (N := n) (x * b) : ℂ) :=
          Finset.sum_congr rfl (fun x _ => by rw [mul_comm])
      _ = ((if b = 0 then n else 0 : ℕ) : ℂ) := this
      _ = if b = 0 then (n : ℂ) else 0 := by split_ifs <;> simp
  simp only [chi]
  rw [Fintype.sum_prod_type]
  simp_rw [← Finset.mul_sum]
  rw [← Finset.sum_mul, h1 ny κ.1, h1 nx κ.2]
  rcases κ with ⟨j, i⟩
  by_cases hj : j = 0 <;> by_cases hi : i = 0 <;> simp [hj, hi, cells, Prod.ext_iff]

/-! ## D1  DC bin ↔ mean -/

theorem D1_dc_is_mean (A : ZMod ny × ZMod nx → ℂ) : fftFwd A 0 = (1 / cells ny nx) * ∑ r, A r := by
  simp [fftFwd, chi_zero_left]

theorem cells_ne_zero : cells ny nx ≠ 0 := by
  simp [cells, NeZero.ne]

/-- the mean over the domain of a synthesised field is its DC coefficient (L-mean) -/
theorem D1_mean_of_synthesis (F : ZMod ny × ZMod nx → ℂ) :
    (1 / cells ny nx) * ∑ r, ifftFwd F r = F 0 := by
  simp only [ifftFwd]
  rw [Finset.sum_comm]
  simp_rw [← Finset.mul_sum, sum_chi]
  have hc := cells_ne_zero (ny := ny) (nx := nx)
  simp only [mul_ite, mul_zero, Finset.sum_ite_eq', Finset.mem_univ, if_true]
  field_simp

/-- footprint form: the SUM over the domain is `N` times the DC coefficient, also for the `e^{-i}` synthesis -/
theorem D1_sum_of_backward_synthesis (F : ZMod ny × ZMod nx → ℂ) :
    ∑ r, fftBwd F r = cells ny nx * F 0 := by
  simp only [fftBwd]
  rw [Finset.sum_comm]
  have : ∀ κ : ZMod ny × ZMod nx, ∑ r, F κ * chi r (-κ) = F κ * if κ = 0 then cells ny nx else 0 := by
    intro κ
    rw [← Finset.mul_sum]
    congr 1
    have := sum_chi (ny := ny) (nx := nx) (-κ)
    simp only [neg_eq_zero] at this
    rw [← this]
    exact Finset.sum_congr rfl (fun r _ => chi_symm _ _)
  simp_rw [this]
  simp [mul_comm]

/-! ## D2  linearity -/

theorem D2_fftFwd_linear (a b : ℂ) (A B : ZMod ny × ZMod nx → ℂ) (κ : ZMod ny × ZMod nx) :
    fftFwd (fun r => a * A r + b * B r) κ = a * fftFwd A κ + b * fftFwd B κ := by
  simp only [fftFwd, add_mul, Finset.sum_add_distrib, mul_assoc, ← Finset.mul_sum]; ring

theorem D2_fftBwd_linear (a b : ℂ) (A B : ZMod ny × ZMod nx → ℂ) (κ : ZMod ny × ZMod nx) :
    fftBwd (fun r => a * A r + b * B r) κ = a * fftBwd A κ + b * fftBwd B κ := by
  simp only [fftBwd, add_mul, Finset.sum_add_distrib, mul_assoc, ← Finset.mul_sum]

theorem D2_ifftFwd_linear (a b : ℂ) (F H : ZMod ny × ZMod nx → ℂ) (r : ZMod ny × ZMod nx) :
    ifftFwd (fun κ => a * F κ + b * H κ) r = a * ifftFwd F r + b * ifftFwd H r := by
  simp only [ifftFwd, add_mul, Finset.sum_add_distrib, mul_assoc, ← Finset.mul_sum]

/-! ## D3  shift theorem -/

/-- multiplying a spectrum by the phase `χ_κ(s)` translates the `e^{+i}` synthesis by `s` -/
theorem D3_phase_translates_synthesis (F : ZMod ny × ZMod nx → ℂ) (s r : ZMod ny × ZMod nx) :
    ifftFwd (fun κ => F κ * chi κ s) r = ifftFwd F (r + s) := by
  simp only [ifftFwd, chi_add]
  exact Finset.sum_congr rfl (fun κ _ => by ring)

/-- ... and the `e^{-i}` synthesis the other way -/
theorem D3_phase_translates_backward_synthesis (F : ZMod ny × ZMod nx → ℂ) (s r : ZMod ny × ZMod nx) :
    fftBwd (fun κ => F κ * chi κ s) r = fftBwd F (r - s) := by
  simp only [fftBwd]
  refine Finset.sum_congr rfl (fun κ _ => ?_)
  rw [chi_symm r (-κ), chi_symm (r - s) (-κ), chi_neg_left, chi_neg_left, neg_sub, sub_eq_add_neg s r,
    chi_add, chi_symm κ s]
  ring

/-- translating the source multiplies its spectrum by a phase -/
theorem D3_translation_is_phase (A : ZMod ny × ZMod nx → ℂ) (s κ : ZMod ny × ZMod nx) :
    fftFwd (fun r => A (r - s)) κ = fftFwd A κ * chi κ (-s) := by
  simp only [fftFwd]
  rw [mul_assoc, Finset.sum_mul]
  congr 1
  refine Fintype.sum_equiv (Equiv.subRight s) _ _ (fun r => ?_)
  simp only [Equiv.subRight_apply]
  have : -r = -(r - s) + -s := by abel
  rw [this, chi_add]; ring

/-! ## D5  reflection and transposition -/

/-- the `e^{-i}` transform of a spectrum is the point reflection of its `e^{+i}` transform (L-refl) -/
theorem D5_reflection (F : ZMod ny × ZMod nx → ℂ) (r : ZMod ny × ZMod nx) :
    fftBwd F r = ifftFwd F (-r) := by
  simp only [fftBwd, ifftFwd]
  exact Finset.sum_congr rfl (fun κ _ => by rw [chi_symm r (-κ), chi_neg_left])

theorem D5_mirror_x (A : ZMod ny × ZMod nx → ℂ) (κ : ZMod ny × ZMod nx) :
    fftFwd (fun r => A (r.1, -r.2)) κ = fftFwd A (κ.1, -κ.2) := by
  simp only [fftFwd]
  congr 1
  refine Fintype.sum_equiv ((Equiv.refl _).prodCongr (Equiv.neg _)) _ _ (fun r => ?_)
  rcases r with ⟨y, x⟩
  show A (y, -x) * chi κ (-(y, x)) = A (y, -x) * chi (κ.1, -κ.2) (-(y, -x))
  congr 1
  simp [chi]

theorem D5_mirror_y (A : ZMod ny × ZMod nx → ℂ) (κ : ZMod ny × ZMod nx) :
    fftFwd (fun r => A (-r.1, r.2)) κ = fftFwd A (-κ.1, κ.2) := by
  simp only [fftFwd]
  congr 1
  refine Fintype.sum_equiv ((Equiv.neg _).prodCongr (Equiv.refl _)) _ _ (fun r => ?_)
  rcases r with ⟨y, x⟩
  show A (-y, x) * chi κ (-(y, x)) = A (-y, x) * chi (-κ.1, κ.2) (-(-y, x))
  congr 1
  simp [chi]

theorem D5_transposition (A : ZMod ny × ZMod nx → ℂ) (κ : ZMod nx × ZMod ny) :
    fftFwd (ny := nx) (nx := ny) (fun r => A r.swap) κ = fftFwd A κ.swap := by
  simp only [fftFwd, cells]
  congr 1
  · push_cast; ring
  · refine Fintype.sum_equiv (Equiv.prodComm _ _) _ _ (fun r => ?_)
    simp [chi, mul_comm]


/-- synthesis side: mirroring the spectrum in `κ_x` mirrors the field in `x` (L-sym) -/
theorem D5_mirror_x_synthesis (F : ZMod ny × ZMod nx → ℂ) (r : ZMod ny × ZMod nx) :
    ifftFwd (fun κ => F (κ.1, -κ.2)) r = ifftFwd F (r.1, -r.2) := by
  simp only [ifftFwd]
  refine Fintype.sum_equiv ((Equiv.refl _).prodCongr (Equiv.neg _)) _ _ (fun κ => ?_)
  rcases κ with ⟨j, i⟩
  show F (j, -i) * chi (j, i) r = F (j, -i) * chi (j, -i) (r.1, -r.2)
  congr 1
  simp [chi]

theorem D5_mirror_y_synthesis (F : ZMod ny × ZMod nx → ℂ) (r : ZMod ny × ZMod nx) :
    ifftFwd (fun κ => F (-κ.1, κ.2)) r = ifftFwd F (-r.1, r.2) := by
  simp only [ifftFwd]
  refine Fintype.sum_equiv ((Equiv.neg _).prodCongr (Equiv.refl _)) _ _ (fun κ => ?_)
  rcases κ with ⟨j, i⟩
  show F (-j, i) * chi (j, i) r = F (-j, i) * chi (-j, i) (-r.1, r.2)
  congr 1
  simp [chi]

theorem D5_transposition_synthesis (F : ZMod ny × ZMod nx → ℂ) (r : ZMod nx × ZMod ny) :
    ifftFwd (ny := nx) (nx := ny) (fun κ => F κ.swap) r = ifftFwd F r.swap := by
  simp only [ifftFwd]
  refine Fintype.sum_equiv (Equiv.prodComm _ _) _ _ (fun κ => ?_)
  simp [chi, mul_comm]

/-- a source that vanishes outside the cropped window: the weighted sum over the padded grid is the sum over
the window (zero-flux halo) -/
theorem sum_over_window (S : Finset (ZMod ny × ZMod nx)) (q Φ : ZMod ny × ZMod nx → ℂ)
    (hq : ∀ r, r ∉ S → q r = 0) : ∑ r, q r * Φ r = ∑ r ∈ S, q r * Φ r := by
  symm
  apply Finset.sum_subset (Finset.subset_univ S)
  intro r _ hr
  simp [hq r hr]

/-! ## D4  convolution / reciprocity (DESIGN B.2) -/

/-- Green's function of a transfer function `H` -/
def green (H : ZMod ny × ZMod nx → ℂ) (s : ZMod ny × ZMod nx) : ℂ :=
  (1 / cells ny nx) * ∑ κ, H κ * chi κ s

/-- forward run: `ifft2(H · fft2(q,"forward"), "forward")` is the periodic convolution of `q` with `G` -/
theorem D4_forward_is_convolution (H q : ZMod ny × ZMod nx → ℂ) (r : ZMod ny × ZMod nx) :
    ifftFwd (fun κ => H κ * fftFwd q κ) r = ∑ r', q r' * green H (r - r') := by
  simp only [ifftFwd, fftFwd, green, Finset.mul_sum, Finset.sum_mul]
  rw [Finset.sum_comm]
  refine Finset.sum_congr rfl (fun r' _ => Finset.sum_congr rfl (fun κ _ => ?_))
  rw [chi_sub]; ring

/-- footprint run: the `e^{-i}` transform of `H · (1/N) · χ(m)` is the reflected Green's function `G(m - r)` -/
theorem D4_footprint_is_reflected_green (H : ZMod ny × ZMod nx → ℂ) (m r : ZMod ny × ZMod nx) :
    fftBwd (fun κ => H κ * (1 / cells ny nx) * chi κ m) r = green H (m - r) := by
  simp only [fftBwd, green, Finset.mul_sum]
  refine Finset.sum_congr rfl (fun κ _ => ?_)
  rw [chi_symm r (-κ), chi_neg_left, chi_sub]; ring

/-- reciprocity: the footprint for a tower at `m` weighted with the source gives the forward field at `m` -/
theorem D4_reciprocity (H q : ZMod ny × ZMod nx → ℂ) (m : ZMod ny × ZMod nx) :
    ∑ r, q r * fftBwd (fun κ => H κ * (1 / cells ny nx) * chi κ m) r
      = ifftFwd (fun κ => H κ * fftFwd q κ) m := by
  rw [D4_forward_is_convolution]
  exact Finset.sum_congr rfl (fun r _ => by rw [D4_footprint_is_reflected_green])

/-- a footprint shifted by an offset `o` instead of the pad offset is the translate of the right one:
reciprocity holds iff the offsets agree as translations -/
theorem D4_offset_is_translation (H : ZMod ny × ZMod nx → ℂ) (m o r : ZMod ny × ZMod nx) :
    fftBwd (fun κ => H κ * (1 / cells ny nx) * chi κ (m + o)) r
      = fftBwd (fun κ => H κ * (1 / cells ny nx) * chi κ m) (r - o) := by
  rw [D4_footprint_is_reflected_green, D4_footprint_is_reflected_green]
  congr 1; abel

/-- real sources: taking real parts commutes with the weighted sum -/
theorem re_weighted_sum (q : ZMod ny × ZMod nx → ℝ) (Φ : ZMod ny × ZMod nx → ℂ) :
    (∑ r, (q r : ℂ) * Φ r).re = ∑ r, q r * (Φ r).re := by
  simp [Complex.re_sum]

end

#print axioms omega_formula
#print axioms sum_chi
#print axioms D1_dc_is_mean
#print axioms D1_mean_of_synthesis
#print axioms D1_sum_of_backward_synthesis
#print axioms D2_fftFwd_linear
#print axioms D2_fftBwd_linear
#print axioms D2_ifftFwd_linear
#print axioms D3_phase_translates_synthesis
#print axioms D3_phase_translates_backward_synthesis
#print axioms D3_translation_is_phase
#print axioms D5_reflection
#print axioms D5_mirror_x
#print axioms D5_mirror_y
#print axioms D5_transposition
#print axioms D5_mirror_x_synthesis
#print axioms D5_mirror_y_synthesis
#print axioms D5_transposition_synthesis
#print axioms sum_over_window
#print axioms D4_forward_is_convolution
#print axioms D4_footprint_is_reflected_green
#print axioms D4_reciprocity
#print axioms D4_offset_is_translation
#print axioms re_weighted_sum
