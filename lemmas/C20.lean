import Mathlib
open Finset

/-!
Set-form consequences of the RANK FORM contract of `bldfm.utils.get_source_area` (property C20).

Rank form (discharged on the real code by the verifier, contracts/utilsc.py): with `σ r` the cell of rank `r` in
descending order of the base field `g` (`hsort`), the result at that cell is the sum of `f` over the cells ranked
strictly above it (`hout`).  From this and `f ≥ 0` follow the clauses of the property statement:
the value lies between the sum over the cells with strictly larger `g` and the sum over the other cells with
larger-or-equal `g` ("cells tied with it may or may not be counted"), it lies in `[0, total - f c]`, and it does not
increase with `g`.
-/

variable {n : ℕ} (f g out : Fin n → ℝ) (σ : Equiv.Perm (Fin n))

theorem rank_sum_eq_image (r : Fin n) :
    ∑ t ∈ univ.filter (fun t => t < r), f (σ t) = ∑ c ∈ (univ.filter (fun t => t < r)).image σ, f c := by
  rw [Finset.sum_image]
  intro a _ b _ h
  exact σ.injective h

theorem lower_bound (hf : ∀ c, 0 ≤ f c)
    (hsort : ∀ r t : Fin n, r ≤ t → g (σ t) ≤ g (σ r))
    (hout : ∀ r, out (σ r) = ∑ t ∈ univ.filter (fun t => t < r), f (σ t)) (r : Fin n) :
    ∑ c ∈ univ.filter (fun c => g (σ r) < g c), f c ≤ out (σ r) := by
  rw [hout, rank_sum_eq_image]
  apply Finset.sum_le_sum_of_subset_of_nonneg
  · intro c hc
    simp only [mem_filter, mem_univ, true_and] at hc
    simp only [mem_image, mem_filter, mem_univ, true_and]
    refine ⟨σ.symm c, ?_, by simp⟩
    by_contra hlt
    have hle : r ≤ σ.symm c := not_lt.mp hlt
    have := hsort r (σ.symm c) hle
    simp at this
    linarith
  · intro c _ _
    exact hf c

theorem upper_bound (hf : ∀ c, 0 ≤ f c)
    (hsort : ∀ r t : Fin n, r ≤ t → g (σ t) ≤ g (σ r))
    (hout : ∀ r, out (σ r) = ∑ t ∈ univ.filter (fun t => t < r), f (σ t)) (r : Fin n) :
    out (σ r) ≤ ∑ c ∈ univ.filter (fun c => c ≠ σ r ∧ g (σ r) ≤ g c), f c := by
  rw [hout, rank_sum_eq_image]
  apply Finset.sum_le_sum_of_subset_of_nonneg
  · intro c hc
    simp only [mem_image, mem_filter, mem_univ, true_and] at hc
    obtain ⟨t, ht, rfl⟩ := hc
    simp only [mem_filter, mem_univ, true_and]
    refine ⟨?_, hsort t r (le_of_lt ht)⟩
    intro h
    have := σ.injective h
    exact absurd this (ne_of_lt ht)
  · intro c _ _
    exact hf c

theorem nonneg_and_below_total (hf : ∀ c, 0 ≤ f c)
    (hout : ∀ r, out (σ r) = ∑ t ∈ univ.filter (fun t => t < r), f (σ t)) (r : Fin n) :
    0 ≤ out (σ r) ∧ out (σ r) + f (σ r) ≤ ∑ c, f c := by
  constructor
  · rw [hout]; exact Finset.sum_nonneg (fun t _ => hf _)
  · rw [hout]
    have h1 : ∑ t ∈ univ.filter (fun t => t < r), f (σ t) + f (σ r)
        = ∑ t ∈ insert r (univ.filter (fun t => t < r)), f (σ t) := by
      rw [Finset.sum_insert]; · ring
      simp
    rw [h1]
    calc ∑ t ∈ insert r (univ.filter (fun t => t < r)), f (σ t)
        ≤ ∑ t, f (σ t) := by
          apply Finset.sum_le_sum_of_subset_of_nonneg (Finset.subset_univ _)
          intro t _ _; exact hf _
      _ = ∑ c, f c := Equiv.sum_comp σ f

theorem antitone_in_g (hf : ∀ c, 0 ≤ f c)
    (hsort : ∀ r t : Fin n, r ≤ t → g (σ t) ≤ g (σ r))
    (hout : ∀ r, out (σ r) = ∑ t ∈ univ.filter (fun t => t < r), f (σ t)) (c₁ c₂ : Fin n)
    (hg : g c₂ < g c₁) : out c₁ ≤ out c₂ := by
  obtain ⟨r₁, rfl⟩ := σ.surjective c₁
  obtain ⟨r₂, rfl⟩ := σ.surjective c₂
  have hr : r₁ < r₂ := by
    by_contra h
    have := hsort r₂ r₁ (not_lt.mp h)
    linarith
  rw [hout, hout]
  apply Finset.sum_le_sum_of_subset_of_nonneg
  · intro t ht
    simp only [mem_filter, mem_univ, true_and] at ht ⊢
    exact lt_trans ht hr
  · intro t _ _; exact hf _

/-- A strictly increasing transformation of the base field leaves the admissible orders unchanged, hence the set
of admissible results of the rank form. -/
theorem sorted_iff_of_strictMono (h : ℝ → ℝ) (hh : StrictMono h) :
    (∀ r t : Fin n, r ≤ t → g (σ t) ≤ g (σ r)) ↔ (∀ r t : Fin n, r ≤ t → h (g (σ t)) ≤ h (g (σ r))) := by
  constructor
  · intro hs r t hrt; exact hh.monotone (hs r t hrt)
  · intro hs r t hrt; exact hh.le_iff_le.mp (hs r t hrt)

/-- A common permutation `π` of the cells: `f ∘ π`, `g ∘ π` with the order `π⁻¹ ∘ σ` satisfy the rank form with the
permuted result `out ∘ π`. -/
theorem rank_form_permuted (π : Equiv.Perm (Fin n))
    (hsort : ∀ r t : Fin n, r ≤ t → g (σ t) ≤ g (σ r))
    (hout : ∀ r, out (σ r) = ∑ t ∈ univ.filter (fun t => t < r), f (σ t)) :
    (∀ r t : Fin n, r ≤ t → (g ∘ π) ((σ.trans π.symm) t) ≤ (g ∘ π) ((σ.trans π.symm) r)) ∧
    (∀ r, (out ∘ π) ((σ.trans π.symm) r) = ∑ t ∈ univ.filter (fun t => t < r), (f ∘ π) ((σ.trans π.symm) t)) := by
  constructor
  · intro r t hrt; simpa using hsort r t hrt
  · intro r; simpa using hout r

/-! Percentile contour: `k` is the least index whose descending cumulative sum reaches `p * total`
(searchsorted side=left, discharged on the real code).  Consequences: -/

/-- the number of selected cells does not decrease with the requested fraction -/
theorem count_monotone (cum : ℕ → ℝ) (v₁ v₂ : ℝ) (k₁ k₂ : ℕ) (hv : v₁ ≤ v₂)
    (h₁ : ∀ j, j < k₁ → cum j < v₁) (h₂ : v₂ ≤ cum k₂) : k₁ ≤ k₂ := by
  by_contra h
  have := h₁ k₂ (not_le.mp h)
  linarith

/-- the level (smallest selected value of the descending sort) does not increase with the requested fraction -/
theorem level_antitone (s : ℕ → ℝ) (hs : ∀ i j, i ≤ j → s j ≤ s i) (k₁ k₂ : ℕ) (h : k₁ ≤ k₂) : s k₂ ≤ s k₁ :=
  hs k₁ k₂ h

/-- scaling the footprint by `c > 0` scales sums and threshold alike: the same index is selected (area unchanged)
and the level is scaled -/
theorem scaling_keeps_index (cum : ℕ → ℝ) (v c : ℝ) (hc : 0 < c) (k : ℕ)
    (hlt : ∀ j, j < k → cum j < v) (hge : v ≤ cum k) :
    (∀ j, j < k → c * cum j < c * v) ∧ c * v ≤ c * cum k :=
  ⟨fun j hj => mul_lt_mul_of_pos_left (hlt j hj) hc, mul_le_mul_of_nonneg_left hge hc.le⟩

#print axioms lower_bound
#print axioms upper_bound
#print axioms nonneg_and_below_total
#print axioms antitone_in_g
#print axioms sorted_iff_of_strictMono
#print axioms rank_form_permuted
#print axioms count_monotone
#print axioms level_antitone
#print axioms scaling_keeps_index
