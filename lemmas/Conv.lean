import Mathlib
open Finset

/-!
# L-conv, the part that is pure inequality reasoning (DESIGN B.3): consistency + stability ⇒ convergence

For the marching scheme `y_{i+1} = S_i y_i` and the exact solution `Y_{i+1} = E_i Y_i` the error `e_i = ‖y_i - Y_i‖`
satisfies `e_{i+1} ≤ ‖S_i‖ e_i + ‖(S_i - E_i) Y_i‖`.  With
  * stability      `‖S_i‖ ≤ 1 + C h_i`,
  * consistency    `‖(S_i - E_i) Y_i‖ ≤ D h_i^(p+1)`   (local error of order `p+1`),
  * layer thickness `0 ≤ h_i ≤ H`,
the global error after `n` layers is at most `exp(C·Σh) · (e_0 + D·H^p·Σh)`: it shrinks like `H^p` under refinement
on a column of fixed height.  What is NOT mechanised: that the extracted step of `ivp_solver` has a local error of
that order for smooth varying coefficients (Taylor's theorem for the ODE; the verifier proves the algebraic part:
the step equals `Σ_{k≤r} (h M)^k/k!` for frozen coefficients and reads the coefficients of its own layer).
-/

theorem global_error_bound (e h : ℕ → ℝ) (C D H : ℝ) (p : ℕ)
    (hC : 0 ≤ C) (hD : 0 ≤ D)
    (hh : ∀ i, 0 ≤ h i ∧ h i ≤ H)
    (he0 : 0 ≤ e 0)
    (step : ∀ i, e (i + 1) ≤ (1 + C * h i) * e i + D * (h i) ^ (p + 1)) :
    ∀ n, e n ≤ Real.exp (C * ∑ i ∈ range n, h i) * (e 0 + D * H ^ p * ∑ i ∈ range n, h i) := by
  intro n
  induction n with
  | zero => simp
  | succ n ih =>
    have hn := hh n
    have hH : 0 ≤ H := le_trans hn.1 hn.2
    have hT : 0 ≤ ∑ i ∈ range n, h i := Finset.sum_nonneg (fun i _ => (hh i).1)
    set T := ∑ i ∈ range n, h i with hTdef
    have hB : 0 ≤ e 0 + D * H ^ p * T := by positivity
    have hexp1 : 1 + C * h n ≤ Real.exp (C * h n) := by
      have := Real.add_one_le_exp (C * h n); linarith
    have hpos : 0 ≤ 1 + C * h n := by nlinarith [mul_nonneg hC hn.1]
    have hloc : D * (h n) ^ (p + 1) ≤ D * H ^ p * h n := by
      have h1 : (h n) ^ p ≤ H ^ p := pow_le_pow_left₀ hn.1 hn.2 p
      have : (h n) ^ (p + 1) = (h n) ^ p * h n := pow_succ _ _
      rw [this]
      have : (h n) ^ p * h n ≤ H ^ p * h n := mul_le_mul_of_nonneg_right h1 hn.1
      nlinarith [mul_le_mul_of_nonneg_left this hD]
    have hge1 : 1 ≤ Real.exp (C * (T + h n)) := by
      apply Real.one_le_exp; exact mul_nonneg hC (add_nonneg hT hn.1)
    rw [Finset.sum_range_succ]
    calc e (n + 1) ≤ (1 + C * h n) * e n + D * (h n) ^ (p + 1) := step n
      _ ≤ (1 + C * h n) * (Real.exp (C * T) * (e 0 + D * H ^ p * T)) + D * H ^ p * h n := by
          have := mul_le_mul_of_nonneg_left ih hpos
          linarith
      _ ≤ Real.exp (C * h n) * (Real.exp (C * T) * (e 0 + D * H ^ p * T)) + D * H ^ p * h n := by
          have hnn : 0 ≤ Real.exp (C * T) * (e 0 + D * H ^ p * T) := mul_nonneg (Real.exp_pos _).le hB
          have := mul_le_mul_of_nonneg_right hexp1 hnn
          linarith
      _ = Real.exp (C * (T + h n)) * (e 0 + D * H ^ p * T) + D * H ^ p * h n := by
          rw [← mul_assoc, ← Real.exp_add]; ring_nf
      _ ≤ Real.exp (C * (T + h n)) * (e 0 + D * H ^ p * T) + Real.exp (C * (T + h n)) * (D * H ^ p * h n) := by
          have hq : 0 ≤ D * H ^ p * h n := by
            have := hn.1; positivity
          nlinarith [mul_le_mul_of_nonneg_right hge1 hq]
      _ = Real.exp (C * (T + h n)) * (e 0 + D * H ^ p * (T + h n)) := by ring

/-- refinement: on a column of fixed height `Z` with exact start, the bound is `K · H^p` with `K` independent of the grid -/
theorem error_is_order_p (e h : ℕ → ℝ) (C D H Z : ℝ) (p n : ℕ)
    (hC : 0 ≤ C) (hD : 0 ≤ D) (hh : ∀ i, 0 ≤ h i ∧ h i ≤ H) (he0 : e 0 = 0)
    (step : ∀ i, e (i + 1) ≤ (1 + C * h i) * e i + D * (h i) ^ (p + 1))
    (hZ : ∑ i ∈ range n, h i = Z) :
    e n ≤ (Real.exp (C * Z) * D * Z) * H ^ p := by
  have := global_error_bound e h C D H p hC hD hh (by rw [he0]) step n
  rw [hZ, he0] at this
  calc e n ≤ Real.exp (C * Z) * (0 + D * H ^ p * Z) := this
    _ = (Real.exp (C * Z) * D * Z) * H ^ p := by ring

#print axioms global_error_bound
#print axioms error_is_order_p
