"""Back end: discharge obligations with z3 (primary) in a fork pool; cvc5 re-check on text."""
import multiprocessing as mp
import os
import subprocess
import tempfile
import time

import z3

_OBS = []


def _model_dict(m):
    out = {}
    for d in m.decls():
        try:
            v = m[d]
            if d.arity() == 0:
                out[d.name()] = str(v)
            else:
                out[d.name()] = str(v)[:400]
        except Exception:
            pass
    return out


def _solve(i_timeout):
    i, timeout_ms, seed = i_timeout
    ob = _OBS[i]
    t0 = time.time()
    if ob.view == "custom":
        try:
            r = ob.custom()
        except Exception as e:
            import traceback
            r = {"result": "unknown", "reason": "custom procedure failed: %r %s" % (e, traceback.format_exc(limit=4))}
        r.setdefault("backend", "exact polynomial arithmetic (pyvc.stepalg)")
        r.setdefault("time_s", round(time.time() - t0, 4))
        return i, r
    if ob.view == "value" and ob.expect == "unsat":
        from . import valueview
        r = valueview.prove(ob.pc, ob.hyps, ob.goal, timeout_s=max(30, timeout_ms / 1000.0 * 3))
        if not (r["result"] == "unknown" and "not a value goal" in r.get("reason", "")):
            return i, r
    s = z3.Solver()
    s.set("timeout", timeout_ms)
    s.set("random_seed", seed)
    for c in ob.pc:
        s.add(c)
    for h in ob.hyps:
        s.add(h)
    goal = ob.goal
    if ob.expect == "unsat":
        s.add(z3.Not(goal))
    else:
        s.add(goal)
    try:
        r = s.check()
    except z3.Z3Exception as e:
        return i, {"result": "unknown", "reason": "z3 exception: %s" % e, "time_s": time.time() - t0,
                   "backend": "z3"}
    res = {"result": str(r), "time_s": round(time.time() - t0, 4), "backend": "z3 " + z3.get_version_string()}
    if r == z3.sat:
        try:
            res["model"] = _model_dict(s.model())
        except Exception:
            res["model"] = {}
    if r == z3.unknown:
        res["reason"] = s.reason_unknown()
    try:
        txt = _purified_smt2(s)
        res["smt2_abstracted"] = "!abs" in txt
        res["smt2_bytes"] = len(txt)
        res["smt2"] = txt
    except Exception:
        res["smt2_bytes"] = 0
    return i, res


def _purified_smt2(s):
    """SMT-LIB text for the second solver.  Applications of the integer-valued uninterpreted functions whose
    arguments are nonlinear real terms (`trunc(halo/(xmx/nx))`, `arange_len(...)`) are replaced by one fresh integer
    constant per syntactically distinct application: an abstraction that forgets congruence between different
    argument terms -- if the abstracted query is unsat so is the original -- and keeps the second solver inside
    linear arithmetic, which is all these obligations need (theory separation, DESIGN 0.1)."""
    asserts = list(s.assertions())
    apps = {}

    def walk(t):
        if not z3.is_app(t):
            return
        k = t.get_id()
        if k in seen:
            return
        seen[k] = t
        if t.decl().kind() == z3.Z3_OP_UNINTERPRETED and t.num_args() > 0 and t.decl().name() in ("trunc", "arange_len") \
                and not any(t.eq(u) for u, _ in apps.values()):
            apps[len(apps)] = (t, z3.Int("%s!abs%d" % (t.decl().name(), len(apps))) if t.sort().kind() == z3.Z3_INT_SORT
                               else z3.Real("%s!abs%d" % (t.decl().name(), len(apps))))
        for c in t.children():
            walk(c)
    seen = {}
    for a in asserts:
        walk(a)
    if not apps:
        return s.to_smt2()
    s2 = z3.Solver()
    # outermost applications first so that nested ones inside their arguments disappear with them
    subs = sorted(apps.values(), key=lambda p: -len(p[0].sexpr()))
    for a in asserts:
        s2.add(z3.substitute(a, *subs))
    return s2.to_smt2()


def run_cvc5(smt2, timeout_s):
    """Second opinion on the SMT-LIB text (thorough tier / z3 unknown)."""
    exe = "/usr/bin/cvc5"
    if not os.path.exists(exe):
        return {"result": "unknown", "reason": "cvc5 missing"}
    with tempfile.NamedTemporaryFile("w", suffix=".smt2", delete=False, dir=os.environ.get("PYVC_WORK", None)) as f:
        f.write(smt2)
        path = f.name
    t0 = time.time()
    try:
        p = subprocess.run([exe, "--lang=smt2", "--tlimit=%d" % int(timeout_s * 1000), path],
                           capture_output=True, text=True, timeout=timeout_s + 5)
        out = (p.stdout or "").strip().splitlines()
        r = out[0].strip() if out else "unknown"
        if r not in ("sat", "unsat", "unknown"):
            r = "unknown"
        return {"result": r, "time_s": round(time.time() - t0, 3), "backend": "cvc5 1.0.3",
                "reason": (p.stderr or "")[:200]}
    except subprocess.TimeoutExpired:
        return {"result": "unknown", "time_s": timeout_s, "backend": "cvc5 1.0.3", "reason": "timeout"}
    finally:
        try:
            os.unlink(path)
        except OSError:
            pass


def discharge(obligations, timeout_s=20, jobs=None, seed=0, keep_smt2=3, cvc5_all=False):
    """Returns list of result dicts aligned with `obligations`."""
    global _OBS
    _OBS = obligations
    n = len(obligations)
    results = [None] * n
    if n == 0:
        return results
    jobs = jobs or min(16, os.cpu_count() or 4, n)
    ctx = mp.get_context("fork")
    tasks = [(i, int(timeout_s * 1000), seed) for i in range(n)]
    if n == 1 or jobs == 1:
        for t in tasks:
            i, r = _solve(t)
            results[i] = r
    else:
        # overall budget of the solving phase (a changed tree can turn hundreds of obligations into hard queries that each
        # use their full allowance): what is not answered by then is `unknown: budget`, the check still ends
        budget_s = float(os.environ.get("PYVC_SOLVE_BUDGET", timeout_s * 45))
        t_start = time.time()
        with ctx.Pool(jobs) as pool:
            asyncs = [(t[0], pool.apply_async(_solve, (t,))) for t in tasks]
            for i, a in asyncs:
                if time.time() - t_start > budget_s and not a.ready():
                    results[i] = {"result": "unknown", "reason": "solve budget of %.0f s exhausted" % budget_s, "time_s": 0.0, "backend": "z3"}
                    continue
                try:
                    _, r = a.get(timeout=timeout_s * 3 + 30)
                except mp.TimeoutError:
                    r = {"result": "unknown", "reason": "hard timeout", "time_s": timeout_s * 3 + 30,
                         "backend": "z3"}
                except Exception as e:  # worker crash
                    r = {"result": "unknown", "reason": "worker failure: %r" % (e,), "time_s": 0.0,
                         "backend": "z3"}
                results[i] = r
        # a worker that never answered (rare: a forked z3 that hangs in its timer machinery) says nothing
        # about the obligation: retry each such obligation in a fresh worker before reporting unknown
        for attempt in range(2):
            stuck = [i for i, r in enumerate(results) if r.get("reason") == "hard timeout" or str(r.get("reason", "")).startswith("worker failure")]
            if not stuck:
                break
            with ctx.Pool(min(jobs, len(stuck))) as pool:
                asyncs = [(i, pool.apply_async(_solve, (tasks[i],))) for i in stuck]
                for i, a in asyncs:
                    try:
                        _, r = a.get(timeout=timeout_s * 3 + 30)
                        r["retried"] = attempt + 1
                        results[i] = r
                    except Exception:
                        pass
    # z3 `unknown` by timeout is often a matter of the random seed (nlsat / quantifier-free nonlinear queries that
    # take 0.2 s with one seed and tens of seconds with another, more so on a busy machine): before an obligation is
    # reported unknown it is retried with other seeds and a doubled budget.  A retry can only turn unknown into a
    # definite answer of the same solver on the same query; it never overrides sat/unsat.
    for attempt, (ds, mult) in enumerate(((101, 2), (7919, 3))):
        slow = [i for i, r in enumerate(results) if r["result"] == "unknown" and obligations[i].view != "custom"
                and any(w in str(r.get("reason", "")) for w in ("timeout", "canceled", "hard timeout", "resource"))]
        if not slow or len(slow) > 12:
            # many timeouts are systematic (a changed tree whose queries are genuinely hard), not seed luck: no retry,
            # so that a check on such a tree still ends in reasonable time
            break
        with ctx.Pool(min(jobs, len(slow))) as pool:
            asyncs = [(i, pool.apply_async(_solve, ((i, int(timeout_s * 1000 * mult), seed + ds),))) for i in slow]
            for i, a in asyncs:
                try:
                    _, r = a.get(timeout=timeout_s * mult * 3 + 30)
                    if r["result"] in ("sat", "unsat"):
                        r["retried_with_seed"] = seed + ds
                        r["first_attempt"] = {"result": "unknown", "reason": str(results[i].get("reason"))[:80], "time_s": results[i].get("time_s")}
                        results[i] = r
                except Exception:
                    pass
    # cvc5: take z3's unknowns (and everything in the thorough tier)
    kept = 0
    texts = [r.pop("smt2", None) for r in results]
    wanted = [i for i, r in enumerate(results) if texts[i] and (cvc5_all or r["result"] == "unknown")]
    cv = {}
    if wanted:
        from multiprocessing.pool import ThreadPool
        with ThreadPool(min(16, os.cpu_count() or 4)) as tp:
            for i, c in zip(wanted, tp.map(lambda i: run_cvc5(texts[i], min(timeout_s, 30)), wanted)):
                cv[i] = c
    for i, r in enumerate(results):
        txt = texts[i]
        if i in cv:
            c = cv[i]
            if r.get("smt2_abstracted") and c["result"] == "sat" and r["result"] != "sat":
                c = dict(c, result="unknown", reason="sat on the congruence-free abstraction of trunc/arange_len: inconclusive")
            r["cvc5"] = c
            if r["result"] == "unknown" and c["result"] in ("sat", "unsat"):
                r["result"] = c["result"]
                r["backend"] = c["backend"] + " (z3 unknown)"
            elif c["result"] in ("sat", "unsat") and r["result"] in ("sat", "unsat") and c["result"] != r["result"]:
                r["disagreement"] = True
        if txt and kept < keep_smt2:
            r["smt2_head"] = "\n".join(txt.splitlines()[:12])
            kept += 1
    return results
