"""Transcendental functions as uninterpreted symbols (assumption A8).  Only the axiom
instances a contract names are ever given to a solver."""
import z3

from . import sym
from .sym import Num, Cx, num

R = z3.RealSort()


def _uf(name, n=1):
    return z3.Function(name, *([R] * (n + 1)))


def PI():
    return Num(z3.Real("pi"), True)


def pi_facts():
    p = z3.Real("pi")
    return [p > z3.Q(314159, 100000), p < z3.Q(314160, 100000)]


def _ap(name, *args):
    return Num(_uf(name, len(args))(*[num(a).zr() for a in args]), True)


def sqrt(x):
    if isinstance(x, Cx):
        return Cx(_ap("csqrt_re", x.re, x.im), _ap("csqrt_im", x.re, x.im))
    x = num(x)
    if x.concrete and x.t >= 0:
        from fractions import Fraction
        import math
        f = Fraction(x.t)
        a, b = math.isqrt(f.numerator), math.isqrt(f.denominator)
        if a * a == f.numerator and b * b == f.denominator:
            return Num(Fraction(a, b), True)
    return _ap("sqrt", x)


def exp(x):
    if isinstance(x, Cx):
        if x.re.concrete and x.re.t == 0:
            return cis(x.im)
        return Cx(_ap("cexp_re", x.re, x.im), _ap("cexp_im", x.re, x.im))
    x = num(x)
    if x.concrete and x.t == 0:
        return Num(1, True)
    return _ap("exp", x)


def cis(theta):
    theta = num(theta)
    if theta.concrete and theta.t == 0:
        return Cx(1, 0)
    return Cx(_ap("cis_re", theta), _ap("cis_im", theta))


def log(x):
    x = num(x)
    if x.concrete and x.t == 1:
        return Num(0, True)
    return _ap("log", x)


def sin(x):
    x = num(x)
    if x.concrete and x.t == 0:
        return Num(0, True)
    return _ap("sin", x)


def cos(x):
    x = num(x)
    if x.concrete and x.t == 0:
        return Num(1, True)
    return _ap("cos", x)


def arctan(x):
    return _ap("arctan", num(x))


def arctan2(y, x):
    return _ap("arctan2", num(y), num(x))


def power(x, e):
    return _ap("pow", num(x), num(e))


def cpower(x, e):
    x, e = num(x), num(e)
    return Cx(_ap("cpow_re", x, e), _ap("cpow_im", x, e))


def gamma(x):
    return _ap("gamma", num(x))


# ---------------------------------------------------------------- order facts (A8 instances)
def _apps(t, names, acc, seen):
    if t.get_id() in seen:
        return
    seen[t.get_id()] = t
    if z3.is_app(t):
        if t.decl().name() in names and t.num_args() >= 1:
            if not any(t.eq(u) for u in acc.setdefault(t.decl().name(), [])):
                acc[t.decl().name()].append(t)
        for c in t.children():
            _apps(c, names, acc, seen)


def order_instances(terms, extra=()):
    """Ground instances of the order axioms of the real functions, for the applications that occur in
    `terms` (z3 terms) and in `extra`: exp > 0 and strictly increasing; log strictly increasing on the
    positive axis; log(exp(a)) = a; sqrt, pow and the real part of the complex power positive for a
    positive argument / base.  Every instance is a true statement about the real functions (A8), so adding
    them can never make a false goal provable; nothing is instantiated beyond the terms at hand."""
    acc, seen = {}, {}
    for t in list(terms) + list(extra):
        _apps(t.zr() if isinstance(t, Num) else t, ("exp", "log", "sqrt", "pow", "cpow_re", "gamma"), acc, seen)
    out = []
    ex, lg = acc.get("exp", []), acc.get("log", [])
    EXP, LOG = _uf("exp"), _uf("log")
    for e in ex:
        out.append(e > 0)
        le = LOG(e)
        out.append(le == e.arg(0))
        if not any(le.eq(u) for u in lg):
            lg = lg + [le]
    for i, a in enumerate(ex):
        for b in ex[i + 1:]:
            out.append(z3.Implies(a.arg(0) < b.arg(0), a < b))
            out.append(z3.Implies(b.arg(0) < a.arg(0), b < a))
    for i, a in enumerate(lg):
        for b in lg[i + 1:]:
            x, y = a.arg(0), b.arg(0)
            out.append(z3.Implies(z3.And(x > 0, x < y), a < b))
            out.append(z3.Implies(z3.And(y > 0, y < x), b < a))
            out.append(z3.Implies(x == y, a == b))
    for t in acc.get("sqrt", []):
        out.append(z3.Implies(t.arg(0) > 0, t > 0))
        out.append(z3.Implies(t.arg(0) >= 0, t * t == t.arg(0)))
    for nm in ("pow", "cpow_re", "gamma"):      # Gamma is positive on the positive axis
        for t in acc.get(nm, []):
            out.append(z3.Implies(t.arg(0) > 0, t > 0))
    return out


def exp_bounds():
    """Rational enclosures of e^-1 and e^-1/2 (named numeric instances, like pi_facts)."""
    EXP = _uf("exp")
    return [EXP(z3.RealVal(0)) == 1, EXP(z3.RealVal(-1)) > z3.Q(3678, 10000), EXP(z3.RealVal(-1)) < z3.Q(3679, 10000),
            EXP(z3.Q(-1, 2)) > z3.Q(6065, 10000), EXP(z3.Q(-1, 2)) < z3.Q(6066, 10000)]
