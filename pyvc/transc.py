"""Transcendental functions as uninterpreted symbols (assumption A8).  Only the axiom
instances a contract names are ever given to a solver."""
import z3

from . import sym
from .sym import Num, Cx, num

R = z3.RealSort()


def _uf(name, n=1):
    return z3.Function(name, *([R] * (n + 1)))


def PI():
    return Num(z3.Real("pi"), True)


def pi_facts():
    p = z3.Real("pi")
    return [p > z3.Q(314159, 100000), p < z3.Q(314160, 100000)]


def _ap(name, *args):
    return Num(_uf(name, len(args))(*[num(a).zr() for a in args]), True)


def sqrt(x):
    if isinstance(x, Cx):
        return Cx(_ap("csqrt_re", x.re, x.im), _ap("csqrt_im", x.re, x.im))
    x = num(x)
    if x.concrete and x.t >= 0:
        from fractions import Fraction
        import math
        f = Fraction(x.t)
        a, b = math.isqrt(f.numerator), math.isqrt(f.denominator)
        if a * a == f.numerator and b * b == f.denominator:
            return Num(Fraction(a, b), True)
    return _ap("sqrt", x)


def exp(x):
    if isinstance(x, Cx):
        if x.re.concrete and x.re.t == 0:
            return cis(x.im)
        return Cx(_ap("cexp_re", x.re, x.im), _ap("cexp_im", x.re, x.im))
    x = num(x)
    if x.concrete and x.t == 0:
        return Num(1, True)
    return _ap("exp", x)


def cis(theta):
    theta = num(theta)
    if theta.concrete and theta.t == 0:
        return Cx(1, 0)
    return Cx(_ap("cis_re", theta), _ap("cis_im", theta))


def log(x):
    x = num(x)
    if x.concrete and x.t == 1:
        return Num(0, True)
    return _ap("log", x)


def sin(x):
    x = num(x)
    if x.concrete and x.t == 0:
        return Num(0, True)
    return _ap("sin", x)


def cos(x):
    x = num(x)
    if x.concrete and x.t == 0:
        return Num(1, True)
    return _ap("cos", x)


def arctan(x):
    return _ap("arctan", num(x))


def arctan2(y, x):
    return _ap("arctan2", num(y), num(x))


def power(x, e):
    return _ap("pow", num(x), num(e))


def cpower(x, e):
    x, e = num(x), num(e)
    return Cx(_ap("cpow_re", x, e), _ap("cpow_im", x, e))


def gamma(x):
    return _ap("gamma", num(x))
