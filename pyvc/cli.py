"""./check <property> [--tier quick|thorough] [--replay PATH]

Exit codes: 0 held (or only listed known findings) / 1 violation (VIOLATION line printed) /
2 undecided / 3 checker failure.  `unknown`, timeouts and tracebacks are never violations.
"""
import argparse
import importlib
import json
import os
import re
import shutil
import subprocess
import sys
import time
import traceback

VERIF = os.path.dirname(os.path.dirname(os.path.abspath(__file__)))
sys.path.insert(0, VERIF)

from pyvc import harness, smt, frontend, sym  # noqa: E402
from contracts import registry  # noqa: E402

NATIVE_PY = "/venv/bin/python"


def _work():
    d = os.path.join(VERIF, ".work", "c%d" % os.getpid())
    os.makedirs(d, exist_ok=True)
    return d


def native_exec(code, timeout=300):
    """Run replay code against the REAL package in the repository's own interpreter."""
    d = os.path.join(_work(), "native")
    os.makedirs(d, exist_ok=True)
    env = dict(os.environ)
    env["PYTHONDONTWRITEBYTECODE"] = "1"
    pre = "import logging, warnings\nlogging.disable(logging.CRITICAL)\n"
    try:
        p = subprocess.run([NATIVE_PY, "-c", pre + code], cwd=d, capture_output=True, text=True,
                           timeout=timeout, env=env)
        out = (p.stdout or "") + (("\n[stderr] " + p.stderr[-1500:]) if p.returncode not in (0, 1) else "")
        if "REPLAY-FAIL" in out:
            return "fail", out.strip()[-2000:]
        if "REPLAY-PASS" in out:
            return "pass", out.strip()[-2000:]
        return "error", out.strip()[-2000:]
    except subprocess.TimeoutExpired:
        return "error", "native replay timed out"


def run_bounded(prop, tier, seed, max_seconds=None):
    path = os.path.join(VERIF, "bounded", prop + ".py")
    if not os.path.exists(path):
        return None
    out = os.path.join(_work(), "bounded_%s.json" % prop)
    cmd = [NATIVE_PY, path, "--tier", tier, "--seed", str(seed), "--out", out]
    if max_seconds:
        cmd += ["--max-seconds", str(max_seconds)]
    env = dict(os.environ)
    env["PYTHONDONTWRITEBYTECODE"] = "1"
    try:
        p = subprocess.run(cmd, cwd=VERIF, capture_output=True, text=True, timeout=3600, env=env)
    except subprocess.TimeoutExpired:
        return {"crash": "bounded suite timed out"}
    if not os.path.exists(out):
        return {"crash": (p.stdout[-800:] + p.stderr[-1500:])}
    with open(out) as f:
        return json.load(f)


_HISTORY = {}


def history_search(seed):
    """Witness search for a refuted purity frame obligation (the solver reads mutable module-level state): near-twin
    call histories of the real solver (bounded/C12.py in focus mode: one argument or ONE profile component changed,
    both orders), each compared with the same solve in a fresh interpreter.  Run at most once per check."""
    if "res" not in _HISTORY:
        path = os.path.join(VERIF, "bounded", "C12.py")
        out = os.path.join(_work(), "history_search.json")
        env = dict(os.environ, PYTHONDONTWRITEBYTECODE="1", C12_FOCUS="twins")
        try:
            subprocess.run([NATIVE_PY, path, "--tier", "quick", "--seed", str(seed), "--out", out], cwd=VERIF,
                           capture_output=True, text=True, timeout=1800, env=env)
            with open(out) as f:
                _HISTORY["res"] = json.load(f)
        except Exception as e:
            _HISTORY["res"] = {"crash": repr(e)}
    return _HISTORY["res"]


def bounded_replay(prop, spec):
    path = os.path.join(VERIF, "bounded", prop + ".py")
    p = subprocess.run([NATIVE_PY, path, "--replay", json.dumps(spec)], cwd=VERIF, capture_output=True,
                       text=True, timeout=1800)
    out = (p.stdout or "").strip()
    if "REPLAY-FAIL" in out:
        return "fail", out[-1500:]
    if "REPLAY-PASS" in out:
        return "pass", out[-1500:]
    return "error", (out + p.stderr)[-1500:]


def load_findings():
    p = os.path.join(VERIF, "known_findings.json")
    if not os.path.exists(p):
        return []
    with open(p) as f:
        return json.load(f).get("findings", [])


def load_baseline():
    p = os.path.join(VERIF, "baseline_obligations.json")
    if not os.path.exists(p):
        return {}
    with open(p) as f:
        return json.load(f)


def match_finding(findings, prop, name=None, key=None):
    for f in findings:
        if f.get("property") != prop or f.get("status") != "known":
            continue
        if name is not None and f.get("obligation") and re.fullmatch(f["obligation"], name):
            return f
        if key is not None and f.get("bounded_key") and re.fullmatch(f["bounded_key"], key):
            return f
    return None


def sanitize(s):
    return re.sub(r"[^A-Za-z0-9_.\-\[\]=|]+", "_", s)[:150]


def write_replay(prop, tag, payload):
    d = os.path.join(VERIF, "replays")
    os.makedirs(d, exist_ok=True)
    path = os.path.join(d, "%s-%s.json" % (prop, sanitize(tag)))
    with open(path, "w") as f:
        json.dump(payload, f, indent=1, default=str)
    return path


def do_replay(prop, path):
    with open(path) as f:
        rp = json.load(f)
    nat = rp.get("native") or {}
    if "code" in nat:
        st, out = native_exec(nat["code"])
    elif "kind" in nat:
        st, out = bounded_replay(nat.get("suite", prop), {"kind": nat["kind"], "params": nat["params"]})
    else:
        print("replay file carries no native call (obligation %s): solver output only" % rp.get("obligation"))
        print(json.dumps(rp.get("solver", {}), indent=1)[:3000])
        return 2
    print(out)
    if st == "fail":
        print("VIOLATION property=%s replay=%s" % (prop, path))
        return 1
    return 0 if st == "pass" else 3


def check(prop, tier, seed):
    os.environ["PYVC_WORK"] = _work()      # scratch of the solvers (SMT-LIB files for cvc5): never /tmp
    t0 = time.time()
    entry = registry.PROPERTIES[prop]
    findings = load_findings()
    baseline = set(load_baseline().get(prop, []))
    ctx = harness.Context({prop}, tier=tier, seed=seed)
    frontend.reset_cache()
    gen_errors = []
    for modname in entry["modules"]:
        try:
            m = importlib.import_module("contracts." + modname)
            m.generate(ctx)
        except sym.Undecided as e:
            # a function of this module is outside what the front end can bring under contract on this tree
            ctx.undecided.append({"obligation": "contracts." + modname, "reason": "undecided: %s" % e})
        except Exception:
            gen_errors.append("%s: %s" % (modname, traceback.format_exc(limit=8)))
    obs = ctx.obligations
    timeout = 20 if tier == "quick" else 120
    t1 = time.time()
    results = smt.discharge(obs, timeout_s=timeout, seed=seed, cvc5_all=(tier == "thorough" and entry.get("cvc5_all", True)))
    solve_wall = time.time() - t1

    proofs = [(o, r) for o, r in zip(obs, results) if o.expect == "unsat" and not o.meta.get("bounded")]
    sym_bounded = [(o, r) for o, r in zip(obs, results) if o.expect == "unsat" and o.meta.get("bounded")]
    covers = [(o, r) for o, r in zip(obs, results) if o.expect == "sat"]
    discharged = [(o, r) for o, r in proofs if r["result"] == "unsat"]
    refuted = [(o, r) for o, r in proofs + sym_bounded if r["result"] == "sat"]
    unknown = [(o, r) for o, r in proofs + sym_bounded if r["result"] not in ("sat", "unsat")]
    cover_fail = [(o, r) for o, r in covers if r["result"] == "unsat"]
    disagree = [(o, r) for o, r in zip(obs, results) if r.get("disagreement")]

    lines = []
    violations = []
    known_hits = []
    undecided = list(ctx.undecided)
    checker_failures = list(gen_errors)

    # ---- bounded stand-in (never counted as proved)
    bounded_ev = []
    b = None
    if entry.get("bounded", True):
        b = run_bounded(prop, tier, seed)
    if b is not None:
        if "crash" in b:
            checker_failures.append("bounded suite crashed: " + b["crash"][-600:])
        else:
            bounded_ev.append({k: b[k] for k in ("what", "bound", "evaluations", "distinct_nontrivial",
                                                 "rule", "samples", "per_kind", "wall_s")})
            bounded_ev[-1]["failures"] = len(b["failures"])
            seen_keys = set()
            for fl in b["failures"]:
                kf = match_finding(findings, prop, key=fl["key"])
                if kf:
                    if fl["key"] not in seen_keys:
                        known_hits.append("KNOWN-FINDING: property=%s %s (bounded witness class %s)" %
                                          (prop, kf.get("witness", ""), fl["key"]))
                        seen_keys.add(fl["key"])
                    continue
                if fl["key"] in seen_keys:
                    continue
                seen_keys.add(fl["key"])
                path = write_replay(prop, "bounded-" + fl["key"], {
                    "property": prop, "obligation": "bounded:" + fl["key"], "kind": "bounded",
                    "native": {"suite": prop, "kind": fl["kind"], "params": fl["params"]},
                    "native_result": fl["detail"]})
                violations.append(("bounded:" + fl["key"], path, True))
            for er in b["errors"][:3]:
                checker_failures.append("bounded case crashed: %s %s\n%s" % (er["kind"], json.dumps(er["params"])[:300], er["traceback"][-800:]))

    if sym_bounded:
        bounded_ev.append({"what": "symbolic execution with the loops unrolled for a fixed small size (structure-independent complement of the loop-invariant proof)",
                           "bound": sorted({str(o.meta["bounded"]) for o, _ in sym_bounded})[0], "evaluations": len(sym_bounded),
                           "distinct_nontrivial": len({o.name for o, _ in sym_bounded}),
                           "rule": "one obligation per (path through the unrolled loops, slice); level values, orders, profiles, wavenumbers and states symbolic",
                           "samples": [o.name for o, _ in sym_bounded[:3]], "per_kind": {}, "wall_s": 0.0,
                           "failures": sum(1 for _, r in sym_bounded if r["result"] == "sat")})

    # ---- conformance of the index-level library contracts with the installed NumPy
    if entry.get("np_conformance"):
        try:
            pc = subprocess.run(["python3-vt", os.path.join(VERIF, "bounded", "np_conformance.py"), "--n", "8" if tier == "quick" else "60",
                                 "--seed", str(seed)], capture_output=True, text=True, timeout=1800, cwd=VERIF)
            cj = json.loads(pc.stdout.strip().splitlines()[-1])
            bounded_ev.append({"what": cj["what"], "bound": cj["bound"], "evaluations": cj["evaluations"],
                               "distinct_nontrivial": cj["distinct_nontrivial"], "rule": cj["rule"], "samples": [cj["per_kind"]],
                               "per_kind": cj["per_kind"], "wall_s": 0.0, "failures": cj["n_failures"]})
            if cj["n_failures"]:
                checker_failures.append("library contract does not match the installed NumPy: %s" % json.dumps(cj["failures"][:2])[:400])
        except Exception as e:
            checker_failures.append("np_conformance did not run: %r" % (e,))

    # ---- conformance of the DFT contract and the textbook lemmas D1-D5 on the real FFT layer
    if entry.get("dft_conformance"):
        try:
            pc = subprocess.run([NATIVE_PY, os.path.join(VERIF, "bounded", "dft_conformance.py"), "--max", "4" if tier == "quick" else "7"],
                                capture_output=True, text=True, timeout=1800, cwd=VERIF, env=dict(os.environ, PYTHONDONTWRITEBYTECODE="1"))
            cj = json.loads([l for l in pc.stdout.strip().splitlines() if l.startswith("{")][-1])
            bounded_ev.append({"what": cj["what"], "bound": cj["bound"], "evaluations": cj["evaluations"],
                               "distinct_nontrivial": cj["distinct_nontrivial"], "rule": cj["rule"], "samples": [cj["per_kind"]],
                               "per_kind": cj["per_kind"], "wall_s": 0.0, "failures": cj["n_failures"]})
            if cj.get("n_definition_failures"):
                # /repo's FFT layer (bldfm.fft_manager) does not compute the DFT sums the contract of fft2/ifft2
                # states (independent O(n^2) oracle): a native failing input of the real code for this property
                mx = "4" if tier == "quick" else "7"
                code = ("import subprocess, sys\np = subprocess.run([sys.executable, %r, '--max', %r, '--replay'], capture_output=True, text=True)\n"
                        "print(p.stdout[-1500:])\nraise SystemExit(1 if 'REPLAY-FAIL' in p.stdout else 0)\n"
                        % (os.path.join(VERIF, "bounded", "dft_conformance.py"), mx))
                path = write_replay(prop, "fft-layer-is-not-the-DFT-of-the-contract", {
                    "property": prop, "obligation": "fft_manager.fft2/ifft2:post:result-is-the-DFT-of-the-argument (bounded conformance)",
                    "kind": "post", "class": "bounded", "native": {"code": code}, "native_status": "fail",
                    "native_result": json.dumps(cj["failures"][:5])})
                violations.append(("fft-layer-conformance", path, True))
            elif cj["n_failures"]:
                checker_failures.append("DFT lemma does not hold on the installed FFT layer although the definitions do: %s" % json.dumps(cj["failures"][:2])[:400])
        except Exception as e:
            checker_failures.append("dft_conformance did not run: %r" % (e,))

    # ---- lemmas over the contracts that are checked by Lean 4 + Mathlib (thorough tier; they do not depend on /repo)
    lean_ev = None
    if entry.get("lean") and tier == "thorough":
        files = entry["lean"] if isinstance(entry["lean"], (list, tuple)) else [entry["lean"]]
        allowed = {"propext", "Classical.choice", "Quot.sound"}
        lean_ev = {"files": list(files), "backend": "lean 4 + Mathlib (kernel-checked)", "theorems": [], "axioms": sorted(allowed),
                   "accepted": True, "wall_s": 0.0}
        for rel in files:
            lf = os.path.join(VERIF, rel)
            t0 = time.time()
            try:
                lp = subprocess.run(["lean", lf], capture_output=True, text=True, timeout=3000, cwd=_work())
                out = (lp.stdout or "") + (lp.stderr or "")
                thms = re.findall(r"'([^']+)' depends on axioms: \[([^\]]*)\]", out)
                bad_ax = [(n_, a_) for n_, a_ in thms if not set(x.strip() for x in a_.split(",") if x.strip()) <= allowed]
                src = open(lf).read()
                ok = lp.returncode == 0 and not re.search(r"error:", out) and "sorryAx" not in out and not re.search(r"\bsorry\b", src) \
                    and thms and not bad_ax
                lean_ev["theorems"] += ["%s:%s" % (os.path.basename(rel), n_) for n_, _ in thms]
                lean_ev["wall_s"] = round(lean_ev["wall_s"] + time.time() - t0, 1)
                if not ok:
                    lean_ev["accepted"] = False
                    checker_failures.append("Lean rejected %s: %s" % (rel, out[-400:]))
            except Exception as e:
                lean_ev["accepted"] = False
                checker_failures.append("lean did not run on %s: %r" % (rel, e))

    # ---- refuted obligations: replay
    for o, r in refuted:
        kf = match_finding(findings, prop, name=o.name)
        if kf:
            known_hits.append("KNOWN-FINDING: property=%s %s (obligation %s)" % (prop, kf.get("witness", ""), o.name))
            continue
        native = None
        st, out = None, None
        if o.replay is not None:
            try:
                native = o.replay(r.get("model", {}))
            except Exception as e:
                native = None
                out = "replay construction failed: %r" % (e,)
            if native and "code" in native:
                st, out = native_exec(native["code"])
            elif native and "kind" in native:
                st, out = bounded_replay(native.get("suite", prop), {"kind": native["kind"], "params": native["params"]})
        payload = {"property": prop, "obligation": o.name, "kind": o.kind, "class": o.cls,
                   "where": o.where, "meta": o.meta,
                   "solver": {"result": r["result"], "backend": r.get("backend"), "time_s": r.get("time_s"),
                              "model": r.get("model", {})},
                   "native": native, "native_status": st, "native_result": out}
        found = st == "fail"
        if not found and o.meta.get("history_search"):
            hs = history_search(seed)
            if "crash" not in hs and hs.get("failures"):
                fl = hs["failures"][0]
                payload["native_search"] = {"suite": "C12", "focus": "near-twin call histories", "kind": fl["kind"], "params": fl["params"],
                                            "detail": fl["detail"], "evaluations": hs.get("evaluations")}
                payload["native"] = {"suite": "C12", "kind": fl["kind"], "params": fl["params"]}
                payload["native_status"], payload["native_result"] = "fail", fl["detail"]
                found = True
            else:
                payload["native_search"] = {"suite": "C12", "focus": "near-twin call histories", "evaluations": hs.get("evaluations"),
                                            "failures": 0, "crash": hs.get("crash")}
        if not found and b is not None and "crash" not in b and b["failures"]:
            # small-scope native search (DESIGN 2.2 step 3): the bounded family exhibits a failing
            # input of the real code for this property on this tree; it is the replayable witness
            fl = b["failures"][0]
            payload["native_search"] = {"suite": prop, "kind": fl["kind"], "params": fl["params"], "detail": fl["detail"]}
            if not (native and ("code" in native or "kind" in native)):
                payload["native"] = {"suite": prop, "kind": fl["kind"], "params": fl["params"]}
                payload["native_status"], payload["native_result"] = "fail", fl["detail"]
            found = True
        # (a) input-level refutation by an SMT model: a violation as such.
        # (b) sufficient-condition refutations (value view / exact-algebra procedures: the
        #     identity fails, which refutes only the proof attempt) and loop-invariant
        #     obligations: a violation only with a native failing input, or -- for
        #     post/xpost/frame/rel/lemma obligations -- when the obligation is in the committed
        #     baseline of obligations discharged on the reference tree (regression).
        premise = str(r.get("backend", "")).startswith(("valueview", "exact")) or o.view == "custom" \
            or o.cls in ("inductive", "premise")
        # structural obligations ("the path performs the expected number of opaque transforms"): when they fail the
        # contract cannot relate this path to the specification at all -- like a refuted invariant, never a
        # violation without a native failing input
        inv = o.kind.startswith("inv-") or bool(o.meta.get("structural"))
        payload["class"] = "premise" if premise else o.cls
        if found or (not premise and not inv) or (o.name in baseline and not inv):
            path = write_replay(prop, o.name, payload)
            violations.append((o.name, path, found))
        else:
            undecided.append({"obligation": o.name, "reason": "refuted proof step (%s) without native failing input and not a baseline regression: %s" % (
                ("structural premise of the contract" if o.meta.get("structural") else "loop invariant") if inv else "sufficient condition", json.dumps(r.get("value_failure", r.get("model", {})), default=str)[:300])})

    for o, r in unknown:
        undecided.append({"obligation": o.name, "reason": "solver: %s" % (r.get("reason") or r["result"])})
    if covers and len(cover_fail) == len(covers):
        checker_failures.append("vacuity: every cover is unreachable (contradictory preconditions?)")
    else:
        for o, r in cover_fail:
            # reachable on the reference tree (see baseline), unreachable now: part of the contract no
            # longer applies to this tree -- undecided, not an alarm
            undecided.append({"obligation": o.name, "reason": "cover unreachable on this tree"})
    for o, r in disagree:
        checker_failures.append("solver disagreement on %s" % o.name)
    floor = entry.get("floor", 1)
    if len(proofs) < floor and not gen_errors and not undecided:
        checker_failures.append("vacuity: %d obligations generated, floor is %d" % (len(proofs), floor))

    # ---- evidence
    from_code = sum(1 for o, r in discharged if o.cls != "lemma")
    samples = []
    for o, r in list(zip(obs, results))[:400]:
        if "smt2_head" in r and len(samples) < 3:
            samples.append({"obligation": o.name, "kind": o.kind, "result": r["result"],
                            "smt2_bytes": r.get("smt2_bytes"), "smt2_head": r["smt2_head"]})
    names_sample = [o.name for o, _ in proofs[:: max(1, len(proofs) // 12)]][:14]
    cov = {
        "obligations": len(proofs),
        "discharged": len(discharged),
        "discharged_from_code": from_code,
        "discharged_lemmas": len(discharged) - from_code,
        "refuted": len(refuted),
        "unknown": len(unknown),
        "covers": {"total": len(covers), "reachable": sum(1 for o, r in covers if r["result"] == "sat")},
        "paths_explored": ctx.paths,
        "checker_cmd": "cd /verif && ./check %s --tier %s" % (prop, tier),
        "trusted_base": sorted(set(entry.get("trusted", [])) | ctx.trusted),
        "functions_under_contract": list(ctx.functions.values()),
        "dropped_by_extraction": frontend.DROPPED,
        "backends": sorted({r.get("backend", "?") for r in results}) if results else [],
        "solver_time_s": round(sum(r.get("time_s", 0) for r in results), 3),
        "cvc5_recheck": {"checked": sum(1 for r in results if "cvc5" in r),
                         "agree": sum(1 for r in results if "cvc5" in r and r["cvc5"]["result"] == r["result"]),
                         "cvc5_unknown": sum(1 for r in results if "cvc5" in r and r["cvc5"]["result"] == "unknown"),
                         "disagree": sum(1 for r in results if r.get("disagreement"))},
        "solve_wall_s": round(solve_wall, 3),
        "vc_generation_s": round(ctx.gen_time, 3),
        "samples": samples + [{"obligation_names": names_sample}],
        "by_kind": {},
        "bounded": bounded_ev,
        "lean_lemmas": lean_ev,
        "undecided": undecided[:50],
        "known_findings_hit": known_hits,
        "explanation": entry.get("explanation", ""),
        "obligation_list": [{"name": o.name, "kind": o.kind, "class": o.cls, "result": r["result"],
                             "backend": r.get("backend"), "time_s": r.get("time_s")}
                            for o, r in zip(obs, results)][:8000],
    }
    for o, r in proofs:
        k = cov["by_kind"].setdefault(o.kind, {"n": 0, "discharged": 0})
        k["n"] += 1
        k["discharged"] += r["result"] == "unsat"
    if bounded_ev:
        cov["evaluations"] = sum(x["evaluations"] for x in bounded_ev)
        cov["distinct_nontrivial"] = sum(x["distinct_nontrivial"] for x in bounded_ev)
        cov["rule"] = "bounded stand-in only (never counted as proved): " + "; ".join(x["rule"] for x in bounded_ev)
    ev = {
        "property_id": prop, "tier": tier, "seed": seed, "level": entry["level"],
        "coverage": cov,
        "assumptions": sorted(set(entry.get("assumptions", [])) | ctx.assumptions),
        "wall_s": round(time.time() - t0, 3),
        "violations": len(violations),
    }
    # evidence describes a run against /repo itself; a development run pointed at a scratch copy (PYVC_REPO) must not
    # overwrite it
    evdir = os.path.join(VERIF, "evidence") if os.path.realpath(frontend.REPO) == "/repo" else os.path.join(_work(), "evidence-scratch")
    os.makedirs(evdir, exist_ok=True)
    with open(os.path.join(evdir, prop + ".json"), "w") as f:
        json.dump(ev, f, indent=1, default=str)

    # ---- report
    print("property %s tier=%s: %d obligations, %d discharged, %d refuted, %d unknown; covers %d/%d; "
          "paths %d; gen %.1fs solve %.1fs" % (prop, tier, len(proofs), len(discharged), len(refuted),
                                              len(unknown), cov["covers"]["reachable"], len(covers), ctx.paths,
                                              ctx.gen_time, solve_wall))
    for x in bounded_ev:
        print("bounded stand-in: %d cases (%d distinct non-trivial), %d failing, %.1fs" %
              (x["evaluations"], x["distinct_nontrivial"], x["failures"], x["wall_s"]))
    if lean_ev:
        print("lean lemmas over the contracts: %d theorems %s, %.1fs" % (len(lean_ev["theorems"]), "accepted" if lean_ev["accepted"] else "REJECTED", lean_ev["wall_s"]))
    for k in sorted(set(known_hits)):
        print(k)
    if checker_failures:
        for c in checker_failures[:10]:
            print("CHECKER-FAILURE property=%s %s" % (prop, c))
    for u in undecided[:20]:
        print("UNDECIDED property=%s obligation=%s reason=%s" % (prop, u["obligation"], str(u["reason"])[:300]))
    if violations:
        for name, path, found in violations[:25]:
            print("VIOLATION property=%s replay=%s%s" % (prop, path, "" if found else " no-failing-input-found"))
        shutil.rmtree(_work(), ignore_errors=True)
        return 1
    shutil.rmtree(_work(), ignore_errors=True)
    if checker_failures:
        return 3
    if undecided:
        # nothing explored violated the property, but part of the proof is undecided on this tree
        # (unsupported construct / solver budget).  Reported above and in the evidence; not an alarm.
        return 2 if os.environ.get("PYVC_STRICT") else 0
    return 0


def main():
    ap = argparse.ArgumentParser()
    ap.add_argument("prop")
    ap.add_argument("--tier", default=os.environ.get("VERIF_TIER", "quick"), choices=["quick", "thorough"])
    ap.add_argument("--seed", type=int, default=int(os.environ.get("VERIF_SEED", "0") or 0))
    ap.add_argument("--replay", default=None)
    a = ap.parse_args()
    os.chdir(VERIF)
    if a.prop == "--selfcheck" or a.prop == "selfcheck":
        return selfcheck()
    if a.replay:
        rc = do_replay(a.prop, a.replay)
        shutil.rmtree(_work(), ignore_errors=True)
        return rc
    if a.prop not in registry.PROPERTIES:
        print("unknown or unclaimed property %s" % a.prop)
        return 3
    try:
        return check(a.prop, a.tier, a.seed)
    except Exception:
        traceback.print_exc()
        shutil.rmtree(_work(), ignore_errors=True)
        return 3


def frontend_selftest():
    """The front end on a fixture module with known verdicts: comprehension over a symbolic range (callee precondition
    checked at a generic in-range index), accumulation loop without an invariant, the same with an off-by-one bound
    (must be refuted), dict comprehension over a symbolic sequence, augmented assignment to a slice."""
    import z3
    from . import engine as E, smt, sym as S, values as V, arrays as A, opaque as O, loops as L
    from .opaque import veq, Op
    FX = "pyvc.selftest.fixture"
    mi = frontend.ModInfo.__new__(frontend.ModInfo)
    path = os.path.join(VERIF, "pyvc", "selftest", "fixture.py")
    raw = open(path, "rb").read()
    import ast
    import hashlib
    mi.modname, mi.path, mi.sha256, mi.source = FX, path, hashlib.sha256(raw).hexdigest(), raw.decode()
    mi.tree, mi.lines = ast.parse(mi.source), mi.source.splitlines()
    frontend._cache[FX] = mi
    ctx = harness.Context({"self"})
    ns = harness.namespace(FX)
    fns = {q: harness.define(ctx, ns, FX, q) for q in ("series_comprehension", "series_append", "series_off_by_one", "table", "scale_in_place")}

    def thunk(run):
        run.props = {"self"}
        n = S.fresh_int("n")
        run.assume(n >= 0)
        cfg = Op("input.cfg", {})
        base = O.opaque_function(FX, "single")

        def single(c, i):
            run.oblige("index-in-range", (S.num(i) >= 0) & (S.num(i) < n), kind="call-pre")
            return base(c, i)
        ns["single"] = single
        want = V.SList(n, lambda i: base(cfg, i), name="spec")
        for q in ("series_comprehension", "series_append"):
            run.scope = q
            out = harness.call(run, fns[q], cfg, n)
            run.oblige("is-the-map", veq(out.value, want), kind="post")
        run.scope = "series_off_by_one"
        harness.call(run, fns["series_off_by_one"], cfg, n)
        run.scope = "table"
        nt = S.fresh_int("nt")
        run.assume(nt >= 0)
        I = z3.IntSort()
        towers = V.SList(nt, lambda k: V.Rec("tower", name=S.SStr(z3.Function("fx_name", I, S.SStr.sort())(S.num(k).z())), index=S.num(k)), name="towers")
        ns["single"] = base
        tb = harness.call(run, fns["table"], cfg, towers).value
        want_tb = V.SDict(nt, lambda k: towers.elem(k).name, lambda k: base(cfg, S.num(k)), name="spec")
        run.oblige("table-size", veq(tb, want_tb), kind="post")
        run.scope = "scale_in_place"
        m = S.fresh_int("m")
        run.assume(m >= 2)
        a = A.fresh_array("fx_a", [m], "float")
        k = S.fresh_real("fx_k")
        j = S.fresh_int("fx_j")
        a0 = a._s()
        r = harness.call(run, fns["scale_in_place"], a, k).value
        run.oblige("slice-updated", L.scalar_eq(r.at(j), S.ite(j >= 1, a0.at(j) - k, a0.at(j))), kind="post", view="value", assuming=[(j >= 0) & (j < m)])
        run.oblige("same-object", S.SBool(r is a), kind="post")
    try:
        obs = [o for r in E.Explorer(props={"self"}).explore(thunk) for o in r.obligations]
        res = smt.discharge(obs, timeout_s=10, jobs=2)
    finally:
        frontend._cache.pop(FX, None)
    got = {}
    for o, r in zip(obs, res):
        got.setdefault(o.name, set()).add(r["result"])
    bad = []
    for name, rs in got.items():
        want_sat = name.startswith("series_off_by_one") and "index-in-range" in name
        if (want_sat and "sat" not in rs) or (not want_sat and rs != {"unsat"}):
            bad.append((name, sorted(rs)))
    need = ["series_comprehension:post:is-the-map", "series_append:post:is-the-map", "series_off_by_one:call-pre:index-in-range", "table:post:table-size",
            "scale_in_place:post:slice-updated", "scale_in_place:post:same-object"]
    missing = [x for x in need if x not in got]
    print("front-end self-test: %d obligations, %s" % (len(obs), "verdicts as expected" if not bad and not missing else "UNEXPECTED %s missing %s" % (bad, missing)))
    return 3 if (bad or missing) else 0


def selfcheck():
    import z3
    print("z3", z3.get_version_string())
    x = z3.Int("x")
    s = z3.Solver()
    s.add(x > 0, x < 0)
    assert s.check() == z3.unsat
    # ---- the verifier on obligations with known verdicts (a pass that cannot fail proves nothing)
    from . import engine as E, smt, sym as S, loops as L, transc as T

    def thunk(run):
        x = S.fresh_real("x")
        y = x + 1 if x > 0 else -x          # forks on the symbolic condition
        run.oblige("true-post", y >= 0, kind="post")
        run.oblige("false-post", y > 1, kind="post")
        a, b = S.fresh_real("a"), S.fresh_real("b")
        run.oblige("identity", L.scalar_eq((a + b) * (a + b), a * a + 2 * a * b + b * b), kind="post", view="value")
        run.oblige("non-identity", L.scalar_eq((a + b) * (a + b), a * a + b * b), kind="post", view="value")
        run.oblige("log-exp", L.scalar_eq(T.log(T.exp(a)), a), kind="post", view="value")
        run.cover("reachable")
        run.assume(x > 0)
        run.assume(x < 0)
        run.oblige("dead", S.SBool(True), kind="cover", expect="sat")
    obs = [o for r in E.Explorer(props={"self"}).explore(thunk) for o in r.obligations]
    res = smt.discharge(obs, timeout_s=10, jobs=2)
    got = {}
    for o, r in zip(obs, res):
        got.setdefault(o.name.split(":")[-1], set()).add(r["result"])
    want = {"true-post": {"unsat"}, "false-post": {"sat"}, "identity": {"unsat"}, "non-identity": {"sat"}, "log-exp": {"unsat"},
            "reachable": {"sat"}, "dead": {"unsat"}}
    bad = {k: (sorted(got.get(k, [])), sorted(v)) for k, v in want.items() if not (got.get(k) and (got[k] <= v if k != "false-post" else "sat" in got[k]))}
    print("verifier self-test: %d obligations, %s" % (len(obs), "verdicts as expected" if not bad else "UNEXPECTED %s" % bad))
    if bad:
        return 3
    rc = frontend_selftest()
    if rc:
        return rc
    c5 = subprocess.run(["/usr/bin/cvc5", "--version"], capture_output=True, text=True)
    print((c5.stdout or "cvc5 missing").splitlines()[0])
    ln = shutil.which("lean")
    print("lean:", ln or "missing (the thorough tier of C02-C07, C20 needs it)")
    p = subprocess.run([NATIVE_PY, "-c", "import bldfm, numpy; print('bldfm', bldfm.__file__, 'numpy', numpy.__version__)"],
                       capture_output=True, text=True, cwd=_work())
    print(p.stdout.strip(), p.stderr.strip()[-300:])
    shutil.rmtree(_work(), ignore_errors=True)
    return 0 if p.returncode == 0 else 3


if __name__ == "__main__":
    sys.exit(main())
