"""Fixture for `./check selfcheck`: small functions with known verdicts for the front-end features (never part of a
property check; not code of the repository)."""


def single(cfg, i):
    raise NotImplementedError("replaced by an uninterpreted function in the self-test")


def run_step(cfg, i):
    return single(cfg, i)


def series_comprehension(cfg, n):
    return [run_step(cfg, i) for i in range(n)]


def series_append(cfg, n):
    out = []
    for i in range(n):
        r = run_step(cfg, i)
        out.append(r)
    return out


def series_off_by_one(cfg, n):
    out = []
    for i in range(n + 1):
        out.append(run_step(cfg, i))
    return out


def table(cfg, towers):
    return {t.name: single(cfg, t.index) for t in towers}


def scale_in_place(a, k):
    a[1:] -= k
    return a
