"""Symbolic n-d arrays: shape (Num per axis) + element closure over index components.

An axis is either plain (size Num, one index component) or *masked* (the row-major
enumeration of the True cells of a 2-D boolean mask; two index components (j, i), which
callers must only evaluate where the mask is True).  Element closures are evaluated at
symbolic indices; NumPy's index operations only transform the index map.

Slices are copies here; the front end refuses code that writes through a slice alias (not
needed for the functions under contract).  A5/A3 apply.
"""
import z3

from . import sym
from .sym import Num, Cx, SBool, Undecided, num, sbool, ite, engine


class Axis:
    masked = False
    ncomp = 1

    def __init__(self, size):
        self.size = num(size)

    def same(self, o):
        return (not o.masked) and same_num(self.size, o.size)


class MAxis:
    masked = True

    def __init__(self, mask, count=None):
        self.mask = mask
        self.ncomp = mask.ndim
        if count is None:
            count = mask.count_true()
        self.size = num(count)

    def same(self, o):
        return o.masked and o.mask.mask_id == self.mask.mask_id


def same_num(a, b):
    a, b = num(a), num(b)
    if a.concrete and b.concrete:
        return a.t == b.t
    if a.concrete or b.concrete:
        pass
    else:
        if a.t.eq(b.t):
            return True
    return bool(a == b)  # forks / decides through the path condition


def _key(x):
    if isinstance(x, Num):
        return ("c", x.t) if x.concrete else ("z", x.t.get_id())
    if isinstance(x, int):
        return ("c", x)
    return ("o", id(x))


_MASK_IDS = [0]


class Arr:
    def __init__(self, axes, fn, dtype, name=None):
        self.axes = list(axes)
        self._fn = fn
        self.dtype = dtype
        self.name = name
        self._memo = {}
        self.mask_id = None
        self.true_count = None
        self.serial = sym.next_serial()

    def _s(self):
        """Snapshot of the current contents (derived arrays must not see later in-place stores)."""
        r = Arr(self.axes, self._fn, self.dtype, self.name)
        r._memo = self._memo
        r.mask_id, r.true_count = self.mask_id, self.true_count
        for k in ("inverse", "sorted_fact", "prefix_ghost", "_flat", "flat_of", "store_dtype"):
            if hasattr(self, k):
                setattr(r, k, getattr(self, k))
        return r

    # -- evaluation
    def at(self, *comps):
        comps = tuple(num(c) for c in comps)
        k = tuple(_key(c) for c in comps)
        hit = self._memo.get(k)
        if hit is not None:
            return hit[1]
        m = self._fn(*comps)
        if isinstance(m, (int, float)) and not isinstance(m, bool):
            m = Num(m)
        self._memo[k] = (comps, m)     # comps kept alive: z3 AST ids are reused after collection
        return m

    @property
    def ncomp(self):
        return sum(a.ncomp for a in self.axes)

    @property
    def shape(self):
        return tuple(a.size for a in self.axes)

    @property
    def ndim(self):
        return len(self.axes)

    @property
    def size(self):
        r = Num(1)
        for a in self.axes:
            r = r * a.size
        return r

    def __len__(self):
        s = self.axes[0].size
        if s.concrete:
            return int(s.t)
        raise Undecided("builtin len() of a symbolic array")

    def count_true(self):
        if self.true_count is not None:
            return self.true_count
        f = z3.Function("count_true_%d" % (self.mask_id or 0), z3.IntSort())
        return Num(f())

    def as_mask(self):
        if self.mask_id is None:
            # two boolean arrays whose shapes and element terms (at canonical index symbols) are syntactically the same are
            # the same mask: `wd[wd > 270] - 360` stored through `wd_wrapped[wd > 270]` evaluates the comparison twice
            sig = None
            try:
                if not any(a.masked for a in self.axes) and self.dtype == "bool":
                    cs = [Num(z3.Int("__mask_ix%d" % q)) for q in range(self.ndim)]
                    sig = (tuple(num(a.size).t.sexpr() if hasattr(num(a.size).t, "sexpr") else str(num(a.size).t) for a in self.axes),
                           sbool(self.at(*cs)).z().sexpr())
            except Exception:
                sig = None
            reg = getattr(engine(), "__dict__", {}).setdefault("mask_registry", {}) if sig is not None else None
            if reg is not None and sig in reg:
                self.mask_id = reg[sig]
            else:
                _MASK_IDS[0] += 1
                self.mask_id = _MASK_IDS[0]
                if reg is not None:
                    reg[sig] = self.mask_id
        return self

    def copy(self):
        return Arr(self.axes, self._fn, self.dtype, self.name)

    def havoc(self, base):
        nm = engine().fresh(base)
        return fresh_array(nm, [a.size for a in self.axes], self.dtype) if not any(a.masked for a in self.axes) \
            else fresh_like(nm, self)

    @property
    def real(self):
        if self.dtype != "complex":
            return self
        me = self._s()
        return Arr(self.axes, lambda *c: sym.cx(me.at(*c)).re, "float")

    @property
    def imag(self):
        return Arr(self.axes, lambda *c: sym.cx(self.at(*c)).im, "float")

    @property
    def T(self):
        if self.ndim != 2 or any(a.masked for a in self.axes):
            raise Undecided(".T on this array")
        return Arr([self.axes[1], self.axes[0]], lambda i, j: self.at(j, i), self.dtype)

    def ravel(self, order="C"):
        """Row-major flat view (order="C"); any other order is an opaque flat array.  Modelled through the ravel/reshape contract: the flat array
        is an uninterpreted function of the flat position, linked to its source (`flat_of`);
        reshape(src.shape) of an array with the same flat length is the inverse bijection."""
        if self.ndim == 1 and not self.axes[0].masked:
            return self
        if order != "C":
            return fresh_array(engine().fresh("flat_order_" + str(order)), [self.size], self.dtype)
        if getattr(self, "_flat", None) is None:
            if self.ndim == 2 and not any(a.masked for a in self.axes):
                # row-major: flat[c] = a[c // nx, c % nx]; only ever compared syntactically
                nx = self.axes[1].size
                src = self
                fl = Arr([Axis(self.size)], lambda c: src.at(c // nx, c % nx), self.dtype)
            else:
                raise Undecided("ravel of an array of rank %d" % self.ndim)
            fl.flat_of = self
            self._flat = fl
        return self._flat

    def reshape(self, *shape):
        if len(shape) == 1 and isinstance(shape[0], (tuple, list)):
            shape = tuple(shape[0])
        if self.ndim != 1:
            raise Undecided("reshape of n-d")
        if len(shape) == 1:
            if not same_num(shape[0], self.axes[0].size):
                raise ValueError("cannot reshape")
            return self
        tot = Num(1)
        for d in shape:
            tot = tot * num(d)
        engine().oblige("reshape-size-matches", tot == self.axes[0].size, kind="call-pre")
        r = Arr([Axis(d) for d in shape], None, self.dtype)
        r._flat = self
        r._fn = lambda *c: (_ for _ in ()).throw(Undecided("element of a reshaped array (use .ravel())"))
        return r

    def flatten(self):
        return self.ravel()

    def tolist(self):
        return self

    def tobytes(self):
        return Bytes("array", self)

    def __iter__(self):
        s = self.axes[0].size
        if s.concrete:
            return iter([self[k] for k in range(int(s.t))])
        raise Undecided("iteration over an array of symbolic length")

    # -- elementwise
    def _ew(self, o, op, rev=False, dtype=None):
        if isinstance(o, (list, tuple)):
            o = from_list(o)
        if not isinstance(o, Arr):
            a = self._s()
            dt = dtype or _promote(a.dtype, _scalar_dtype(o))

            def fn(*c):
                x = a.at(*c)
                return op(o, x) if rev else op(x, o)
            return Arr(a.axes, fn, dt)
        a, b = (o._s(), self._s()) if rev else (self._s(), o._s())
        axes, ma, mb = broadcast_axes(a.axes, b.axes)
        dt = dtype or _promote(a.dtype, b.dtype)

        def fn(*c):
            return op(a.at(*ma(c)), b.at(*mb(c)))
        return Arr(axes, fn, dt)

    def __add__(self, o):
        return self._ew(o, lambda x, y: x + y)

    def __radd__(self, o):
        return self._ew(o, lambda x, y: x + y, True)

    def __sub__(self, o):
        return self._ew(o, lambda x, y: x - y)

    def __rsub__(self, o):
        return self._ew(o, lambda x, y: x - y, True)

    def __mul__(self, o):
        return self._ew(o, lambda x, y: x * y)

    def __rmul__(self, o):
        return self._ew(o, lambda x, y: x * y, True)

    def __truediv__(self, o):
        r = self._ew(o, lambda x, y: x / y)
        if r.dtype in ("int", "bool"):
            r.dtype = "float"
        return r

    def __rtruediv__(self, o):
        r = self._ew(o, lambda x, y: x / y, True)
        if r.dtype in ("int", "bool"):
            r.dtype = "float"
        return r

    def __pow__(self, o):
        r = self._ew(o, lambda x, y: x ** y)
        if isinstance(o, (Num, int, float)) and num(o).pyfloat and r.dtype == "int":
            r.dtype = "float"
        return r

    def __rpow__(self, o):
        return self._ew(o, lambda x, y: x ** y, True)

    def _inplace(self, o, op):
        """NumPy's augmented assignment writes into the SAME array object (callers see it)."""
        self._refuse_view_store()
        r = op(self._s(), o)
        if len(r.axes) != len(self.axes) or not all(x.same(y) for x, y in zip(r.axes, self.axes)):
            raise ValueError("non-broadcastable output operand")
        engine().store_check(self.dtype, r.dtype)
        self._fn = r._fn
        self._memo = {}
        self.mutated = getattr(self, "mutated", 0) + 1
        sym.note_mutation(self)
        return self

    def __iadd__(self, o):
        return self._inplace(o, lambda a, b: a + b)

    def __isub__(self, o):
        return self._inplace(o, lambda a, b: a - b)

    def __imul__(self, o):
        return self._inplace(o, lambda a, b: a * b)

    def __itruediv__(self, o):
        return self._inplace(o, lambda a, b: a / b)

    def __neg__(self):
        me = self._s()
        return Arr(self.axes, lambda *c: -me.at(*c), self.dtype)

    def __abs__(self):
        me = self._s()
        return Arr(self.axes, lambda *c: abs(me.at(*c)), self.dtype)

    def __lt__(self, o):
        return self._ew(o, lambda x, y: x < y, dtype="bool")

    def __le__(self, o):
        return self._ew(o, lambda x, y: x <= y, dtype="bool")

    def __gt__(self, o):
        return self._ew(o, lambda x, y: x > y, dtype="bool")

    def __ge__(self, o):
        return self._ew(o, lambda x, y: x >= y, dtype="bool")

    def __eq__(self, o):
        return self._ew(o, lambda x, y: x == y, dtype="bool")

    def __ne__(self, o):
        return self._ew(o, lambda x, y: x != y, dtype="bool")

    def __hash__(self):
        return id(self)

    def __and__(self, o):
        return self._ew(o, lambda x, y: sbool(x) & sbool(y), dtype="bool")

    def __or__(self, o):
        return self._ew(o, lambda x, y: sbool(x) | sbool(y), dtype="bool")

    def __invert__(self):
        me = self._s()
        return Arr(self.axes, lambda *c: ~sbool(me.at(*c)), "bool")

    def __contains__(self, v):
        """`v in arr`  (1-D): exists k. arr[k] == v  -- as a fresh uninterpreted predicate
        constrained by the witnesses the contract supplies (membership facts)."""
        return engine().membership(self, v)

    def __format__(self, spec):
        return "<array>"

    def __repr__(self):
        return "Arr(%s, shape=%s, %s)" % (self.name, tuple(a.size.t for a in self.axes), self.dtype)

    def __bool__(self):
        raise Undecided("truth value of an array")

    # -- indexing
    def _plan(self, key):
        """Returns (new_axes, mapper, guards): mapper maps new comps -> old comps."""
        if not isinstance(key, tuple):
            key = (key,)
        n_explicit = 0
        for k in key:
            if k is Ellipsis or k is None:
                continue
            if isinstance(k, Arr) and k.dtype == "bool":
                n_explicit += k.ndim
            else:
                n_explicit += 1
        if any(k is Ellipsis for k in key):
            i = [k is Ellipsis for k in key].index(True)
            fill = self.ndim - n_explicit
            key = key[:i] + (slice(None),) * fill + key[i + 1:]
        else:
            key = key + (slice(None),) * (self.ndim - n_explicit)
        plan = []  # per old axis: ('fix', val) | ('map', new_axis, f) | ('mask', MAxis)
        new_axes = []
        ai = 0
        for k in key:
            if ai >= self.ndim and k is not None:
                raise IndexError("too many indices for array")
            if k is None:
                new_axes.append(Axis(1))
                plan.append(("new", len(new_axes) - 1))
                continue
            ax = self.axes[ai] if ai < self.ndim else None
            if isinstance(k, slice):
                if ax.masked:
                    if k.start is None and k.stop is None and k.step is None:
                        new_axes.append(ax)
                        plan.append(("keepmask", len(new_axes) - 1))
                        ai += 1
                        continue
                    raise Undecided("slicing a masked axis")
                if k.step is not None:
                    raise Undecided("slice step")
                lo, ln = slice_bounds(k, ax.size)
                new_axes.append(Axis(ln))
                plan.append(("map", len(new_axes) - 1, lo))
                ai += 1
            elif isinstance(k, Arr) and k.dtype == "bool":
                if ax.masked:
                    raise Undecided("mask on masked axis")
                # boolean mask consuming k.ndim plain axes
                for d in range(k.ndim):
                    if not same_num(self.axes[ai + d].size, k.axes[d].size):
                        raise IndexError("boolean index did not match indexed array")
                if k.ndim in (1, 2):
                    k.as_mask()
                    new_axes.append(MAxis(k))
                    plan.append(("mask2", len(new_axes) - 1, k.ndim))
                    ai += k.ndim
                else:
                    raise Undecided("mask rank")
            elif isinstance(k, Arr):
                if ax.masked or k.ndim != 1:
                    raise Undecided("fancy index form")
                new_axes.append(Axis(k.axes[0].size))
                plan.append(("fancy", len(new_axes) - 1, k, ax.size))
                ai += 1
            elif isinstance(k, (list,)):
                ka = from_list(k)
                new_axes.append(Axis(ka.axes[0].size))
                plan.append(("fancy", len(new_axes) - 1, ka, ax.size))
                ai += 1
            else:
                if ax.masked:
                    raise Undecided("scalar index on masked axis")
                k = num(k)
                if not k.is_int:
                    raise IndexError("only integers, slices ... are valid indices")
                if k.concrete and k.t < 0:
                    k = ax.size + k
                engine().index_check(k, ax.size)
                plan.append(("fix", k))
                ai += 1
        return new_axes, plan

    def _mapper(self, new_axes, plan):
        # offsets of the new axes' components
        offs = []
        o = 0
        for a in new_axes:
            offs.append(o)
            o += a.ncomp

        def m(c):
            out = []
            for p in plan:
                if p[0] == "fix":
                    out.append(p[1])
                elif p[0] == "map":
                    out.append(c[offs[p[1]]] + p[2])
                elif p[0] == "fancy":
                    out.append(num(p[2].at(c[offs[p[1]]])))
                elif p[0] in ("mask2", "keepmask"):
                    d = new_axes[p[1]].ncomp
                    out.extend(c[offs[p[1]]:offs[p[1]] + d])
            return tuple(out)
        return m

    def __getitem__(self, key):
        if isinstance(key, slice) and key.start is None and key.stop is None and key.step is not None \
                and num(key.step).concrete and num(key.step).t == -1 and self.ndim == 1 and not self.axes[0].masked:
            n = self.axes[0].size
            src = self
            r = Arr(self.axes, lambda k: src.at(n - 1 - k), self.dtype)
            r.view_of = self
            if getattr(self, "inverse", None) is not None:
                inv = self.inverse
                r.inverse = lambda c: n - 1 - inv(c)
            return r
        new_axes, plan = self._plan(key)
        m = self._mapper(new_axes, plan)
        for p in plan:
            if p[0] == "fancy":
                engine().fancy_index_check(p[2], p[3])
            pass
        if not new_axes:
            return self.at(*m(()))
        src = self._s()
        r = Arr(new_axes, lambda *c: src.at(*m(c)), self.dtype)
        if all(p[0] not in ("fancy", "mask2", "keepmask") for p in plan):
            # basic indexing: NumPy returns a VIEW; the model returns a snapshot, so a later in-place store through
            # the result would not reach this array -- such stores are refused (undecided) instead of mis-modelled
            r.view_of = self
        return r

    def _refuse_view_store(self):
        if getattr(self, "view_of", None) is not None:
            raise Undecided("in-place store through a view of another array (aliasing between arrays is outside the modelled subset)")

    def __setitem__(self, key, val):
        self._refuse_view_store()
        sym.note_mutation(self)
        new_axes, plan = self._plan(key)
        if len(plan) == 1 and plan[0][0] == "fancy" and getattr(plan[0][2], "inverse", None) is not None \
                and self.ndim == 1 and isinstance(val, Arr) and val.ndim == 1:
            # store through a PERMUTATION index array (argsort contract): every position is
            # written exactly once: new[c] = val[inverse(c)]
            idx = plan[0][2]
            if not same_num(idx.axes[0].size, self.axes[0].size) or not same_num(val.axes[0].size, self.axes[0].size):
                raise ValueError("shape mismatch in permutation store")
            engine().store_check(self.dtype, val.dtype)
            inv = idx.inverse
            self._fn = lambda c: val.at(inv(c))
            self._memo = {}
            return
        for p in plan:
            if p[0] in ("fancy", "new"):
                raise Undecided("fancy-index / newaxis store")
            pass
        old_fn = self._fn
        old = Arr(self.axes, old_fn, self.dtype)
        old._memo = self._memo
        if isinstance(val, (list, tuple)):
            val = from_list(val)
        if isinstance(val, Arr):
            # value must broadcast to new_axes (never the other way round)
            baxes, ma, mb = broadcast_axes(new_axes, val.axes)
            for x, y in zip(baxes, new_axes):
                if not x.same(y):
                    raise ValueError("could not broadcast input array into shape")
            if len(baxes) != len(new_axes):
                raise ValueError("could not broadcast input array into shape")
            getv = lambda c: val.at(*mb(c))  # noqa: E731
            vdt = val.dtype
        else:
            getv = lambda c: val  # noqa: E731
            vdt = _scalar_dtype(val)
        engine().store_check(self.dtype, vdt)
        # inverse map: for an old index tuple, is it selected, and which new comps?
        offs = []
        o = 0
        for a in new_axes:
            offs.append(o)
            o += a.ncomp
        nnew = o
        axes = self.axes

        def fn(*c):
            cond = SBool(True)
            newc = [None] * nnew
            pos = 0
            for p in plan:
                if p[0] == "fix":
                    cond = cond & (c[pos] == p[1])
                    pos += 1
                elif p[0] == "map":
                    ax = new_axes[p[1]]
                    k = c[pos] - p[2]
                    cond = cond & (k >= 0) & (k < ax.size)
                    newc[offs[p[1]]] = k
                    pos += 1
                elif p[0] == "mask2":
                    mk = new_axes[p[1]].mask
                    d = mk.ndim
                    cond = cond & sbool(mk.at(*c[pos:pos + d]))
                    for q in range(d):
                        newc[offs[p[1]] + q] = c[pos + q]
                    pos += d
                elif p[0] == "keepmask":
                    d = new_axes[p[1]].ncomp
                    for q in range(d):
                        newc[offs[p[1]] + q] = c[pos + q]
                    pos += d
            if cond.concrete:
                return getv(tuple(newc)) if cond.t else old.at(*c)
            return _cast(ite(cond, getv(tuple(newc)), old.at(*c)), self.dtype)
        self._fn = fn
        self._memo = {}


class Bytes:
    """Abstract byte string: injective image of its payload (A7)."""

    def __init__(self, kind, payload):
        self.kind, self.payload = kind, payload

    def encode(self):
        return self


def _cast(v, dtype):
    if dtype == "complex" and not isinstance(v, Cx):
        return sym.cx(v)
    return v


def _scalar_dtype(v):
    if isinstance(v, (Cx, complex)):
        return "complex"
    if isinstance(v, (SBool, bool)):
        return "bool"
    if isinstance(v, Num):
        return "float" if v.pyfloat else "int"
    if isinstance(v, int):
        return "int"
    return "float"


_ORDER = {"bool": 0, "int": 1, "float": 2, "complex": 3}


def _promote(a, b):
    return a if _ORDER[a] >= _ORDER[b] else b


def slice_bounds(k, n):
    """Python/NumPy clamping rules for a step-1 slice; returns (start, length)."""
    n = num(n)
    run = engine()

    def norm(v, default):
        if v is None:
            return default, True
        v = num(v)
        if v.concrete and n.concrete:
            t = v.t + n.t if v.t < 0 else v.t
            return Num(max(0, min(t, n.t))), True
        # in range already?
        if not run.feasible(sym.Not((v >= 0) & (v <= n)).z()):
            return v, True
        v2 = ite(v < 0, sym.smax(v + n, 0), sym.smin(v, n))
        return v2, False
    lo, _ = norm(k.start, Num(0))
    hi, _ = norm(k.stop, n)
    d = hi - lo
    if d.concrete:
        ln = Num(max(d.t, 0))
    elif not run.feasible((d < 0).z()):
        ln = d
    else:
        ln = sym.smax(d, 0)
    return lo, ln


def broadcast_axes(A, B):
    """Right-aligned broadcasting.  Returns (axes, map_a, map_b) where map_x maps result
    comps to operand comps.  Size mismatches raise ValueError like NumPy."""
    na, nb = len(A), len(B)
    n = max(na, nb)
    res = []
    spec = []  # per result axis: (how_a, how_b) with how in None | 'id' | 'zero'
    for k in range(n):
        a = A[na - n + k] if na - n + k >= 0 else None
        b = B[nb - n + k] if nb - n + k >= 0 else None
        if a is None:
            res.append(b)
            spec.append((None, "id"))
        elif b is None:
            res.append(a)
            spec.append(("id", None))
        elif a.masked or b.masked:
            if a.masked and b.masked and a.same(b):
                res.append(a)
                spec.append(("id", "id"))
            elif (not a.masked) and same_num(a.size, 1):
                res.append(b)
                spec.append(("zero", "id"))
            elif (not b.masked) and same_num(b.size, 1):
                res.append(a)
                spec.append(("id", "zero"))
            else:
                # a masked vector against a plain axis: sizes must agree numerically; NumPy
                # would then combine them position by position (row-major rank), which this
                # model does not express
                other = b if a.masked else a
                me = a if a.masked else b
                if same_num(me.size, other.size):
                    raise Undecided("masked vector combined with a plain axis of equal length")
                raise ValueError("operands could not be broadcast together")
        else:
            if same_num(a.size, b.size):
                res.append(a)
                spec.append(("id", "id"))
            elif same_num(a.size, 1):
                res.append(b)
                spec.append(("zero", "id"))
            elif same_num(b.size, 1):
                res.append(a)
                spec.append(("id", "zero"))
            else:
                raise ValueError("operands could not be broadcast together")
    offs = []
    o = 0
    for a in res:
        offs.append(o)
        o += a.ncomp

    def mk(which):
        def m(c):
            out = []
            for k, ax in enumerate(res):
                how = spec[k][which]
                if how is None:
                    continue
                if how == "id":
                    out.extend(c[offs[k]:offs[k] + ax.ncomp])
                else:
                    out.append(Num(0))
            return tuple(out)
        return m
    return res, mk(0), mk(1)


# ------------------------------------------------------------------------ constructors
def fresh_array(name, shape, dtype):
    """Input array: uninterpreted function(s) of the index."""
    shape = [num(s) for s in shape]
    dom = [z3.IntSort()] * len(shape)
    if dtype == "complex":
        fr = z3.Function(name + "_re", *(dom + [z3.RealSort()]))
        fi = z3.Function(name + "_im", *(dom + [z3.RealSort()]))
        fn = lambda *c: Cx(Num(fr(*[x.z() for x in c]), True), Num(fi(*[x.z() for x in c]), True))  # noqa: E731
    elif dtype == "float":
        f = z3.Function(name, *(dom + [z3.RealSort()]))
        fn = lambda *c: Num(f(*[x.z() for x in c]), True)  # noqa: E731
    elif dtype == "int":
        f = z3.Function(name, *(dom + [z3.IntSort()]))
        fn = lambda *c: Num(f(*[x.z() for x in c]), False)  # noqa: E731
    elif dtype == "bool":
        f = z3.Function(name, *(dom + [z3.BoolSort()]))
        fn = lambda *c: SBool(f(*[x.z() for x in c]))  # noqa: E731
    else:
        raise Undecided("dtype " + dtype)
    return Arr([Axis(s) for s in shape], fn, dtype, name=name)


def fresh_like(name, a):
    ncomp = a.ncomp
    dom = [z3.IntSort()] * ncomp
    if a.dtype == "complex":
        fr = z3.Function(name + "_re", *(dom + [z3.RealSort()]))
        fi = z3.Function(name + "_im", *(dom + [z3.RealSort()]))
        fn = lambda *c: Cx(Num(fr(*[x.z() for x in c]), True), Num(fi(*[x.z() for x in c]), True))  # noqa: E731
    elif a.dtype == "float":
        f = z3.Function(name, *(dom + [z3.RealSort()]))
        fn = lambda *c: Num(f(*[x.z() for x in c]), True)  # noqa: E731
    elif a.dtype == "int":
        f = z3.Function(name, *(dom + [z3.IntSort()]))
        fn = lambda *c: Num(f(*[x.z() for x in c]), False)  # noqa: E731
    else:
        f = z3.Function(name, *(dom + [z3.BoolSort()]))
        fn = lambda *c: SBool(f(*[x.z() for x in c]))  # noqa: E731
    return Arr(a.axes, fn, a.dtype, name=name)


def from_list(xs):
    xs = list(xs)
    if xs and isinstance(xs[0], (list, tuple, Arr)):
        raise Undecided("nested list -> array")
    vals = [x if isinstance(x, (Num, Cx, SBool)) else (sym.cx(x) if isinstance(x, complex) else num(x)) for x in xs]
    dt = "int"
    for v in vals:
        dt = _promote(dt, _scalar_dtype(v))

    def fn(k):
        if k.concrete:
            return vals[int(k.t)]
        r = vals[-1]
        for j in range(len(vals) - 2, -1, -1):
            r = ite(k == j, vals[j], r)
        return r
    return Arr([Axis(len(vals))], fn, dt)


def full(shape, value, dtype):
    if not isinstance(shape, (tuple, list)):
        shape = (shape,)
    return Arr([Axis(s) for s in shape], lambda *c: value, dtype)
