"""Fresh (havoced) values of the same kind as a given value."""
from fractions import Fraction

from . import sym
from .sym import Num, Cx, SBool, SStr


def havoc_like(v, base):
    from .frontend import UNBOUND
    from . import values
    if v is UNBOUND or v is None:
        return v
    if isinstance(v, bool):
        return sym.fresh_bool(base)
    if isinstance(v, int):
        return sym.fresh_int(base)
    if isinstance(v, (float, Fraction)):
        return sym.fresh_real(base)
    if isinstance(v, Num):
        return sym.fresh_real(base) if v.pyfloat else sym.fresh_int(base)
    if isinstance(v, Cx):
        return sym.fresh_cx(base)
    if isinstance(v, SBool):
        return sym.fresh_bool(base)
    if isinstance(v, SStr):
        return SStr.fresh(base)
    if hasattr(v, "havoc"):
        return v.havoc(base)
    if isinstance(v, tuple):
        return tuple(havoc_like(x, "%s_%d" % (base, i)) for i, x in enumerate(v))
    raise sym.Undecided("cannot havoc a %s" % type(v).__name__)
