"""pyvc engine: path exploration by re-execution, obligations, loop-invariant hooks.

The bodies of the repository's functions are extracted mechanically (frontend.py), compiled
and run by CPython on symbolic proxies.  A symbolic truth value used in `if`, `and`, `or`,
`in`, ... asks `Run.branch`, which follows the current decision prefix or forks.
"""
import sys
import time
import z3

from . import sym
from .sym import SBool, Num, Undecided, sbool


class Obligation:
    __slots__ = ("name", "kind", "props", "pc", "goal", "cls", "expect", "meta", "where",
                 "hyps", "view", "replay", "custom")

    def __init__(self, name, kind, goal, pc, props=(), cls="input", expect="unsat", meta=None,
                 where=None, hyps=(), view="smt", replay=None):
        self.name = name
        self.kind = kind
        self.goal = goal
        self.pc = list(pc)
        self.props = set(props)
        self.cls = cls          # 'input' | 'inductive' | 'premise' | 'lemma'
        self.expect = expect    # 'unsat' (goal valid under pc) | 'sat' (cover)
        self.meta = meta or {}
        self.where = where
        self.hyps = list(hyps)  # extra ground hypotheses (instantiated facts)
        self.view = view        # 'smt' | 'poly' (polynomial identity) | 'auto'
        self.replay = replay    # optional: callable(model_dict) -> {"suite","kind","params"}
        self.custom = None


class EndPath(Exception):
    """Terminates the current path normally (e.g. after a loop-body verification run)."""


class PathResult:
    def __init__(self, decisions, pc, outcome, value, obligations, notes):
        self.decisions = decisions
        self.pc = pc
        self.outcome = outcome  # 'return' | 'raise' | 'end' | 'undecided'
        self.value = value
        self.obligations = obligations
        self.notes = notes


class Run:
    """One execution along one decision prefix."""

    def __init__(self, explorer, prefix):
        self.explorer = explorer
        self.prefix = list(prefix)
        self.decisions = []
        self.pc = []
        self.obligations = []
        self.counter = {}
        self.solver = z3.Solver()
        self.solver.set("timeout", explorer.branch_timeout_ms)
        self.strings = {}
        self.notes = []
        self.scope = ""
        self.props = set(explorer.props)
        self.div_notes = []
        self.facts = []  # ground facts available as hypotheses for later obligations
        self.int_defs = []  # (k, x): k = int(x), x >= 0

    # ---- names
    def fresh(self, base):
        k = self.counter.get(base, 0)
        self.counter[base] = k + 1
        return "%s!%d" % (base, k) if k else base

    def string_literal(self, s):
        if s not in self.strings:
            c = z3.Const("str:" + s, sym.SStr.sort())
            for o in self.strings.values():
                self.assume(SBool(c != o))
            self.strings[s] = c
        return self.strings[s]

    def str_of(self, x):
        """str(x) for the cache key etc.: an injective-by-assumption UF per Python type."""
        S = sym.SStr.sort()
        if x is None:
            return sym.SStr(self.string_literal("None"))
        if isinstance(x, str):
            return sym.SStr(self.string_literal(x))
        if isinstance(x, Num):
            if x.pyfloat:
                return sym.SStr(z3.Function("str_float", z3.RealSort(), S)(x.zr()))
            return sym.SStr(z3.Function("str_int", z3.IntSort(), S)(x.z()))
        if isinstance(x, sym.SStr):
            return x
        raise Undecided("str() of %s" % type(x).__name__)

    # ---- path condition
    def assume(self, c):
        c = sbool(c)
        if c.concrete:
            if not c.t:
                # contradictory assumption: path is dead
                self.pc.append(z3.BoolVal(False))
                self.solver.add(z3.BoolVal(False))
            return
        self.pc.append(c.t)
        self.solver.add(c.t)

    def feasible(self, c):
        self.solver.push()
        self.solver.add(c)
        r = self.solver.check()
        self.solver.pop()
        return r != z3.unsat

    def branch(self, c):
        i = len(self.decisions)
        if i > self.explorer.max_depth:
            # a loop whose trip count is symbolic and that carries no contract (`while i < n`, recursion) unrolls
            # without end along the always-feasible side: give up on the whole exploration
            raise Undecided("more than %d decisions on one path (unbounded loop or recursion without a contract?)" % self.explorer.max_depth)
        if time.time() > self.explorer.deadline:
            raise Undecided("exploration budget of %d s exhausted" % self.explorer.budget_s)
        if i < len(self.prefix):
            d = self.prefix[i]
        else:
            ft = self.feasible(c)
            ff = self.feasible(z3.Not(c))
            if ft and ff:
                d = True
                self.explorer.push(self.decisions + [False])
            elif ft:
                d = True
            elif ff:
                d = False
            else:
                # dead path (pc itself infeasible): choose True, nothing to explore
                d = True
        self.decisions.append(d)
        self.pc.append(c if d else z3.Not(c))
        self.solver.add(self.pc[-1])
        return d

    def choice(self, label):
        """Non-semantic fork (both sides always explored), e.g. verify-body vs skip-loop."""
        i = len(self.decisions)
        if i < len(self.prefix):
            d = self.prefix[i]
        else:
            d = True
            self.explorer.push(self.decisions + [False])
        self.decisions.append(d)
        return d

    # ---- obligations
    def where(self):
        f = sys._getframe(1)
        while f is not None:
            fn = f.f_code.co_filename
            if fn.startswith("<pyvc:"):
                return "%s:%d" % (fn[6:-1], f.f_lineno)
            f = f.f_back
        return None

    def oblige(self, name, goal, kind="post", cls="input", expect="unsat", meta=None, props=None,
               hyps=(), view="smt", replay=None, assuming=()):
        goal = sbool(goal)
        if getattr(self, "quiet", 0) and kind == "call-pre":
            return None  # lazily re-evaluated element of an already checked mapped sequence
        full = (self.scope + ":" if self.scope else "") + kind + ":" + name
        pc = list(self.pc) + [sbool(a).z() for a in assuming] + [sbool(a).z() for a in getattr(self, "ctx_assuming", [])]
        ob = Obligation(full, kind, goal.z(), pc, props=props or self.props, cls=cls,
                        expect=expect, meta=dict(meta or {}), where=self.where(),
                        hyps=list(hyps) + list(self.facts), view=view, replay=replay)
        self.obligations.append(ob)
        return ob

    def oblige_custom(self, name, fn, kind="lemma", cls="input", props=None, meta=None):
        """Obligation decided by a dedicated exact procedure `fn() -> result dict` (runs in
        the pool), e.g. coefficient extraction on the step polynomial."""
        full = (self.scope + ":" if self.scope else "") + kind + ":" + name
        ob = Obligation(full, kind, z3.BoolVal(True), self.pc, props=props or self.props, cls=cls,
                        meta=dict(meta or {}), where=self.where(), view="custom")
        ob.replay = None
        ob.meta["custom"] = True
        ob.custom = fn
        self.obligations.append(ob)
        return ob

    def cover(self, name, meta=None):
        return self.oblige(name, SBool(True), kind="cover", expect="sat", meta=meta)

    # ---- array side conditions
    def index_check(self, k, size):
        c = (k >= 0) & (k < size)
        if c.concrete:
            if not c.t:
                raise IndexError("index out of bounds")
            return
        if not self.feasible(z3.Not(c.t)):
            self.inline_proved = getattr(self, "inline_proved", 0) + 1
            return
        self.oblige("index-in-range", c, kind="call-pre", cls="input")

    def fancy_index_check(self, idx, size):
        k = sym.fresh_int("fk")
        c = ((k >= 0) & (k < idx.axes[0].size)).implies((idx.at(k) >= 0) & (idx.at(k) < size))
        self.oblige("fancy-index-in-range", c, kind="call-pre", cls="input")

    def store_check(self, arr_dtype, val_dtype):
        order = {"bool": 0, "int": 1, "float": 2, "complex": 3}
        if order[val_dtype] > order[arr_dtype]:
            self.oblige("no-narrowing-store[%s<-%s]" % (arr_dtype, val_dtype), SBool(False),
                        kind="call-pre", cls="input")

    def membership(self, arr, v):
        raise Undecided("`x in array` (membership) is outside the modelled subset")

    def note_division(self, den):
        self.div_notes.append(den)

    def require_positive_divisor(self, b):
        if b.concrete:
            if b.t <= 0:
                raise Undecided("floor division by a non-positive constant")
            return
        # proved here, immediately: keeps later VCs free of this side condition
        if self.feasible((b <= 0).z()):
            raise Undecided("cannot show divisor positive at %s" % (self.where(),))


class Explorer:
    def __init__(self, props=(), branch_timeout_ms=4000, max_paths=400, max_depth=250, budget_s=600):
        self.props = props
        self.branch_timeout_ms = branch_timeout_ms
        self.work = []
        self.max_paths = max_paths
        self.max_depth = max_depth
        self.budget_s = budget_s
        self.deadline = time.time() + budget_s

    def push(self, prefix):
        self.work.append(prefix)

    def explore(self, thunk):
        """thunk(run) executes the function under contract and emits obligations.
        Returns the list of PathResult."""
        self.work = [[]]
        self.deadline = time.time() + self.budget_s
        results = []
        n = 0
        while self.work:
            prefix = self.work.pop()
            n += 1
            if n > self.max_paths:
                raise Undecided("path explosion (> %d paths)" % self.max_paths)
            run = Run(self, prefix)
            sym._ENGINE[0] = run
            try:
                try:
                    v = thunk(run)
                    out = "return"
                except EndPath:
                    v, out = None, "end"
            finally:
                sym._ENGINE[0] = None
            results.append(PathResult(run.decisions, run.pc, out, v, run.obligations, run.notes))
        return results


# --------------------------------------------------------------------------- loop hooks
class _Poison:
    """Value of a loop-assigned name the loop contract does not track: any use is undecided."""

    def _bad(self, *a, **k):
        raise Undecided("read of a loop-assigned variable that the loop contract does not track")

    __add__ = __radd__ = __sub__ = __rsub__ = __mul__ = __rmul__ = __truediv__ = __rtruediv__ = _bad
    __getitem__ = __setitem__ = __call__ = __bool__ = __iter__ = __len__ = __neg__ = __pow__ = _bad
    __lt__ = __le__ = __gt__ = __ge__ = _bad

    def __getattr__(self, k):
        raise Undecided("read of a loop-assigned variable that the loop contract does not track")

    def __repr__(self):
        return "POISON"


POISON = _Poison()


class LoopCtl:
    """Run-time side of a rewritten `for` loop.  The loop contract `spec` provides
         on_enter(ctl)            obligations at loop entry (inv-init)
         iter_state(ctl, i)       dict: state at the head of symbolic iteration i
         on_step(ctl, new_state)  obligations after one execution of the UNCHANGED body
         exit_state(ctl)          dict: state after the loop (iteration count n)
    Names assigned in the body but not returned by the contract are poisoned."""

    def __init__(self, run, ordinal, fname, spec, iterable, pre_state, inplace=()):
        from .arrays import Arr
        self.run = run
        self.spec = spec
        self.fname = fname
        self.ordinal = ordinal
        self.iterable = iterable
        # arrays the body only modifies in place: the contract sees a snapshot of the pre-loop contents (its closures may
        # refer to it), the object itself receives the summarised contents at loop exit (see final)
        self.inplace = set(inplace)
        self.orig = {}
        pre_state = dict(pre_state)
        for k in self.inplace:
            v = pre_state.get(k)
            if isinstance(v, Arr):
                self.orig[k] = v
                pre_state[k] = v._s()
        self.pre = pre_state
        self.alias = {}          # contract state name -> local name of the function (locals renamed by a refactoring)
        self._match_roles()
        self.n = iterable.length()
        self.cur = None
        self.i = None

    def label(self, s):
        return "%s.loop%d.%s" % (self.fname, self.ordinal, s)

    def _match_roles(self):
        """A contract names the components of the loop state after the locals of the reference tree.  When such a name is
        not a local of this function (pre-loop value unbound) but the loop works on locals the contract does not know,
        the components are matched BY ROLE: a local whose pre-loop value provably equals the contract's state at
        iteration 0 for that component (same kind and shape, elements equal at fresh indices) plays that component.
        Only an unambiguous match is taken; the invariant obligations are then generated as usual, so a wrong match could
        only make them fail (undecided), never pass."""
        from .frontend import UNBOUND
        from .arrays import Arr
        names = getattr(self.spec, "state_names", None)
        if not names:
            return
        missing = [c for c in names if self.pre.get(c, UNBOUND) is UNBOUND]
        if not missing:
            return
        free = [a for a, v in self.pre.items() if a not in names and v is not UNBOUND]
        try:
            st0 = self.spec.state_at(self, sym.Num(0))
        except Exception:
            st0 = {}
        run = self.run

        def same(x, y):
            if isinstance(x, Arr) and isinstance(y, Arr):
                if x.ndim != y.ndim or any(ax.masked or ay.masked for ax, ay in zip(x.axes, y.axes)):
                    return False
                cs = [sym.fresh_int("role_ix") for _ in range(x.ndim)]
                rng = sym.SBool(True)
                for c, ax, ay in zip(cs, x.axes, y.axes):
                    if not run.feasible(sym.sbool(ax.size == ay.size).z()) or run.feasible(sym.sbool(ax.size != ay.size).z()):
                        return False
                    rng = rng & (c >= 0) & (c < ax.size)
                from .loops import scalar_eq
                eq = scalar_eq(x.at(*cs), y.at(*cs))
                return not run.feasible(z3.And(sym.sbool(rng).z(), z3.Not(sym.sbool(eq).z())))
            if isinstance(x, Arr) or isinstance(y, Arr):
                return False
            try:
                from .loops import scalar_eq
                return not run.feasible(z3.Not(sym.sbool(scalar_eq(x, y)).z()))
            except Exception:
                return False
        for c in missing:
            if c not in st0:
                continue
            try:
                cands = [a for a in free if a not in self.alias.values() and same(self.pre[a], st0[c])]
            except Exception:
                cands = []
            if len(cands) == 1:
                self.alias[c] = cands[0]
        for c, a in self.alias.items():
            self.pre[c] = self.pre[a]
            if a in self.orig:
                self.orig[c] = self.orig[a]
        left = [c for c in missing if c not in self.alias]
        if left:
            # the contract speaks about a state component this function does not have under any name: it cannot summarise
            # this loop (never a verdict) -- found as a false alarm on a refactoring that renamed the marching state while
            # the step-extraction contract had no iteration-0 state to match roles with
            raise sym.Undecided("loop %d of %s: the contract's state component(s) %s are not locals of this function and no local plays "
                                "their role" % (self.ordinal, self.fname, ", ".join(left)))

    def iterate(self):
        run = self.run
        n = self.n
        if not n.concrete or n.t < 0:
            run.oblige(self.label("bound-nonneg"), n >= 0, kind="inv-init", cls="input")
        self.spec.on_enter(self)
        if run.choice("loop-body"):
            i = sym.fresh_int("i_L%d" % self.ordinal)
            self.i = i
            run.assume((i >= 0) & (i < n))
            self.cur = self.spec.iter_state(self, i)
            run.oblige(self.label("reach"), SBool(True), kind="cover", expect="sat")
            # frame of the loop: from here to step() every in-place modification is logged
            self.serial0 = sym.next_serial()
            run.mut_log = []
            yield self.iterable.item(i)
        # generator exhausted: control continues after the loop

    def _pick(self, st, names):
        from .frontend import UNBOUND
        out = []
        back = {a: c for c, a in self.alias.items()}
        for k in names:
            if k in back and back[k] in st:
                out.append(st[back[k]])
            elif k in st:
                out.append(st[k])
            elif self.pre.get(k, UNBOUND) is UNBOUND:
                out.append(POISON)
            else:
                out.append(POISON)
        return tuple(out)

    def state(self, names):
        return self._pick(self.cur, names)

    def _frame_check(self, new_state):
        """The contract summarises the loop by the values of the names its body assigns.  An object modified in
        place during the generic iteration must therefore be (part of) the state the contract handed out, be bound
        to one of those names afterwards, or have been created inside the iteration; anything else -- an array of
        the enclosing scope written through a nested function, say -- is an effect the summary would silently
        drop: the loop cannot be summarised by this contract (undecided, never a verdict)."""
        log, self.run.mut_log = (self.run.mut_log or []), None
        if not log:
            return
        tracked = []

        def collect(v, depth=0):
            if depth > 4:
                return
            tracked.append(v)
            if isinstance(v, (list, tuple)):
                for x in v:
                    collect(x, depth + 1)
            elif isinstance(v, dict):
                for x in v.values():
                    collect(x, depth + 1)
        for st in (self.cur or {}, new_state or {}):
            for v in st.values():
                collect(v)
        for obj in log:
            if getattr(obj, "serial", 0) > self.serial0:
                continue
            if any(obj is t for t in tracked):
                continue
            raise sym.Undecided("the body of loop %d of %s modifies in place an object (%s) that is not part of the state its "
                                "contract summarises" % (self.ordinal, self.fname, getattr(obj, "name", None) or type(obj).__name__))

    def step(self, new_state):
        for c, a in self.alias.items():
            if a in new_state:
                new_state = dict(new_state)
                new_state[c] = new_state[a]
        self._frame_check(new_state)
        self.spec.on_step(self, new_state)
        raise EndPath()

    def final(self, names):
        """State after the loop.  A name whose object the body only modifies IN PLACE (subscript store, augmented
        assignment: never rebound) still refers to the object it referred to before the loop: the summarised contents
        are written into that object, so every other reference to it (the caller's array, when the loop sits in a
        helper function) sees them, as in NumPy."""
        from .arrays import Arr
        st = dict(self.spec.exit_state(self))
        for k in names:
            pre, v = self.orig.get(k), st.get(k)
            if isinstance(pre, Arr) and isinstance(v, Arr) and v is not pre and pre.ndim == v.ndim:
                pre.axes, pre._fn = v.axes, v._fn
                pre._memo = {}
                pre.mutated = getattr(pre, "mutated", 0) + 1
                sym.note_mutation(pre)
                st[k] = pre
        return self._pick(st, names)


class RangeIter:
    def __init__(self, start, stop):
        self.start, self.stop = sym.num(start), sym.num(stop)

    def length(self):
        return self.stop - self.start

    def item(self, i):
        return self.start + i


class SeqIter:
    def __init__(self, seq, enum=False):
        self.seq = seq
        self.enum = enum

    def length(self):
        from .values import slen
        return slen(self.seq)

    def item(self, i):
        v = self.seq.elem(i) if hasattr(self.seq, "elem") else self.seq[i]
        return (i, v) if self.enum else v
