"""Exact algebra on the step matrix extracted from ivp_solver's loop body:
order conditions against exp(h.M) and the frame condition `step-reads`."""
from fractions import Fraction

import z3

from . import sym, valueview
from .sym import Num, Cx, num
from .valueview import Poly, RF


def _subst(entries, pairs):
    out = {}
    for k, v in entries.items():
        def s(t):
            t = num(t)
            if t.concrete:
                return t
            return Num(z3.substitute(t.t, *pairs), True)
        out[k] = Cx(s(v.re), s(v.im))
    return out


def _prep(spec, freeze=True):
    h = z3.Real("h_layer")
    pairs = []
    z1, z0 = num(spec["z1"]), num(spec["z0"])
    pairs.append((z1.t, z0.t + h))
    if freeze:
        for n in spec["here"]:
            a, b = num(spec["nxt"][n]), num(spec["here"][n])
            pairs.append((a.t, b.t))
    return _subst(spec["entries"], pairs), h


def _case(solver=None):
    s = solver or z3.Solver()
    return valueview.Case(s, {"queries": 0, "cases": 0, "atoms": 0})


def _by_cases(body, max_depth=8):
    """Runs body(case) -> result dict; `If` terms in the step (e.g. a floor max(Kz, eps)) are
    handled by case analysis on their conditions.  A refutation in any feasible case refutes."""
    s = z3.Solver()
    s.set("timeout", 5000)

    def rec(depth):
        try:
            return body(_case(s))
        except valueview.NeedSplit as ns:
            if depth >= max_depth:
                return {"result": "unknown", "reason": "too many case distinctions in the step"}
            worst = {"result": "unsat"}
            for c in (ns.cond, z3.Not(ns.cond)):
                s.push()
                s.add(c)
                feasible = s.check() != z3.unsat
                r = rec(depth + 1) if feasible else {"result": "unsat"}
                s.pop()
                if r["result"] == "sat":
                    r.setdefault("value_failure", {})["case"] = str(c)[:200]
                    return r
                if r["result"] != "unsat":
                    worst = r
            return worst
    return rec(0)


def _coeffs(case, term, hterm):
    """RF of `term` as {k: RF coefficient of h^k}; denominators must be free of h."""
    rf = case.norm(num(term).zr() if not num(term).concrete else z3.RealVal(str(num(term).t)))
    hrf = case.norm(hterm)
    (hm, _), = hrf.n.d.items()
    hatom = hm[0][0]
    if hatom in rf.d.atoms():
        raise valueview.GiveUp("denominator depends on the layer thickness")
    out = {}
    for m, c in rf.n.d.items():
        e = 0
        rest = []
        for a, ex in m:
            if a == hatom:
                e = ex
            else:
                rest.append((a, ex))
        p = out.setdefault(e, Poly())
        rest = tuple(rest)
        p.d[rest] = p.d.get(rest, 0) + c
    return {k: RF(Poly({m: c for m, c in p.d.items() if c != 0}), rf.d) for k, p in out.items()}


def _spec_entries(spec):
    H = spec["here"]
    lx, ly = spec["lx"], spec["ly"]
    T = -(H["Kx"] * lx ** 2 + H["Ky"] * ly ** 2) - Cx(0, 1) * H["u"] * lx - Cx(0, 1) * H["v"] * ly
    T = sym.cx(T)
    Kzi = Num(1) / H["Kz"]
    one, zero = Cx(1, 0), Cx(0, 0)
    half, sixth = Num(Fraction(1, 2)), Num(Fraction(1, 6))
    return {
        0: {"A": one, "B": zero, "C": zero, "D": one},
        1: {"A": zero, "B": Cx(-Kzi, 0), "C": T, "D": zero},
        2: {"A": -(T * Kzi) * half, "B": zero, "C": zero, "D": -(T * Kzi) * half},
        3: {"A": zero, "B": T * Kzi * Kzi * sixth, "C": -(T * T * Kzi) * sixth, "D": zero},
    }


def check_order(spec, order, e):
    sym._ENGINE[0] = sym._ENGINE[0] or _Dummy()
    return _by_cases(lambda case: _check_order(case, spec, order, e))


def _check_order(case, spec, order, e):
    entries, h = _prep(spec, freeze=True)
    want = _spec_entries(spec)[order][e]
    got = entries[e]
    bad = []
    for part, g, w in (("re", got.re, want.re), ("im", got.im, want.im)):
        co = _coeffs(case, g, h)
        c = co.get(order, RF(Poly()))
        wt = num(w)
        wrf = case.norm(wt.zr() if not wt.concrete else z3.RealVal(str(Fraction(wt.t))))
        if not c.equals(wrf):
            diff = c.n * wrf.d - wrf.n * c.d
            bad.append({"part": part, "code_coeff_terms": len(c.n.d), "spec_terms": len(wrf.n.d),
                        "residual": [(str(cf), [(case.atom_names.get(a[1], str(a)), ex) for a, ex in m])
                                     for m, cf in list(diff.d.items())[:5]]})
    if bad:
        # witness: all coefficients 1, the model of DESIGN 5/C05 (Kx=Ky=Kz=h=1, kx=-1, u=v=ky=0)
        return {"result": "sat", "model": {"order": order, "entry": e},
                "value_failure": {"detail": "h^%d coefficient of step entry %s differs from (h.M)^%d/%d!" % (order, e, order, order),
                                  "parts": bad}}
    return {"result": "unsat"}


ALLOWED_NEXT = True  # sampling a profile at node i+1 (inside the layer) is tolerated


def check_reads(spec):
    sym._ENGINE[0] = sym._ENGINE[0] or _Dummy()
    return _by_cases(lambda case: _check_reads(case, spec))


def _check_reads(case, spec):
    entries, h = _prep(spec, freeze=False)
    allowed_terms = [num(v).t for v in spec["here"].values()]
    if ALLOWED_NEXT:
        allowed_terms += [num(v).t for v in spec["nxt"].values()]
    allowed_terms += [num(spec["lx"]).t, num(spec["ly"]).t, h]
    allowed = set()
    for t in allowed_terms:
        allowed |= case.norm(t).n.atoms()
    bad = set()
    for k, v in entries.items():
        for part in (v.re, v.im):
            part = num(part)
            if part.concrete:
                continue
            rf = case.norm(part.zr())
            for a in (rf.n.atoms() | rf.d.atoms()):
                if a not in allowed:
                    bad.add(case.atom_names.get(a[1], str(a)))
    if bad:
        bad = sorted(bad)
        return {"result": "sat", "model": {"reads": bad[:6]},
                "value_failure": {"detail": "step matrix of layer i reads %s (allowed: profiles at nodes i/i+1, "
                                            "z[i+1]-z[i], the mode's wavenumbers)" % ", ".join(bad[:6])}}
    return {"result": "unsat"}


class _Dummy:
    def note_division(self, d):
        pass

    def fresh(self, b):
        return b

    def require_positive_divisor(self, b):
        pass


# ---------------------------------------------------------------------- symmetries (C07)
def _sub(entries, pairs):
    return _subst(entries, pairs)


def check_symmetry(spec, which):
    """Relational identities on the EXTRACTED step matrix (frozen coefficients):
       mirror-x:  Step(lx, u)            == Step(-lx, -u)
       mirror-y:  Step(ly, v)            == Step(-ly, -v)
       swap:      Step(lx,ly,u,v,Kx,Ky)  == Step(ly,lx,v,u,Ky,Kx)
       length:    Step(lx/s, ly/s, s*h, s*K) == Step(lx, ly, h, K)
       speed:     Step(c*u, c*v, c*K) == D^-1 Step D,  D = diag(c, 1)"""
    sym._ENGINE[0] = sym._ENGINE[0] or _Dummy()
    return _by_cases(lambda case: _check_symmetry(case, spec, which))


def _check_symmetry(case, spec, which):
    entries, h = _prep(spec, freeze=True)
    H = {k: num(v).t for k, v in spec["here"].items()}
    lx, ly = num(spec["lx"]).t, num(spec["ly"]).t
    s = z3.Real("s_scale")
    if which == "mirror-x":
        pairs = [(lx, -lx), (H["u"], -H["u"])]
    elif which == "mirror-y":
        pairs = [(ly, -ly), (H["v"], -H["v"])]
    elif which == "swap":
        pairs = [(lx, ly), (ly, lx), (H["u"], H["v"]), (H["v"], H["u"]), (H["Kx"], H["Ky"]), (H["Ky"], H["Kx"])]
    elif which == "length":
        pairs = [(lx, lx / s), (ly, ly / s), (h, s * h)] + [(H[k], s * H[k]) for k in ("Kx", "Ky", "Kz")]
    elif which == "speed":
        pairs = [(H[k], s * H[k]) for k in ("u", "v", "Kx", "Ky", "Kz")]
    else:
        raise ValueError(which)
    other = _sub(entries, pairs)
    case.s.add(s > 0)
    sc = Cx(Num(s, True), 0)
    want = dict(entries)
    if which == "speed":
        want = {"A": entries["A"], "B": entries["B"] / sc, "C": entries["C"] * sc, "D": entries["D"]}
    bad = []
    for e in "ABCD":
        for part in ("re", "im"):
            a = num(getattr(other[e], part))
            b = num(getattr(want[e], part))
            ra = case.norm(a.zr() if not a.concrete else z3.RealVal(str(Fraction(a.t))))
            rb = case.norm(b.zr() if not b.concrete else z3.RealVal(str(Fraction(b.t))))
            if not ra.equals(rb):
                bad.append(e + "." + part)
    if bad:
        return {"result": "sat", "model": {"symmetry": which, "entries": bad},
                "value_failure": {"detail": "step matrix is not invariant under %s in entries %s" % (which, bad)}}
    return {"result": "unsat"}
