"""The `np` / `numpy.fft` / fft_manager names as seen by the extracted repository code.

Index-level operations (pad, shifts, fftfreq, meshgrid, linspace, squeeze, ...) are modelled
exactly on index maps (their conformance against NumPy is tested natively in
bounded/np_conformance.py).  Transforms (fft2/ifft2) are OPAQUE: a fresh uninterpreted
function per call, recorded with its operand, direction and normalisation; the DFT lemmas
D1-D5 of DESIGN section 3.2 connect them to the user-level statements.
"""
import z3

from . import sym, arrays, transc
from .sym import Num, Cx, SBool, Undecided, num, sbool, ite, engine
from .arrays import Arr, Axis, MAxis, same_num


class _DType:
    def __init__(self, name, kind):
        self.name, self.kind = name, kind

    def __repr__(self):
        return "dtype(%s)" % self.name


complex128 = _DType("complex128", "complex")
complex64 = _DType("complex64", "complex")
float64 = _DType("float64", "float")
float32 = _DType("float32", "float")
int64 = _DType("int64", "int")
bool_ = _DType("bool", "bool")


def _kind(dtype, default="float"):
    if dtype is None:
        return default
    if isinstance(dtype, _DType):
        return dtype.kind
    if dtype is bool:
        return "bool"
    if dtype is float:
        return "float"
    if dtype is int:
        return "int"
    if dtype is complex:
        return "complex"
    from . import values
    m = {values.s_float: "float", values.s_int: "int", values.s_bool: "bool"}
    if dtype in m:
        return m[dtype]
    if isinstance(dtype, str) and dtype in ("bool", "int", "float", "complex"):
        return dtype          # `other.dtype` of a modelled array
    raise Undecided("dtype %r" % (dtype,))


def _zero(kind):
    return {"complex": Cx(0, 0), "float": Num(0, True), "int": Num(0), "bool": SBool(False)}[kind]


def _one(kind):
    return {"complex": Cx(1, 0), "float": Num(1, True), "int": Num(1), "bool": SBool(True)}[kind]


def _shape(shape):
    if isinstance(shape, (tuple, list)):
        return [num(s) for s in shape]
    return [num(shape)]


class NP:
    """Namespace object bound to the name `np`."""
    complex128 = complex128
    complex64 = complex64
    float64 = float64
    float32 = float32
    int64 = int64
    intp = int64            # index-sized integers: the width is not modelled (A3)
    int32 = int64
    int_ = int64
    float_ = float64
    double = float64
    bool_ = bool_
    newaxis = None

    def __init__(self):
        self.pi = transc.PI()
        self.nan = Num(z3.Real("nan"), True)
        self.fft = FFTMod()

    # ---- construction
    def zeros(self, shape, dtype=None):
        k = _kind(dtype)
        a = arrays.full(_shape(shape), _zero(k), k)
        a.store_dtype = getattr(dtype, "name", None)
        return a

    def broadcast_shapes(self, *shapes):
        """np.broadcast_shapes: axis by axis (right-aligned) the sizes must be equal or 1; ValueError otherwise.  Sizes may
        be symbolic: each comparison is a decision of the current run."""
        shp = [tuple(s_) if isinstance(s_, (tuple, list)) else (s_,) for s_ in shapes]
        nd = max([len(s_) for s_ in shp] or [0])
        out = []
        for ax in range(nd):
            cur = Num(1)
            for s_ in shp:
                j = len(s_) - nd + ax
                if j < 0:
                    continue
                d = num(s_[j])
                if bool(d == cur):
                    continue
                if bool(cur == 1):
                    cur = d
                elif bool(d == 1):
                    pass
                else:
                    raise ValueError("shape mismatch: objects cannot be broadcast to a single shape")
            out.append(cur if not cur.concrete else int(cur.t))
        return tuple(out)

    def result_type(self, *args):
        # kind-level promotion (bool < int < float < complex); the storage width is not modelled (A1)
        order = ["bool", "int", "float", "complex"]
        ks = []
        for a in args:
            if isinstance(a, _DType):
                ks.append(a.kind)
            elif isinstance(a, str) and a in order:
                ks.append(a)
            elif isinstance(a, Arr):
                ks.append(a.dtype)
            else:
                ks.append(_kind(a))
        k = max(ks, key=order.index)
        return _DType({"bool": "bool", "int": "int64", "float": "float64", "complex": "complex128"}[k], k)

    def logical_and(self, a, b):
        return self.asarray(a) & self.asarray(b) if isinstance(a, Arr) or isinstance(b, Arr) else sbool(a) & sbool(b)

    def logical_or(self, a, b):
        return self.asarray(a) | self.asarray(b) if isinstance(a, Arr) or isinstance(b, Arr) else sbool(a) | sbool(b)

    def logical_not(self, a):
        return ~self.asarray(a) if isinstance(a, Arr) else ~sbool(a)

    def empty(self, shape, dtype=None):
        # uninitialised contents: a fresh array (nothing is known about the values)
        k = _kind(dtype)
        return arrays.fresh_array(engine().fresh("empty"), _shape(shape), k)

    def atleast_1d(self, x):
        x = self.asarray(x) if not isinstance(x, (Num, Cx, int, float)) else x
        if isinstance(x, Arr):
            return x
        return arrays.from_list([x])

    def full(self, shape, fill_value, dtype=None):
        # NumPy: without dtype the array takes the type of the fill value (np.full(n, 400) is an integer array)
        v = fill_value
        if dtype is None:
            k = "complex" if isinstance(v, (Cx, complex)) else ("bool" if isinstance(v, (bool, SBool)) else
                                                               ("int" if (isinstance(v, int) or (isinstance(v, Num) and v.is_int)) else "float"))
        else:
            k = _kind(dtype)
        v = sym.cx(v) if k == "complex" else (v if k == "bool" else num(v))
        return arrays.full(_shape(shape), v, k)

    def ones(self, shape, dtype=None):
        k = _kind(dtype)
        a = arrays.full(_shape(shape), _one(k), k)
        if k == "bool":
            a.true_count = a.size
        return a

    def zeros_like(self, a, dtype=None):
        a = self.asarray(a)
        k = _kind(dtype, a.dtype)
        return Arr(a.axes, lambda *c: _zero(k), k)

    def empty_like(self, a, dtype=None):
        a = self.asarray(a)
        k = _kind(dtype, a.dtype)
        nm = engine().fresh("empty")
        r = arrays.fresh_like(nm, Arr(a.axes, None, k))
        return r

    def ones_like(self, a, dtype=None):
        a = self.asarray(a)
        k = _kind(dtype, a.dtype)
        return Arr(a.axes, lambda *c: _one(k), k)

    def array(self, x, dtype=None):
        if isinstance(x, Arr):
            return x.copy()
        if isinstance(x, (Num, Cx)):
            return x
        if isinstance(x, (list, tuple)):
            return arrays.from_list(x)
        return num(x)

    def asarray(self, x, dtype=None):
        if isinstance(x, Arr):
            return x
        return self.array(x)

    def copy(self, a):
        return a.copy() if isinstance(a, Arr) else a

    def ndim(self, x):
        if isinstance(x, Arr):
            return x.ndim
        if isinstance(x, (list, tuple)):
            return 1
        from .values import SList
        if isinstance(x, SList):
            return 1
        return 0

    def shape(self, x):
        return x.shape if isinstance(x, Arr) else ()

    def diff(self, a):
        if a.ndim != 1:
            raise Undecided("diff of n-d")
        n = a.axes[0].size
        return Arr([Axis(n - 1)], lambda k: a.at(k + 1) - a.at(k), a.dtype)

    def linspace(self, start, stop, n, endpoint=True):
        start, stop, n = num(start), num(stop), num(n)
        if endpoint:
            step = (stop - start) / (n - 1)
        else:
            step = (stop - start) / n
        return Arr([Axis(n)], lambda k: start + k * step, "float")

    def arange(self, start, stop=None, step=1):
        """np.arange(a, b, s): ceil((b-a)/s) elements a + k*s (A2).  The length is an uninterpreted
        function of the arguments (congruence across calls); its defining fact is kept in run.arange_defs."""
        run = engine()
        if stop is None:
            start, stop = Num(0), start
        a, b, s_ = num(start), num(stop), num(step)
        R = z3.RealSort()
        N = Num(z3.Function("arange_len", R, R, R, z3.IntSort())(a.zr(), b.zr(), s_.zr()))
        run.assume(N >= 0)
        run.__dict__.setdefault("arange_defs", []).append((N, a, b, s_))
        return Arr([Axis(N)], lambda k: a + k * s_, "float")

    def _opaque_pred(self, name, *args):
        run = engine()
        return sym.fresh_bool(name)

    def allclose(self, a, b, rtol=1e-05, atol=1e-08, equal_nan=False):
        """Tolerance comparison: an uninterpreted predicate (both outcomes are explored)."""
        return self._opaque_pred("allclose")

    def isclose(self, a, b, rtol=1e-05, atol=1e-08, equal_nan=False):
        if isinstance(a, Arr) or isinstance(b, Arr):
            raise Undecided("np.isclose over arrays")
        return self._opaque_pred("isclose")

    def array_equal(self, a, b):
        return self._opaque_pred("array_equal")

    def unique(self, a, **kw):
        """Sorted distinct values: an opaque 1-D array (fresh length and elements)."""
        run = engine()
        nm = run.fresh("unique")
        n = sym.fresh_int("len_" + nm)
        run.assume(n >= 0)
        return arrays.fresh_array(nm, [n], a.dtype if isinstance(a, Arr) else "float")

    def meshgrid(self, *xs, indexing="xy"):
        xs = [self.asarray(x) for x in xs]
        if indexing == "xy" and len(xs) == 2:
            x, y = xs
            axes = [y.axes[0], x.axes[0]]
            return [Arr(axes, lambda j, i: x.at(i), x.dtype), Arr(axes, lambda j, i: y.at(j), y.dtype)]
        if indexing == "ij":
            axes = [x.axes[0] for x in xs]
            out = []
            for d, x in enumerate(xs):
                out.append(Arr(axes, (lambda d, x: lambda *c: x.at(c[d]))(d, x), x.dtype))
            return out
        raise Undecided("meshgrid form")

    def pad(self, a, widths, mode="constant", constant_values=0.0):
        if mode != "constant":
            raise Undecided("pad mode")
        cv = num(constant_values)
        if not (cv.concrete and cv.t == 0):
            raise Undecided("pad value")
        widths = [tuple(num(w) for w in ww) for ww in widths]
        if len(widths) != a.ndim or any(x.masked for x in a.axes):
            raise Undecided("pad rank")
        axes = [Axis(ax.size + lo + hi) for ax, (lo, hi) in zip(a.axes, widths)]
        z = _zero(a.dtype)
        sizes = [ax.size for ax in a.axes]

        def fn(*c):
            cond = SBool(True)
            inner = []
            for k, (lo, hi) in enumerate(widths):
                if lo.concrete and lo.t == 0 and hi.concrete and hi.t == 0:
                    inner.append(c[k])
                    continue
                j = c[k] - lo
                cond = cond & (j >= 0) & (j < sizes[k])
                inner.append(j)
            if cond.concrete:
                return a.at(*inner) if cond.t else z
            return ite(cond, a.at(*inner), z)
        return Arr(axes, fn, a.dtype)

    def squeeze(self, a):
        if not isinstance(a, Arr):
            return a
        keep = []
        for k, ax in enumerate(a.axes):
            if ax.masked or not same_num(ax.size, 1):
                keep.append(k)
        if len(keep) == a.ndim:
            return a
        offs = []
        o = 0
        for ax in a.axes:
            offs.append(o)
            o += ax.ncomp
        new_axes = [a.axes[k] for k in keep]

        def fn(*c):
            full = [Num(0)] * a.ncomp
            p = 0
            for k in keep:
                n = a.axes[k].ncomp
                full[offs[k]:offs[k] + n] = c[p:p + n]
                p += n
            return a.at(*full)
        if not new_axes:
            return a.at(*([Num(0)] * a.ncomp))
        return Arr(new_axes, fn, a.dtype)

    def where(self, c, a, b):
        c = c if isinstance(c, Arr) else None if False else c
        if isinstance(c, Arr) or isinstance(a, Arr) or isinstance(b, Arr):
            ca = c if isinstance(c, Arr) else arrays.full([], c, "bool")
            r = _ew3(ca, a, b)
            return r
        return ite(sbool(c), a, b)

    def sum(self, a, axis=None):
        """Total of an array: ghost Total(array identity); only equalities between totals of
        arrays proved elementwise equal are ever needed."""
        if axis is not None:
            raise Undecided("sum over an axis")
        run = engine()
        sums = run.__dict__.setdefault("sums", [])
        nm = "Total%d" % len(sums)
        val = Num(z3.Real(nm), True) if a.dtype != "complex" else Cx(Num(z3.Real(nm + "_re"), True), Num(z3.Real(nm + "_im"), True))
        sums.append((a, val))
        return val

    def cumsum(self, a):
        """cumsum(a)[r] = Prefix_a(r+1), Prefix(0) = 0, Prefix(r+1) = Prefix(r) + a[r] (ghost)."""
        if a.ndim != 1:
            raise Undecided("cumsum of n-d")
        run = engine()
        ghosts = run.__dict__.setdefault("prefix_ghosts", [])
        gid = len(ghosts)
        f = z3.Function("Prefix%d" % gid, z3.IntSort(), z3.RealSort())

        def prefix(r):
            r = num(r)
            if r.concrete and r.t == 0:
                return Num(0, True)
            return Num(f(r.z()), True)
        ghosts.append({"array": a, "prefix": prefix, "fn": f})
        n = a.axes[0].size

        def cum(r):
            # ghost recurrence instance at the index that is read
            run.assume(((r >= 0) & (r < n)).implies(prefix(r + 1) == prefix(r) + num(a.at(r))))
            return prefix(r + 1)
        out = Arr(a.axes, cum, "float" if a.dtype in ("int", "bool", "float") else a.dtype)
        out.prefix_ghost = ghosts[-1]
        return out

    def _truth(self, a, idx):
        v = a.at(*idx)
        if isinstance(v, SBool):
            return v
        if isinstance(v, Cx):
            return (v.re != 0) | (v.im != 0)
        return num(v) != 0

    def _quantified(self, a, which):
        """np.any / np.all of an array: a fresh truth value; the existential side is given by a witness cell
        (any true => a[w] is truthy; all false => a[w] is falsy), the universal side is recorded in
        run.quantified for contracts that instantiate it at a cell they name.  Over-approximation."""
        run = engine()
        if any(ax.masked for ax in a.axes):
            raise Undecided("np.%s over a masked array" % which)
        b = sym.fresh_bool(which)
        w = [sym.fresh_int("w_%s%d" % (which, k)) for k in range(a.ndim)]
        inr = sym.And(*[(x >= 0) & (x < ax.size) for x, ax in zip(w, a.axes)]) if w else SBool(True)
        t = self._truth(a, w)
        if which == "any":
            run.assume(b.implies(inr & t))
        else:
            run.assume(sym.Not(b).implies(inr & sym.Not(t)))
        run.__dict__.setdefault("quantified", []).append((which, a, b))
        return b

    def all(self, a, axis=None):
        if isinstance(a, Arr):
            if axis is not None:
                raise Undecided("np.all with an axis")
            return self._quantified(a, "all")
        return sbool(a)

    def any(self, a, axis=None):
        if isinstance(a, Arr):
            if axis is not None:
                raise Undecided("np.any with an axis")
            return self._quantified(a, "any")
        return sbool(a)

    def isscalar(self, a):
        return not isinstance(a, Arr)

    def minimum(self, a, b):
        if isinstance(a, Arr) or isinstance(b, Arr):
            a = a if isinstance(a, Arr) else arrays.full([], a, arrays._scalar_dtype(a))
            return a._ew(b, lambda p, q: sym.smin(p, q))
        return sym.smin(a, b)

    def maximum(self, a, b):
        if isinstance(a, Arr) or isinstance(b, Arr):
            a = a if isinstance(a, Arr) else arrays.full([], a, arrays._scalar_dtype(a))
            return a._ew(b, lambda p, q: sym.smax(p, q))
        return sym.smax(a, b)

    def _extremum(self, a, which):
        """np.max / np.min of a 1-D array (or scalar): a fresh value attained at a fresh witness index (recorded
        in run.extrema for contracts that want to instantiate the bound `a[k] <= m` at an index they name).
        Fewer facts than NumPy guarantees: an over-approximation (sound for proofs)."""
        run = engine()
        if not isinstance(a, Arr):
            if isinstance(a, (values.SList, list, tuple)):
                a = self.asarray(a)
            else:
                return num(a)
        if a.ndim != 1 or a.axes[0].masked:
            raise Undecided("np.%s of an n-d or masked array" % which)
        n = a.axes[0].size
        w = sym.fresh_int("arg%s" % which)
        run.assume((w >= 0) & (w < n))
        m = a.at(w)
        run.__dict__.setdefault("extrema", []).append((which, a, w, m))
        return m

    def max(self, a, axis=None):
        return self._extremum(a, "max")

    def min(self, a, axis=None):
        return self._extremum(a, "min")

    amax, amin = max, min

    def clip(self, a, lo, hi):
        return self.minimum(self.maximum(a, lo), hi)

    def argsort(self, a, axis=-1, kind=None):
        """A permutation pi of 0..n-1 with a[pi[r]] <= a[pi[r+1]] (tie order unspecified).
        Facts are supplied by instantiation: range and inverse at every evaluation, order at
        the indices a contract names (pi.sorted_fact)."""
        if a.ndim != 1:
            raise Undecided("argsort of n-d")
        run = engine()
        n = a.axes[0].size
        k0 = len(run.__dict__.setdefault("perms", []))
        pf = z3.Function("pi%d" % k0, z3.IntSort(), z3.IntSort())
        qf = z3.Function("pi%d_inv" % k0, z3.IntSort(), z3.IntSort())

        def pi(k):
            v = Num(pf(k.z()))
            run.assume(((k >= 0) & (k < n)).implies((v >= 0) & (v < n) & (Num(qf(v.z())) == k)))
            return v

        def inv(c):
            c = num(c)
            v = Num(qf(c.z()))
            run.assume(((c >= 0) & (c < n)).implies((v >= 0) & (v < n) & (Num(pf(v.z())) == c)))
            return v
        out = Arr([Axis(n)], pi, "int")
        out.inverse = inv
        out.sorted_fact = lambda r: ((num(r) >= 0) & (num(r) + 1 < n)).implies(num(a.at(out.at(num(r)))) <= num(a.at(out.at(num(r) + 1))))
        run.perms.append(out)
        return out

    def searchsorted(self, a, v, side="left"):
        """Least k with a[k] >= v (k = n if none); requires a non-decreasing."""
        if side not in ("left", "right"):
            raise Undecided("searchsorted side")
        run = engine()
        n = a.axes[0].size
        r = sym.fresh_int("sorted_at")
        run.oblige("searchsorted-argument-is-sorted", ((r >= 0) & (r + 1 < n)).implies(num(a.at(r)) <= num(a.at(r + 1))),
                   kind="call-pre")
        k = sym.fresh_int("ss")
        run.assume((k >= 0) & (k <= n))
        if side == "left":
            run.assume((k < n).implies(num(a.at(k)) >= num(v)))
            run.assume((k > 0).implies(num(a.at(k - 1)) < num(v)))
        else:
            run.assume((k < n).implies(num(a.at(k)) > num(v)))
            run.assume((k > 0).implies(num(a.at(k - 1)) <= num(v)))
        rec = run.__dict__.setdefault("searches", [])
        rec.append({"k": k, "a": a, "v": v, "side": side,
                    "below_fact": lambda t: ((num(t) >= 0) & (num(t) < k)).implies(num(a.at(num(t))) < num(v))})
        return k

    def real(self, a):
        return a.real

    def abs(self, a):
        return abs(a)

    # ---- elementwise transcendental (scalars or arrays)
    def _map(self, f, a, dtype=None):
        if isinstance(a, Arr):
            return Arr(a.axes, lambda *c: f(a.at(*c)), dtype or ("float" if a.dtype in ("int", "bool") else a.dtype))
        return f(a)

    def sqrt(self, a):
        return self._map(transc.sqrt, a)

    def exp(self, a):
        return self._map(transc.exp, a)

    def log(self, a):
        return self._map(transc.log, a)

    def sin(self, a):
        return self._map(transc.sin, a)

    def cos(self, a):
        return self._map(transc.cos, a)

    def arctan(self, a):
        return self._map(transc.arctan, a)

    def arctan2(self, y, x):
        if isinstance(y, Arr) or isinstance(x, Arr):
            y = y if isinstance(y, Arr) else arrays.full([], y, "float")
            return y._ew(x, lambda p, q: transc.arctan2(p, q), dtype="float")
        return transc.arctan2(y, x)

    def deg2rad(self, a):
        return self._map(lambda v: v * self.pi / 180, a)

    def rad2deg(self, a):
        return self._map(lambda v: v * 180 / self.pi, a)

    radians = deg2rad
    degrees = rad2deg

    def power(self, a, e, dtype=None):
        if dtype is not None and _kind(dtype) == "complex":
            return self._map(lambda v: transc.cpower(v, e), a, "complex")
        return self._map(lambda v: v ** e, a)


def _ew3(c, a, b):
    a = a if isinstance(a, Arr) else arrays.full([], a, arrays._scalar_dtype(a))
    b = b if isinstance(b, Arr) else arrays.full([], b, arrays._scalar_dtype(b))
    ab_axes, ma, mb = arrays.broadcast_axes(a.axes, b.axes)
    ab = Arr(ab_axes, lambda *x: (a.at(*ma(x)), b.at(*mb(x))), arrays._promote(a.dtype, b.dtype))
    axes, mc, mab = arrays.broadcast_axes(c.axes, ab.axes)

    def fn(*x):
        p, q = ab.at(*mab(x))
        return ite(sbool(c.at(*mc(x))), p, q)
    return Arr(axes, fn, ab.dtype)


# ----------------------------------------------------------------------------- FFT layer
class Transform:
    """Record of one opaque transform call."""

    def __init__(self, tid, op, norm, arg, result):
        self.tid, self.op, self.norm, self.arg, self.result = tid, op, norm, arg, result


def _transform(op, a, norm):
    run = engine()
    if not isinstance(a, Arr) or a.ndim < 2 or any(x.masked for x in a.axes):
        raise Undecided("transform operand")
    recs = run.__dict__.setdefault("transforms", [])
    tid = len(recs)
    nm = "T%d_%s" % (tid, op)
    res = arrays.fresh_array(nm, [x.size for x in a.axes], "complex")
    recs.append(Transform(tid, op, norm, a, res))
    return res


def fft2(a, norm="backward"):
    return _transform("fft2", a, norm)


def ifft2(a, norm="backward"):
    return _transform("ifft2", a, norm)


def _roll(a, shifts):
    """result[k] = a[(k - s) mod n] per axis, with 0 <= s <= n."""
    sizes = [ax.size for ax in a.axes]

    def fn(*c):
        src = []
        for k, s in enumerate(shifts):
            if s is None:
                src.append(c[k])
                continue
            n = sizes[k]
            d = c[k] - s
            src.append(ite(d < 0, d + n, d))
        return a.at(*src)
    return Arr(a.axes, fn, a.dtype)


def fftshift(a, axes=None):
    if any(x.masked for x in a.axes):
        raise Undecided("fftshift of masked")
    ax = range(a.ndim) if axes is None else [int(num(k).t) % a.ndim for k in (axes if isinstance(axes, (tuple, list)) else [axes])]
    return _roll(a, [a.axes[k].size // 2 if k in ax else None for k in range(a.ndim)])


def ifftshift(a, axes=None):
    if any(x.masked for x in a.axes):
        raise Undecided("ifftshift of masked")
    ax = range(a.ndim) if axes is None else [int(num(k).t) % a.ndim for k in (axes if isinstance(axes, (tuple, list)) else [axes])]
    # roll by -(n//2)  ==  roll by n - n//2
    return _roll(a, [a.axes[k].size - a.axes[k].size // 2 if k in ax else None for k in range(a.ndim)])


def fftfreq(n, d=1.0):
    n = num(n)
    d = num(d)
    half = (n - 1) // 2

    def fn(k):
        m = ite(k <= half, k, k - n)
        return m / (n * d)
    return Arr([Axis(n)], fn, "float")


class FFTMod:
    fftshift = staticmethod(fftshift)
    ifftshift = staticmethod(ifftshift)
    fftfreq = staticmethod(fftfreq)
    fft2 = staticmethod(fft2)
    ifft2 = staticmethod(ifft2)
