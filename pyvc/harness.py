"""Glue between contract modules and the engine."""
import dataclasses
import time
import traceback
import typing

from . import engine, frontend, sym, values
from .sym import Undecided, SBool

dc_field = dataclasses.field


class Outcome:
    def __init__(self, value=None, exc=None):
        self.value = value
        self.exc = exc

    @property
    def raised(self):
        return self.exc is not None


def exception_origin(e):
    """'repo' if the innermost frame of the traceback is extracted repository code."""
    tb = e.__traceback__
    last = None
    while tb is not None:
        last = tb
        tb = tb.tb_next
    if last is None:
        return "shim"
    fn = last.tb_frame.f_code.co_filename
    return "repo" if fn.startswith("<pyvc:") else "shim"


def call(run, fn, *a, raises=(), **kw):
    """Call repository code; exceptions of the classes in `raises` are outcomes; any other
    exception raised BY REPOSITORY CODE is reported as an `unexpected-exception` obligation
    failure on this path; exceptions from the shim make the path undecided."""
    GAP = (NameError, AttributeError, TypeError, NotImplementedError, RecursionError)
    try:
        return Outcome(value=fn(*a, **kw))
    except (engine.EndPath, Undecided):
        raise
    except raises as e:
        # a broad class in `raises` (Exception) must not turn a modelling gap into behaviour of the code: a gap
        # exception is an outcome only if the contract names that very class
        if isinstance(e, GAP) and not any(isinstance(e, r) and issubclass(r, GAP) for r in (raises if isinstance(raises, tuple) else (raises,))):
            raise Undecided("outside the modelled subset: %s: %s" % (type(e).__name__, str(e)[:200]))
        return Outcome(exc=e)
    except GAP as e:
        # overwhelmingly a construct outside the modelled subset (a name the harness does not
        # provide, an attribute/keyword a shim lacks): undecided, never a violation
        raise Undecided("outside the modelled subset: %s: %s" % (type(e).__name__, str(e)[:200]))
    except Exception as e:
        if exception_origin(e) == "repo":
            run.oblige("no-unexpected-exception[%s]" % type(e).__name__, SBool(False), kind="xpost",
                       meta={"exception": repr(e)[:200]})
            raise engine.EndPath()
        raise Undecided("shim raised %s: %s" % (type(e).__name__, str(e)[:200]))


def namespace(modname, **extra):
    ns = {"__builtins__": values.shim_builtins(), "__name__": modname}
    ns.update(frontend.base_namespace())
    ns.update({"dataclass": dataclasses.dataclass, "field": dataclasses.field,
               "List": typing.List, "Optional": typing.Optional, "Tuple": typing.Tuple,
               "Union": typing.Union, "Any": typing.Any, "functools": __import__("functools"),
               "cached_property": __import__("functools").cached_property})
    mod = frontend.module(modname)
    for k, (v, neg, txt) in mod.constants().items():
        if isinstance(v, float):
            val = sym.F(txt.replace("_", "").lstrip("-"))
            ns[k] = -val if neg else val
        elif isinstance(v, int):
            ns[k] = -v if neg else v
        else:
            ns[k] = v

    def _imp(module, name):
        key = (module.lstrip("."), name)
        imports = ns.get("__pyvc_imports__", {})
        if key in imports:
            return imports[key]
        if name is not None and name in imports:
            return imports[name]
        raise Undecided("import %s %s not provided by the harness" % (module, name))
    ns["__pyvc_import__"] = _imp
    ns["__pyvc_imports__"] = {}
    ns.update(extra)
    if "np" not in ns:       # a module that starts to use NumPy (module-level `import numpy as np`) gets the shim
        from . import npshim
        ns["np"] = ns["numpy"] = npshim.NP()
    return ns


MUTABLE_CALLS = {"dict", "list", "set", "defaultdict", "OrderedDict", "deque", "Counter", "WeakValueDictionary"}


_MUTATORS = {"append", "extend", "insert", "pop", "remove", "clear", "update", "setdefault", "popitem", "add", "discard", "sort",
             "reverse", "move_to_end", "appendleft", "popleft", "__setitem__", "__delitem__", "difference_update", "intersection_update"}


def _module_mutates(tree, name):
    """Does any code of the module store into / delete from / call a mutating method on / rebind as global the module-level
    container `name`?  (A one-slot memo written as `_last = [None]` or `_memo = {"key": None}` is non-empty AND mutated: it
    is mutable state, not a lookup table.)"""
    import ast

    def is_nm(x):
        return isinstance(x, ast.Name) and x.id == name
    for n in ast.walk(tree):
        if isinstance(n, ast.Global) and name in n.names:
            return True
        if isinstance(n, (ast.Subscript,)) and is_nm(n.value) and isinstance(n.ctx, (ast.Store, ast.Del)):
            return True
        if isinstance(n, ast.AugAssign) and ((isinstance(n.target, ast.Subscript) and is_nm(n.target.value)) or is_nm(n.target)):
            return True
        if isinstance(n, ast.Call) and isinstance(n.func, ast.Attribute) and is_nm(n.func.value) and n.func.attr in _MUTATORS:
            return True
    return False


def module_level_binding(modname, name):
    """('function'|'class', node) | ('constant', value) | ('mutable', kind) | None for a module-level name."""
    import ast
    mod = frontend.module(modname)
    for n in mod.tree.body:
        if isinstance(n, (ast.FunctionDef, ast.ClassDef)) and n.name == name:
            return ("function" if isinstance(n, ast.FunctionDef) else "class", n)
        targets = []
        if isinstance(n, ast.Assign):
            targets = [t.id for t in n.targets if isinstance(t, ast.Name)]
            val = n.value
        elif isinstance(n, ast.AnnAssign) and isinstance(n.target, ast.Name) and n.value is not None:
            targets, val = [n.target.id], n.value
        if name in targets:
            if isinstance(val, (ast.Dict, ast.List, ast.Set)) and (getattr(val, "keys", None) or getattr(val, "elts", None)) \
                    and not _module_mutates(mod.tree, name):
                # a NON-EMPTY literal display is a lookup table (defaults, dispatch): it has the contents the module gives
                # it (memos and registries start empty).  Refactoring R_C13_1 reads the parser defaults from such tables;
                # starting them empty made every parsed field "differ" -- a false alarm of the C13 / C16 / C08 checks.
                return ("other", None)
            if isinstance(val, (ast.Dict, ast.List, ast.Set, ast.ListComp, ast.DictComp, ast.SetComp)):
                return ("mutable", type(val).__name__)
            if isinstance(val, ast.Call):
                f = val.func
                fn = f.id if isinstance(f, ast.Name) else (f.attr if isinstance(f, ast.Attribute) else "")
                if fn in MUTABLE_CALLS:
                    return ("mutable", fn)
                return ("call", fn)
            if isinstance(val, ast.Constant):
                return ("constant", val.value)
            return ("other", None)
    return None


SAFE_STDLIB = ("itertools", "functools", "operator", "collections", "enum", "numbers", "abc", "contextlib")


def module_level_import(modname, name):
    """The object a module-level `import x` / `from x import y [as name]` binds to `name`, for pure standard-library
    helper modules only (itertools, functools, operator, ...): they have no symbolic counterpart and no state."""
    import ast
    import importlib
    for n in frontend.module(modname).tree.body:
        if isinstance(n, ast.ImportFrom) and n.module and n.level == 0 and n.module.split(".")[0] in SAFE_STDLIB:
            for a in n.names:
                if (a.asname or a.name) == name:
                    try:
                        return getattr(importlib.import_module(n.module), a.name)
                    except Exception:
                        return None
        elif isinstance(n, ast.Import):
            for a in n.names:
                if (a.asname or a.name.split(".")[0]) == name and a.name.split(".")[0] in SAFE_STDLIB:
                    try:
                        return importlib.import_module(a.name.split(".")[0] if not a.asname else a.name)
                    except Exception:
                        return None
    return None


class LazyImport:
    """A name bound by a module-level package-internal import (`from . import config as runtime_config`,
    `from .x import f`): resolved through the harness's import table at the moment it is used, exactly like a
    function-level import of the same thing (the table is filled by the contract's thunk)."""

    def __init__(self, ns, module, name, fallback=None):
        object.__setattr__(self, "_li", (ns, module, name))
        object.__setattr__(self, "_fb", fallback)
        object.__setattr__(self, "_val", None)

    def _target(self):
        ns, module, name = object.__getattribute__(self, "_li")
        try:
            return ns["__pyvc_import__"](module, name)
        except Undecided:
            fb = object.__getattribute__(self, "_fb")
            if fb is None:
                raise
            v = object.__getattribute__(self, "_val")
            if v is None:
                v = fb()      # a function of another module of the package: extracted mechanically like a local helper
                object.__setattr__(self, "_val", v)
            return v

    def __getattr__(self, a):
        return getattr(self._target(), a)

    def __setattr__(self, a, v):
        setattr(self._target(), a, v)

    def __call__(self, *a, **k):
        return self._target()(*a, **k)


def _package_function(ctx, ns, modname, relmod, name):
    """Fallback of a LazyImport: `from ..utils import f` inside bldfm.plotting.footprint -> bldfm.utils:f, extracted into
    the same harness namespace (None when the target is not a module-level function of a package module)."""
    level = len(relmod) - len(relmod.lstrip("."))
    base = modname.split(".")[:-level] if level else modname.split(".")
    target = ".".join(base + ([relmod.lstrip(".")] if relmod.lstrip(".") else []))
    try:
        b = module_level_binding(target, name)
    except Exception:
        return None
    if not b or b[0] != "function":
        return None
    return lambda: define(ctx, ns, target, name)


def module_level_relative_import(modname, name):
    """(module, original name) when `name` is bound at module level by a package-internal import."""
    import ast
    for n in frontend.module(modname).tree.body:
        if isinstance(n, ast.ImportFrom) and n.level >= 1:
            for a in n.names:
                if (a.asname or a.name) == name:
                    return ("." * n.level) + (n.module or ""), a.name
    return None


def free_names(modname, qualname):
    import ast
    import builtins
    node = frontend.module(modname).find(qualname)
    if isinstance(node, ast.ClassDef):
        # a class: the free names of its methods (class-level names are visible through self / the class)
        out = set()
        own = {m.name for m in node.body if isinstance(m, ast.FunctionDef)} | {node.name}
        for m in node.body:
            if isinstance(m, ast.FunctionDef):
                out |= _free_of(m)
        return out - own
    if not isinstance(node, ast.FunctionDef):
        return set()
    return _free_of(node)


def _free_of(node):
    import ast
    import builtins
    params = {a.arg for a in node.args.args + node.args.kwonlyargs + node.args.posonlyargs}
    if node.args.vararg:
        params.add(node.args.vararg.arg)
    if node.args.kwarg:
        params.add(node.args.kwarg.arg)
    stored, loaded = set(), set()
    for n in (x for st in node.body for x in ast.walk(st)):
        if isinstance(n, ast.Name):
            (stored if isinstance(n.ctx, (ast.Store, ast.Del)) else loaded).add(n.id)
        elif isinstance(n, (ast.Import, ast.ImportFrom)):
            for a in n.names:
                stored.add((a.asname or a.name).split(".")[0])
        elif isinstance(n, ast.FunctionDef):
            stored.add(n.name)
            for a in n.args.args:
                stored.add(a.arg)
        elif isinstance(n, ast.arg):
            stored.add(n.arg)
    return {x for x in loaded - stored - params if not hasattr(builtins, x)}


def define(ctx, ns, modname, qualname, loop_specs=None, extra=None, label=None):
    if extra:
        ns.update(extra)
    # module-level helpers and containers the function refers to but the harness did not provide:
    # helper functions are extracted too (reported), mutable containers start empty (their use is a
    # frame matter: see purity.mutable_globals)
    try:
        for nm in sorted(free_names(modname, qualname)):
            if nm in ns or nm == qualname.split(".")[-1]:
                continue
            b = module_level_binding(modname, nm)
            if b is None:
                imp = module_level_import(modname, nm)
                if imp is not None:
                    ns[nm] = imp
                else:
                    rel = module_level_relative_import(modname, nm)
                    if rel is not None:
                        ns[nm] = LazyImport(ns, rel[0], rel[1], fallback=_package_function(ctx, ns, modname, rel[0], rel[1]))
                continue
            if b[0] in ("function", "class"):
                # loop contracts given by selector that match no loop of this function travel to the helper functions
                # it calls: a loop moved into a helper by a refactoring keeps its invariant
                passed = None
                if loop_specs and b[0] == "function":
                    resolved = frontend.resolve_loop_selectors(modname, qualname, loop_specs) or {}
                    own = set(id(v) for v in resolved.values())
                    passed = {k: v for k, v in loop_specs.items() if isinstance(k, str) and id(v) not in own} or None
                define(ctx, ns, modname, nm, loop_specs=passed)
            elif b[0] == "other":
                def _resolve(x, _seen=set()):
                    bx = module_level_binding(modname, x)
                    if bx and bx[0] in ("function", "class") and x not in ns and x not in _seen:
                        _seen.add(x)
                        define(ctx, ns, modname, x)
                frontend.exec_module_constant(ns, modname, nm, resolve=_resolve)
            elif b[0] == "mutable":
                ns[nm] = {"Dict": dict, "DictComp": dict, "dict": dict, "defaultdict": dict, "OrderedDict": dict,
                          "List": list, "ListComp": list, "list": list, "deque": list,
                          "Set": set, "SetComp": set, "set": set}.get(b[1], dict)()
                ctx.assume_note("module-level mutable container %s.%s starts empty in the symbolic run" % (modname, nm))
    except Undecided:
        pass
    obj, info = frontend.compile_into(ns, modname, qualname, loop_specs=loop_specs, label=label)
    ctx.add_function(info)
    return obj


class Context:
    def __init__(self, props, tier="quick", seed=0):
        self.props = set(props)
        self.tier = tier
        self.seed = seed
        self.obligations = []
        self.functions = {}
        self.undecided = []
        self.assumptions = set()
        self.trusted = set()
        self.paths = 0
        self.gen_time = 0.0
        self._names = set()

    def wants(self, props):
        return bool(self.props & set(props))

    def add_function(self, info):
        self.functions[info.modname + ":" + info.qualname] = info.as_json()

    def assume_note(self, *texts):
        self.assumptions.update(texts)

    def trust(self, *texts):
        self.trusted.update(texts)

    def add(self, ob):
        """Register an obligation (dedupe by name+goal text)."""
        key = (ob.name, ob.goal.sexpr() if hasattr(ob.goal, "sexpr") else str(ob.goal),
               hash(tuple(c.get_id() if hasattr(c, "get_id") else str(c) for c in ob.pc)) if ob.view != "custom" else 0)
        if key in self._names:
            return
        self._names.add(key)
        self.obligations.append(ob)

    def explore(self, label, thunk, props, max_paths=400):
        if not self.wants(props):
            return
        t0 = time.time()
        ex = engine.Explorer(props=set(props), max_paths=max_paths)
        try:
            results = ex.explore(thunk)
        except Undecided as e:
            self.undecided.append({"obligation": label, "reason": "undecided: %s" % e})
            self.gen_time += time.time() - t0
            return
        except engine.EndPath:
            results = []
        except Exception as e:
            tb = traceback.format_exc(limit=6)
            self.undecided.append({"obligation": label, "reason": "generator error: %r\n%s" % (e, tb)})
            self.gen_time += time.time() - t0
            return
        for r in results:
            self.paths += 1
            for ob in r.obligations:
                if ob.props & self.props:
                    self.add(ob)
        self.gen_time += time.time() - t0

    def lemma(self, name, goal, hyps=(), props=(), expect="unsat", meta=None, kind="lemma"):
        """A consequence of contracts only (no code executed)."""
        if not self.wants(props):
            return
        g = sym.sbool(goal).z()
        hy = [sym.sbool(h).z() for h in hyps]
        self.add(engine.Obligation(name if ":" in name else "lemma:" + name, kind, g, hy, props=props,
                                   cls="lemma", expect=expect, meta=meta))
