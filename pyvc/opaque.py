"""Dependency view: callees as uninterpreted functions over keyword-normalised argument
records; structural equality (congruence) of results."""
import ast

import z3

from . import sym, frontend, values
from .sym import Num, Cx, SBool, SStr, num, sbool, Undecided
from .loops import scalar_eq


class Op:
    """Opaque result of a call: fn(args)[part]."""

    def __init__(self, fn, args, part=None):
        self.fn, self.args, self.part = fn, args, part

    def __repr__(self):
        return "<%s%s>" % (self.fn, "." + str(self.part) if self.part is not None else "")

    def __format__(self, spec):
        return repr(self)

    def __iter__(self):
        raise Undecided("iteration over an opaque value %r" % self)


def veq(a, b):
    """Structural equality as an SBool; sufficient for equality of opaque results (EUF
    congruence), and necessary when the callees are read as free function symbols."""
    if a is b:
        return SBool(True)
    if isinstance(a, Cond) or isinstance(b, Cond):
        return cond_eq(a, b)
    if isinstance(a, Op) or isinstance(b, Op):
        if not (isinstance(a, Op) and isinstance(b, Op)):
            return SBool(False)
        if a.fn != b.fn or a.part != b.part or set(a.args) != set(b.args):
            return SBool(False)
        r = SBool(True)
        for k in a.args:
            r = r & veq(a.args[k], b.args[k])
        return r
    if isinstance(a, Cond) or isinstance(b, Cond):
        return cond_eq(a, b)
    if isinstance(a, values.SList) or isinstance(b, values.SList):
        if not all(isinstance(x, (values.SList, list, tuple)) for x in (a, b)):
            return SBool(False)        # a sequence never equals a scalar / record
        la = a.length if isinstance(a, values.SList) else Num(len(a))
        lb = b.length if isinstance(b, values.SList) else Num(len(b))
        k = sym.fresh_int("veq_k")
        ea = a.elem(k) if isinstance(a, values.SList) else _pyelem(a, k)
        eb = b.elem(k) if isinstance(b, values.SList) else _pyelem(b, k)
        return (la == lb) & ((k >= 0) & (k < la)).implies(veq(ea, eb))
    if isinstance(a, values.BList) or isinstance(b, values.BList):
        if isinstance(b, values.BList) and not isinstance(a, values.BList):
            a, b = b, a
        if not isinstance(b, values.BList):
            if isinstance(b, list) and not b:
                return (a.rows == 0) & (a.partial == 0)
            return SBool(False)
        t, i = sym.fresh_int("veq_t"), sym.fresh_int("veq_i")
        same_shape = (a.ncols == b.ncols) & (
            ((a.rows == b.rows) & (a.partial == b.partial)) |
            ((a.rows + 1 == b.rows) & (a.partial == a.ncols) & (b.partial == 0)) |
            ((b.rows + 1 == a.rows) & (b.partial == b.ncols) & (a.partial == 0)))
        return same_shape & a.in_domain(t, i).implies(veq(a.elem2(t, i), b.elem2(t, i)))
    if isinstance(a, values.SDict) or isinstance(b, values.SDict):
        if not (isinstance(a, values.SDict) and isinstance(b, values.SDict)):
            if isinstance(a, dict) and not a:
                return b.length == 0
            if isinstance(b, dict) and not b:
                return a.length == 0
            return SBool(False)
        k = sym.fresh_int("veq_d")
        return (a.length == b.length) & ((k >= 0) & (k < a.length)).implies(
            veq(a.key_fn(k), b.key_fn(k)) & veq(a.val_fn(k), b.val_fn(k)))
    if isinstance(a, (tuple, list)) or isinstance(b, (tuple, list)):
        if not (isinstance(a, (tuple, list)) and isinstance(b, (tuple, list))) or len(a) != len(b):
            return SBool(False)
        r = SBool(True)
        for x, y in zip(a, b):
            r = r & veq(x, y)
        return r
    if isinstance(a, dict) or isinstance(b, dict):
        if not (isinstance(a, dict) and isinstance(b, dict)) or set(a) != set(b):
            return SBool(False)
        r = SBool(True)
        for k in a:
            r = r & veq(a[k], b[k])
        return r
    if isinstance(a, values.Rec) or isinstance(b, values.Rec):
        ka, kb = getattr(a, "_key", None), getattr(b, "_key", None)
        if ka is not None and kb is not None and getattr(a, "_name", 0) == getattr(b, "_name", 1):
            return scalar_eq(ka, kb)      # records of one indexed family: equal iff same index
        return SBool(a is b)
    if isinstance(a, Cond) or isinstance(b, Cond):
        return cond_eq(a, b)
    return scalar_eq(a, b)


class Cond:
    """Piecewise opaque value: [(guard, value)...] (guards exhaustive and exclusive)."""

    def __init__(self, alts):
        self.alts = alts


def cond_eq(a, b):
    aa = a.alts if isinstance(a, Cond) else [(SBool(True), a)]
    bb = b.alts if isinstance(b, Cond) else [(SBool(True), b)]
    r = SBool(True)
    for ga, va in aa:
        for gb, vb in bb:
            r = r & (ga & gb).implies(veq(va, vb))
    return r


def _pyelem(xs, k):
    if not xs:
        return None
    return Cond([(k == i, x) for i, x in enumerate(xs)])


def signature(modname, qualname):
    """(parameter names, defaults dict) read from the REAL source."""
    node = frontend.module(modname).find(qualname)
    a = node.args
    names = [x.arg for x in a.posonlyargs + a.args]
    defaults = {}
    for n, d in zip(names[len(names) - len(a.defaults):], a.defaults):
        defaults[n] = _const(d)
    for x, d in zip(a.kwonlyargs, a.kw_defaults):
        names.append(x.arg)
        if d is not None:
            defaults[x.arg] = _const(d)
    return names, defaults


def _const(d):
    if isinstance(d, ast.Constant):
        v = d.value
        if isinstance(v, float):
            return sym.F(repr(v))
        return v
    if isinstance(d, ast.Tuple):
        return tuple(_const(e) for e in d.elts)
    if isinstance(d, ast.UnaryOp) and isinstance(d.op, ast.USub):
        return -_const(d.operand)
    raise Undecided("default value %s" % ast.dump(d)[:60])


def opaque_function(modname, qualname, parts=None, log=None, drop_self=False):
    """Stub: binds the call to the callee's real signature (positional/keyword passing and
    argument order become indistinguishable, defaults are filled in) and returns Op(s)."""
    names, defaults = signature(modname, qualname)
    if drop_self and names and names[0] == "self":
        names = names[1:]
    fn = modname.split(".")[-1] + "." + qualname

    def stub(*a, **k):
        if len(a) > len(names):
            raise TypeError("%s() takes %d positional arguments" % (fn, len(names)))
        args = dict(defaults)
        for n, v in zip(names, a):
            args[n] = v
        for n, v in k.items():
            if n not in names:
                raise TypeError("%s() got an unexpected keyword argument %r" % (fn, n))
            if n in names[:len(a)]:
                raise TypeError("%s() got multiple values for argument %r" % (fn, n))
            args[n] = v
        for n in names:
            if n not in args:
                raise TypeError("%s() missing required argument %r" % (fn, n))
        if log is not None:
            log.append((fn, args))
        if parts is None:
            return Op(fn, args)
        return tuple(Op(fn, args, p) for p in parts)
    stub.names = names
    stub.fn = fn
    return stub
